-------------------------------- MODULE Agg --------------------------------
(***************************************************************************)
(* Reference semantics of the aggregate functions (property C03), over a    *)
(* sequence xs of abstract values (SV) in arrival order.  "usable" = the     *)
(* numeric values; NULL/missing are skipped.  Each definition is given as a  *)
(* predicate Ok(fn, e, xs, p) "engine value e is a correct value of fn(xs)", *)
(* which lets the documentation's latitude be expressed (percentile          *)
(* bracket, unconstrained results over empty input).                         *)
(* Fixed point: values are x * 10^4; variance/stddev references are computed *)
(* on integer inputs only (TLC integers are 32 bit).                         *)
(***************************************************************************)
EXTENDS SV

\* an argument value is a value record, Null (explicit NULL in the row) or Missing (column absent / an
\* expression over an absent column): both are skipped; only first_value/last_value tell them apart
Missing == [k |-> "missing"]
IsMissing(x) == x.k = "missing"
NonNull(xs) == SelectSeq(xs, LAMBDA x : ~IsNull(x) /\ ~IsMissing(x))
Present(xs) == SelectSeq(xs, LAMBDA x : ~IsMissing(x))
Usable(xs)  == SelectSeq(xs, LAMBDA x : IsNum(x))
RECURSIVE SumF(_)
SumF(xs) == IF xs = <<>> THEN 0 ELSE Head(xs).v + SumF(Tail(xs))
RECURSIVE MinF(_)
MinF(xs) == IF Len(xs) = 1 THEN xs[1].v ELSE LET m == MinF(Tail(xs)) IN IF xs[1].v < m THEN xs[1].v ELSE m
RECURSIVE MaxF(_)
MaxF(xs) == IF Len(xs) = 1 THEN xs[1].v ELSE LET m == MaxF(Tail(xs)) IN IF xs[1].v > m THEN xs[1].v ELSE m
\* integer view (inputs for variance are whole numbers)
AllInt(xs) == \A i \in 1..Len(xs) : xs[i].v % Scale = 0
RECURSIVE SumI(_)
SumI(xs) == IF xs = <<>> THEN 0 ELSE (Head(xs).v \div Scale) + SumI(Tail(xs))
RECURSIVE SumSq(_)
SumSq(xs) == IF xs = <<>> THEN 0 ELSE (Head(xs).v \div Scale) * (Head(xs).v \div Scale) + SumSq(Tail(xs))
\* n^2 * population variance
N2V(xs) == Len(xs) * SumSq(xs) - SumI(xs) * SumI(xs)
\* sorted (ascending) fixed-point values
RECURSIVE Insert(_, _)
Insert(v, s) == IF s = <<>> THEN <<v>> ELSE IF v <= Head(s) THEN <<v>> \o s ELSE <<Head(s)>> \o Insert(v, Tail(s))
RECURSIVE JoinCs(_)
JoinCs(xs) == IF xs = <<>> THEN <<>> ELSE IF Len(xs) = 1 THEN xs[1].cs ELSE xs[1].cs \o <<",">> \o JoinCs(Tail(xs))
RECURSIVE SortF(_)
SortF(xs) == IF xs = <<>> THEN <<>> ELSE Insert(Head(xs).v, SortF(Tail(xs)))
CeilDiv(a, b) == (a + b - 1) \div b
\* distinct values in first-occurrence order
RECURSIVE Dedup(_, _)
Dedup(xs, seen) ==
  IF xs = <<>> THEN <<>>
  ELSE IF KeyOf(Head(xs)) \in seen THEN Dedup(Tail(xs), seen)
  ELSE <<Head(xs)>> \o Dedup(Tail(xs), seen \cup {KeyOf(Head(xs))})

EIsNum(e) == e.k = "num"
EIsNullOrZero(e) == e.k = "null" \/ (e.k = "num" /\ e.v = 0)

\* e: engine value; xs: argument values per row (NULL for missing); p: parameter (nth: n; percentile: per-mille); nrows: rows in group
Ok(fn, e, xs, p, nrows) ==
  LET u == Usable(xs)  n == Len(u) IN
  CASE fn = "count_star" -> SameNum(e, NumV(nrows * Scale), 0)
    [] fn = "count" -> SameNum(e, NumV(Len(NonNull(xs)) * Scale), 0)
    [] fn = "sum"   -> IF n = 0 THEN IsNull(e) ELSE SameNum(e, NumV(SumF(u)), 1)
    [] fn = "avg"   -> IF n = 0 THEN IsNull(e) ELSE EIsNum(e) /\ Within(e.v * n, SumF(u), n)
    [] fn = "min"   -> IF n = 0 THEN IsNull(e) ELSE SameNum(e, NumV(MinF(u)), 1)
    [] fn = "max"   -> IF n = 0 THEN IsNull(e) ELSE SameNum(e, NumV(MaxF(u)), 1)
    [] fn = "var"   -> IF n = 0 THEN EIsNullOrZero(e)
                       ELSE ~AllInt(u) \/ (EIsNum(e) /\ Within(e.v * n * n, Scale * N2V(u), n * n))
    [] fn = "vars"  -> IF n <= 1 THEN EIsNullOrZero(e)
                       ELSE ~AllInt(u) \/ (EIsNum(e) /\ Within(e.v * n * (n - 1), Scale * N2V(u), n * (n - 1)))
    \* stddev compared squared on the coarse (x*100) value e.c:  (c-1)^2 <= 10^4 * var <= (c+1)^2
    [] fn = "stddev" -> IF n = 0 THEN EIsNullOrZero(e)
                        ELSE ~AllInt(u) \/ (EIsNum(e) /\ e.c >= 0
                             /\ (IF e.c = 0 THEN 0 ELSE (e.c - 1) * (e.c - 1)) * n * n <= Scale * N2V(u)
                             /\ Scale * N2V(u) <= (e.c + 1) * (e.c + 1) * n * n)
    [] fn = "stddevs" -> IF n <= 1 THEN EIsNullOrZero(e)
                         ELSE ~AllInt(u) \/ (EIsNum(e) /\ e.c >= 0
                              /\ (IF e.c = 0 THEN 0 ELSE (e.c - 1) * (e.c - 1)) * n * (n - 1) <= Scale * N2V(u)
                              /\ Scale * N2V(u) <= (e.c + 1) * (e.c + 1) * n * (n - 1))
    [] fn = "median" -> IF n = 0 THEN EIsNullOrZero(e)
                        ELSE LET s == SortF(u) IN
                             IF n % 2 = 1 THEN SameNum(e, NumV(s[(n + 1) \div 2]), 1)
                             ELSE EIsNum(e) /\ Within(2 * e.v, s[n \div 2] + s[n \div 2 + 1], 2)
    \* percentile p/1000: between the order statistics at floor and ceil of p(n-1)
    [] fn = "percentile" -> IF n = 0 THEN EIsNullOrZero(e)
                            ELSE LET s == SortF(u)
                                     lo == (p * (n - 1)) \div 1000
                                     hi == CeilDiv(p * (n - 1), 1000)
                                 IN EIsNum(e) /\ s[lo + 1] - 1 <= e.v /\ e.v <= s[hi + 1] + 1
    \* explicit NULL of the first/last row is reported; a row where the input is absent is skipped (or, for an
    \* expression over an absent column, may also count as NULL: the statement leaves that open)
    [] fn = "first_value" -> LET ps == Present(xs) IN
                             \/ (IF ps = <<>> THEN IsNull(e) ELSE Same(e, ps[1]))
                             \/ (p = 1 /\ xs # <<>> /\ IsMissing(xs[1]) /\ IsNull(e))
    [] fn = "last_value"  -> LET ps == Present(xs) IN
                             \/ (IF ps = <<>> THEN IsNull(e) ELSE Same(e, ps[Len(ps)]))
                             \/ (p = 1 /\ xs # <<>> /\ IsMissing(xs[Len(xs)]) /\ IsNull(e))
    [] fn = "nth_value"   -> LET nn == NonNull(xs) IN IF Len(nn) < p THEN IsNull(e) ELSE Same(e, nn[p])
    \* merge_agg over TEXT values: the texts joined by commas, in arrival order (an empty text is a value: it keeps its comma). Any other
    \* input (NULL, absent, numbers, objects) leaves the result open: documentation and behaviour disagree there
    [] fn = "merge_agg"   -> (\E i \in 1..Len(xs) : ~IsStr(xs[i])) \/ (IsStr(e) /\ e.cs = JoinCs(xs))
    [] fn = "collect"     -> Same(e, [k |-> "list", v |-> NonNull(xs)])
    [] fn = "deduplicate" -> Same(e, [k |-> "list", v |-> Dedup(NonNull(xs), {})])
    [] OTHER -> FALSE

\* order-insensitive functions (permutation invariance is checked by feeding permuted batches)
OrderFree == {"count_star", "count", "sum", "avg", "min", "max", "var", "vars", "stddev", "stddevs", "median", "percentile"}
=============================================================================
