------------------------------- MODULE KeyEnc -------------------------------
(***************************************************************************)
(* The engine's group-key encoders, transcribed.  A key tuple is a sequence *)
(* of components; a component is a string, or Nil for NULL / missing.       *)
(* The property (C04) needs every encoder to be injective on tuples.        *)
(***************************************************************************)
EXTENDS Integers, Sequences, FiniteSets, TLC

Nil == "<NIL>"   \* reserved token: NULL or missing component
RECURSIVE JoinWith(_, _)
JoinWith(parts, sep) == IF parts = <<>> THEN "" ELSE IF Len(parts) = 1 THEN parts[1] ELSE parts[1] \o sep \o JoinWith(Tail(parts), sep)

\* historical encoder of counting / session / global windows: cast.ToString(part) joined by "|" (NULL and missing -> "")
PipeJoin(t) == JoinWith([i \in 1..Len(t) |-> IF t[i] = Nil THEN "" ELSE t[i]], "|")
\* length-prefixed, NULL-tagged encoding (injective by construction)
RECURSIVE Concat(_)
Concat(parts) == IF parts = <<>> THEN "" ELSE Head(parts) \o Concat(Tail(parts))
StrLen(s) == Len(s)
Tagged(t) == Concat([i \in 1..Len(t) |-> IF t[i] = Nil THEN "n;" ELSE ToString(StrLen(t[i])) \o ":" \o t[i] \o ";"])

Injective(Enc(_), Tuples) == \A a, b \in Tuples : Enc(a) = Enc(b) => a = b
=============================================================================
