------------------------------ MODULE FieldPath ------------------------------
(***************************************************************************)
(* Nested field access as documented in docs/NESTED_FIELD_ACCESS.md (the    *)
(* "nested paths" of C05, usable in SELECT, WHERE, GROUP BY and aggregate    *)
(* arguments):  a path is a column name followed by steps                    *)
(*      .name        field of an object                [k |-> "f", n |-> name]  *)
(*      ['key'] ["key"]   key of an object             [k |-> "k", n |-> key]   *)
(*      [i]          element of an array, 0-based; a negative index counts   *)
(*                   from the end ([-1] is the last element)  [k |-> "i", i |-> i] *)
(* A step that cannot be taken (no such field / key, index out of range, the  *)
(* value is not an object / array, the value is NULL) makes the whole path    *)
(* NULL ("a missing source is NULL").                                         *)
(* Values are the abstract values of SV (maps and lists nest).               *)
(***************************************************************************)
EXTENDS SV

\* one step from value x
PStep(x, pt) ==
  IF pt.k = "i"
    THEN IF x.k = "list"
           THEN LET n == Len(x.v)
                    j == IF pt.i < 0 THEN n + pt.i ELSE pt.i
                IN IF j >= 0 /\ j < n THEN x.v[j + 1] ELSE Null
           ELSE Null
    ELSE IF x.k = "map" /\ pt.n \in DOMAIN x.v THEN x.v[pt.n] ELSE Null

RECURSIVE PResolve(_, _)
PResolve(x, parts) ==
  IF parts = <<>> THEN x
  ELSE IF x.k = "null" THEN Null
  ELSE PResolve(PStep(x, Head(parts)), Tail(parts))

\* value of the path  col parts  in a row (col absent: NULL)
ColPath2(row, c, parts) == IF Has(row, c) THEN PResolve(row[c], parts) ELSE Null
=============================================================================
