-------------------------------- MODULE Like --------------------------------
(***************************************************************************)
(* SQL LIKE over character sequences (sequences of one-character strings):  *)
(* % matches any (possibly empty) sequence, _ exactly one character, every   *)
(* other character - regex metacharacters and literal % or _ occurring in    *)
(* the TEXT included - matches itself.  The whole text must match.           *)
(***************************************************************************)
EXTENDS Integers, Sequences

RECURSIVE LikeMatch(_, _)
LikeMatch(t, p) ==
  IF p = <<>> THEN t = <<>>
  ELSE IF Head(p) = "%" THEN \E k \in 0..Len(t) : LikeMatch(SubSeq(t, k + 1, Len(t)), Tail(p))
  ELSE IF t = <<>> THEN FALSE
  ELSE IF Head(p) = "_" THEN LikeMatch(Tail(t), Tail(p))
  ELSE Head(t) = Head(p) /\ LikeMatch(Tail(t), Tail(p))
=============================================================================
