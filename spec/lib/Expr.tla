-------------------------------- MODULE Expr --------------------------------
(***************************************************************************)
(* Reference semantics of scalar SQL expressions (properties C05, C06, C13): *)
(* an interpreter over expression ASTs (records, as they arrive from the     *)
(* scenario's meta line) and rows of abstract values (SV).                   *)
(* Numbers are exact rationals [k |-> "rat", n, d] (inputs are small integers *)
(* or halves); strings carry their characters in field cs.                   *)
(* Evaluation yields a value, NullV, or ErrV (outside the domain).           *)
(*   t = "col" c | "path" p | "num" n d | "str" cs | "neg" a | "bin" op a b   *)
(*     | "cmp" op a b | "and" a b | "or" a b | "not" a | "par" a             *)
(*     | "case" whens else (searched) | "scase" a whens else (simple)        *)
(*     | "isnull" a neg | "like" a pat neg | "fn" f args                      *)
(***************************************************************************)
EXTENDS SV, Like

NullV == [k |-> "null"]
ErrV  == [k |-> "err"]
Rat(n, d) == [k |-> "rat", n |-> n, d |-> d]
RECURSIVE Gcd(_, _)
Gcd(a, b) == IF b = 0 THEN a ELSE Gcd(b, a % b)
Norm(n, d) == LET g == Gcd(Abs(n), Abs(d))  s == IF d < 0 THEN -1 ELSE 1 IN
              IF g = 0 THEN Rat(0, 1) ELSE Rat(s * (n \div g), s * (d \div g))
\* an input value (fixed point, multiple of 1/2 or 1/4 ...) as a rational
FromSV(x) ==
  CASE x.k = "num"  -> Norm(x.v, Scale)
    [] x.k = "str"  -> [k |-> "str", cs |-> x.cs]
    [] x.k = "bool" -> [k |-> "bool", v |-> x.v]
    [] x.k = "null" -> NullV
    [] x.k = "rat"  -> x                      \* already a reference value (aggregate results in post-aggregation environments)
    [] OTHER -> [k |-> "opaque", v |-> x]
IsRat(x) == x.k = "rat"
IsS(x) == x.k = "str"
IsB(x) == x.k = "bool"
BoolR(b) == [k |-> "bool", v |-> b]
StrR(cs) == [k |-> "str", cs |-> cs]

Arith(op, a, b) ==
  IF a.k = "err" \/ b.k = "err" THEN ErrV
  ELSE IF a.k = "null" \/ b.k = "null" THEN NullV
  ELSE IF ~IsRat(a) \/ ~IsRat(b) THEN ErrV
  ELSE CASE op = "+" -> Norm(a.n * b.d + b.n * a.d, a.d * b.d)
         [] op = "-" -> Norm(a.n * b.d - b.n * a.d, a.d * b.d)
         [] op = "*" -> Norm(a.n * b.n, a.d * b.d)
         [] op = "/" -> IF b.n = 0 THEN ErrV ELSE Norm(a.n * b.d, a.d * b.n)

\* three-valued comparison result: TRUE / FALSE as bool values, NullV for "unknown"
Compare(op, a, b) ==
  IF a.k = "err" \/ b.k = "err" THEN ErrV
  ELSE IF a.k = "null" \/ b.k = "null" THEN NullV
  ELSE IF IsRat(a) /\ IsRat(b) THEN
         LET l == a.n * b.d  r == b.n * a.d IN
         BoolR(CASE op = "=" -> l = r [] op = "!=" -> l # r [] op = "<" -> l < r [] op = "<=" -> l <= r [] op = ">" -> l > r [] op = ">=" -> l >= r)
  ELSE IF IsS(a) /\ IsS(b) /\ op \in {"=", "!="} THEN BoolR(IF op = "=" THEN a.cs = b.cs ELSE a.cs # b.cs)
  ELSE IF IsB(a) /\ IsB(b) /\ op \in {"=", "!="} THEN BoolR(IF op = "=" THEN a.v = b.v ELSE a.v # b.v)
  ELSE ErrV                      \* mixed kinds / ordering of strings: outside the decided domain

\* SQL truth: only a TRUE boolean is true
IsTrue(x) == x.k = "bool" /\ x.v = TRUE

UpperC(c) == CASE c = "a" -> "A" [] c = "b" -> "B" [] c = "c" -> "C" [] c = "x" -> "X" [] c = "z" -> "Z" [] OTHER -> c
LowerC(c) == CASE c = "A" -> "a" [] c = "B" -> "b" [] c = "C" -> "c" [] c = "X" -> "x" [] c = "Z" -> "z" [] OTHER -> c
Floor(a) == IF a.n >= 0 THEN a.n \div a.d ELSE -((-a.n + a.d - 1) \div a.d)
Ceil(a)  == -Floor(Rat(-a.n, a.d))

\* built-in scalar functions modelled exactly (definable over small rationals and short strings)
Call(f, xs) ==
  LET a == IF Len(xs) >= 1 THEN xs[1] ELSE NullV
      b == IF Len(xs) >= 2 THEN xs[2] ELSE NullV IN
  IF \E i \in 1..Len(xs) : xs[i].k = "err" THEN ErrV
  ELSE CASE f = "abs"    -> IF IsRat(a) THEN Rat(Abs(a.n), a.d) ELSE ErrV
         [] f = "floor"  -> IF IsRat(a) THEN Rat(Floor(a), 1) ELSE ErrV
         [] f = "ceil"   -> IF IsRat(a) THEN Rat(Ceil(a), 1) ELSE ErrV
         [] f = "upper"  -> IF IsS(a) THEN StrR([i \in 1..Len(a.cs) |-> UpperC(a.cs[i])]) ELSE ErrV
         [] f = "lower"  -> IF IsS(a) THEN StrR([i \in 1..Len(a.cs) |-> LowerC(a.cs[i])]) ELSE ErrV
         [] f = "length" -> IF IsS(a) THEN Rat(Len(a.cs), 1) ELSE ErrV
         [] f = "concat" -> IF IsS(a) /\ IsS(b) THEN StrR(a.cs \o b.cs) ELSE ErrV
         [] f = "coalesce" -> IF a.k # "null" THEN a ELSE b
         [] f = "if_null"  -> IF a.k # "null" THEN a ELSE b
         [] OTHER -> ErrV

RECURSIVE Eval(_, _), CaseEval(_, _, _, _), SCaseEval(_, _, _, _, _)
Eval(e, row) ==
  CASE e.t = "col"  -> FromSV(Col(row, e.c))
    [] e.t = "path" -> FromSV(ColPath(row, e.p))
    [] e.t = "num"  -> Norm(e.n, e.d)
    [] e.t = "str"  -> StrR(e.cs)
    [] e.t = "par"  -> Eval(e.a, row)
    [] e.t = "neg"  -> Arith("-", Rat(0, 1), Eval(e.a, row))
    [] e.t = "bin"  -> Arith(e.op, Eval(e.a, row), Eval(e.b, row))
    [] e.t = "cmp"  -> Compare(e.op, Eval(e.a, row), Eval(e.b, row))
    [] e.t = "and"  -> LET x == Eval(e.a, row)  y == Eval(e.b, row) IN
                       IF x.k = "err" \/ y.k = "err" THEN ErrV ELSE BoolR(IsTrue(x) /\ IsTrue(y))
    [] e.t = "or"   -> LET x == Eval(e.a, row)  y == Eval(e.b, row) IN
                       IF x.k = "err" \/ y.k = "err" THEN ErrV ELSE BoolR(IsTrue(x) \/ IsTrue(y))
    [] e.t = "not"  -> LET x == Eval(e.a, row) IN IF x.k = "err" THEN ErrV ELSE BoolR(~IsTrue(x))
    [] e.t = "isnull" -> LET x == Eval(e.a, row) IN IF x.k = "err" THEN ErrV ELSE BoolR((x.k = "null") # e.neg)
    [] e.t = "like" -> LET x == Eval(e.a, row) IN
                       IF x.k = "null" THEN NullV
                       ELSE IF ~IsS(x) THEN ErrV
                       ELSE BoolR(LikeMatch(x.cs, e.pat) # e.neg)
    [] e.t = "case" -> CaseEval(e.whens, e, row, 1)
    [] e.t = "scase" -> SCaseEval(Eval(e.a, row), e.whens, e, row, 1)
    [] e.t = "fn"   -> Call(e.f, [i \in 1..Len(e.args) |-> Eval(e.args[i], row)])

\* first branch whose condition is true, else ELSE, else NULL
CaseEval(ws, e, row, i) ==
  IF i > Len(ws) THEN (IF "else" \in DOMAIN e THEN Eval(e.else, row) ELSE NullV)
  ELSE LET c == Eval(ws[i].c, row) IN
       IF c.k = "err" THEN ErrV
       ELSE IF IsTrue(c) THEN Eval(ws[i].r, row) ELSE CaseEval(ws, e, row, i + 1)
SCaseEval(x, ws, e, row, i) ==
  IF i > Len(ws) THEN (IF "else" \in DOMAIN e THEN Eval(e.else, row) ELSE NullV)
  ELSE LET c == Compare("=", x, Eval(ws[i].c, row)) IN
       IF c.k = "err" THEN ErrV
       ELSE IF IsTrue(c) THEN Eval(ws[i].r, row) ELSE SCaseEval(x, ws, e, row, i + 1)

\* does engine value v (SV) equal reference value x?  booleans of comparisons may surface as bool
Matches(v, x) ==
  CASE x.k = "null" -> v.k = "null"
    [] x.k = "rat"  -> v.k = "num" /\ Within(v.v * x.d, x.n * Scale, Abs(x.d))
    [] x.k = "str"  -> v.k = "str" /\ v.cs = x.cs
    [] x.k = "bool" -> v.k = "bool" /\ v.v = x.v
    [] x.k = "opaque" -> Same(v, x.v)
    [] OTHER -> FALSE
=============================================================================
