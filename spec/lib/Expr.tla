-------------------------------- MODULE Expr --------------------------------
(***************************************************************************)
(* Reference semantics of scalar SQL expressions (properties C05, C06, C13): *)
(* an interpreter over expression ASTs (records, as they arrive from the     *)
(* scenario's meta line) and rows of abstract values (SV).                   *)
(* Numbers are exact rationals [k |-> "rat", n, d] (inputs are small integers *)
(* or halves); strings carry their characters in field cs.                   *)
(* Evaluation yields a value, NullV, or ErrV (outside the domain).           *)
(*   t = "col" c | "path" p | "path2" c parts | "num" n d | "str" cs | "neg" a | "bin" op a b   *)
(*     | "cmp" op a b | "and" a b | "or" a b | "not" a | "par" a             *)
(*     | "case" whens else (searched) | "scase" a whens else (simple)        *)
(*     | "isnull" a neg | "like" a pat neg | "fn" f args                      *)
(***************************************************************************)
EXTENDS FieldPath, Like

NullV == [k |-> "null"]
ErrV  == [k |-> "err"]
\* evaluation FAILS (ordering comparison of a number with a string or boolean): a predicate that fails rejects the row; the
\* failure aborts the predicate left to right (x > 20 OR y > 0 fails on x = "25", y > 0 OR x > 20 does not when y > 0 holds)
FailV == [k |-> "fail"]
Bad(x) == x.k = "err" \/ x.k = "fail"
Rat(n, d) == [k |-> "rat", n |-> n, d |-> d]
RECURSIVE Gcd(_, _)
Gcd(a, b) == IF b = 0 THEN a ELSE Gcd(b, a % b)
Norm(n, d) == LET g == Gcd(Abs(n), Abs(d))  s == IF d < 0 THEN -1 ELSE 1 IN
              IF g = 0 THEN Rat(0, 1) ELSE Rat(s * (n \div g), s * (d \div g))
\* an input value (fixed point, multiple of 1/2 or 1/4 ...) as a rational
FromSV(x) ==
  CASE x.k = "num"  -> Norm(x.v, Scale)
    [] x.k = "str"  -> [k |-> "str", cs |-> x.cs]
    [] x.k = "bool" -> [k |-> "bool", v |-> x.v]
    [] x.k = "null" -> NullV
    [] x.k = "rat"  -> x                      \* already a reference value (aggregate results in post-aggregation environments)
    [] OTHER -> [k |-> "opaque", v |-> x]
IsRat(x) == x.k = "rat"
IsS(x) == x.k = "str"
IsB(x) == x.k = "bool"
BoolR(b) == [k |-> "bool", v |-> b]
StrR(cs) == [k |-> "str", cs |-> cs]

Big(a) == a.n > 30000 \/ a.n < -30000 \/ a.d > 30000
Arith(op, a, b) ==
  IF Bad(a) \/ Bad(b) THEN ErrV
  ELSE IF a.k = "null" \/ b.k = "null" THEN NullV
  ELSE IF ~IsRat(a) \/ ~IsRat(b) THEN ErrV
  ELSE IF Big(a) \/ Big(b) THEN ErrV          \* beyond TLC's 32-bit integers: not decided
  ELSE CASE op = "+" -> Norm(a.n * b.d + b.n * a.d, a.d * b.d)
         [] op = "-" -> Norm(a.n * b.d - b.n * a.d, a.d * b.d)
         [] op = "*" -> Norm(a.n * b.n, a.d * b.d)
         [] op = "/" -> IF b.n = 0 THEN ErrV ELSE Norm(a.n * b.d, a.d * b.n)

\* three-valued comparison result: TRUE / FALSE as bool values, NullV for "unknown"
MixedKinds(a, b) == (IsRat(a) /\ (IsS(b) \/ IsB(b))) \/ (IsRat(b) /\ (IsS(a) \/ IsB(a)))
Compare(op, a, b) ==
  IF a.k = "err" \/ b.k = "err" THEN ErrV
  ELSE IF a.k = "fail" \/ b.k = "fail" THEN FailV
  ELSE IF MixedKinds(a, b) /\ op \in {"<", "<=", ">", ">="} THEN FailV
  ELSE IF a.k = "null" \/ b.k = "null" THEN NullV
  ELSE IF IsRat(a) /\ IsRat(b) /\ (Big(a) \/ Big(b)) THEN ErrV
  ELSE IF IsRat(a) /\ IsRat(b) THEN
         LET l == a.n * b.d  r == b.n * a.d IN
         BoolR(CASE op = "=" -> l = r [] op = "!=" -> l # r [] op = "<" -> l < r [] op = "<=" -> l <= r [] op = ">" -> l > r [] op = ">=" -> l >= r)
  ELSE IF IsS(a) /\ IsS(b) /\ op \in {"=", "!="} THEN BoolR(IF op = "=" THEN a.cs = b.cs ELSE a.cs # b.cs)
  ELSE IF IsB(a) /\ IsB(b) /\ op \in {"=", "!="} THEN BoolR(IF op = "=" THEN a.v = b.v ELSE a.v # b.v)
  ELSE ErrV                      \* mixed kinds / ordering of strings: outside the decided domain

\* SQL truth: only a TRUE boolean is true
IsTrue(x) == x.k = "bool" /\ x.v = TRUE

LowerAlpha == <<"a","b","c","d","e","f","g","h","i","j","k","l","m","n","o","p","q","r","s","t","u","v","w","x","y","z">>
UpperAlpha == <<"A","B","C","D","E","F","G","H","I","J","K","L","M","N","O","P","Q","R","S","T","U","V","W","X","Y","Z">>
UpperC(c) == IF \E i \in 1..26 : LowerAlpha[i] = c THEN UpperAlpha[CHOOSE i \in 1..26 : LowerAlpha[i] = c] ELSE c
LowerC(c) == IF \E i \in 1..26 : UpperAlpha[i] = c THEN LowerAlpha[CHOOSE i \in 1..26 : UpperAlpha[i] = c] ELSE c
Floor(a) == IF a.n >= 0 THEN a.n \div a.d ELSE -((-a.n + a.d - 1) \div a.d)
Ceil(a)  == -Floor(Rat(-a.n, a.d))

\* ---- helpers for the built-in scalar functions (strings are sequences of one-character strings) ----
RECURSIVE LTrimS(_), RTrimS(_), ReplaceS(_, _, _), Pow(_, _), PadS(_, _), FoldBest(_, _, _)
LTrimS(cs) == IF cs # <<>> /\ Head(cs) = " " THEN LTrimS(Tail(cs)) ELSE cs
RTrimS(cs) == IF cs # <<>> /\ cs[Len(cs)] = " " THEN RTrimS(SubSeq(cs, 1, Len(cs) - 1)) ELSE cs
SubAt(cs, sub, i) == i + Len(sub) - 1 <= Len(cs) /\ SubSeq(cs, i, i + Len(sub) - 1) = sub      \* 1-based position i
FirstAt(cs, sub) == LET P == {i \in 1..(Len(cs) - Len(sub) + 1) : SubAt(cs, sub, i)} IN
                    IF P = {} THEN 0 ELSE CHOOSE i \in P : \A j \in P : i <= j
ReplaceS(cs, old, new) ==
  IF Len(cs) < Len(old) \/ cs = <<>> THEN cs
  ELSE IF SubAt(cs, old, 1) THEN new \o ReplaceS(SubSeq(cs, Len(old) + 1, Len(cs)), old, new)
  ELSE <<Head(cs)>> \o ReplaceS(Tail(cs), old, new)
Pow(b, k) == IF k = 0 THEN 1 ELSE b * Pow(b, k - 1)
PadS(c, k) == IF k <= 0 THEN <<>> ELSE <<c>> \o PadS(c, k - 1)
IsInt(a) == IsRat(a) /\ a.d = 1
Less(a, b) == a.n * b.d < b.n * a.d
Trunc(q) == IF q.n >= 0 THEN Floor(q) ELSE Ceil(q)
\* round half away from zero (math.Round; "四舍五入")
RoundR(a) == LET f == Floor(Rat(Abs(a.n) * 2 + a.d, a.d * 2)) IN Rat(IF a.n < 0 THEN -f ELSE f, 1)
ISqrt(n) == IF \E r \in 0..200 : r * r = n THEN CHOOSE r \in 0..200 : r * r = n ELSE -1
\* greatest / least of a non-empty list of numbers
FoldBest(xs, i, gt) ==
  IF i = Len(xs) THEN xs[i]
  ELSE LET rest == FoldBest(xs, i + 1, gt) IN
       IF gt THEN (IF Less(xs[i], rest) THEN rest ELSE xs[i]) ELSE (IF Less(rest, xs[i]) THEN rest ELSE xs[i])

\* built-in scalar functions modelled exactly (definable over small rationals and short strings); ErrV = outside the
\* decided domain (any outcome is accepted there).  Positions are 0-based (substring, indexof), as in the engine's source.
Call(f, xs) ==
  LET a == IF Len(xs) >= 1 THEN xs[1] ELSE NullV
      b == IF Len(xs) >= 2 THEN xs[2] ELSE NullV
      c == IF Len(xs) >= 3 THEN xs[3] ELSE NullV IN
  IF \E i \in 1..Len(xs) : Bad(xs[i]) THEN ErrV
  ELSE CASE f = "vpark"  -> a          \* the driver's user function: the identity, after yielding the processor (evaluations of concurrent callers overlap)
         [] f = "abs"    -> IF IsRat(a) THEN Rat(Abs(a.n), a.d) ELSE ErrV
         [] f = "floor"  -> IF IsRat(a) THEN Rat(Floor(a), 1) ELSE ErrV
         [] f \in {"ceil", "ceiling"} -> IF IsRat(a) THEN Rat(Ceil(a), 1) ELSE ErrV
         [] f = "round"  -> IF ~IsRat(a) THEN ErrV
                            ELSE IF Len(xs) = 1 THEN RoundR(a)
                            ELSE IF IsInt(b) /\ b.n \in 0..2 THEN LET r == RoundR(Norm(a.n * Pow(10, b.n), a.d)) IN Norm(r.n, Pow(10, b.n))
                            ELSE ErrV
         [] f = "sign"   -> IF IsRat(a) THEN Rat(IF a.n > 0 THEN 1 ELSE IF a.n < 0 THEN -1 ELSE 0, 1) ELSE ErrV
         [] f = "power"  -> IF IsRat(a) /\ (Abs(a.n) > 1000 \/ a.d > 1000) THEN ErrV
                            ELSE IF IsRat(a) /\ IsInt(b) /\ b.n \in 0..3 THEN Norm(Pow(a.n, b.n), Pow(a.d, b.n))
                            ELSE IF IsRat(a) /\ IsInt(b) /\ b.n \in (-2)..(-1) /\ a.n # 0 THEN Norm(Pow(a.d, -b.n), Pow(a.n, -b.n))
                            ELSE ErrV
         [] f = "mod"    -> IF IsRat(a) /\ IsRat(b) /\ b.n # 0
                              THEN LET q == Norm(a.n * b.d, a.d * b.n)  t == Trunc(q) IN Arith("-", a, Arith("*", b, Rat(t, 1)))
                              ELSE ErrV
         [] f = "sqrt"   -> IF IsRat(a) /\ a.n >= 0 /\ ISqrt(a.n) >= 0 /\ ISqrt(a.d) > 0 THEN Norm(ISqrt(a.n), ISqrt(a.d)) ELSE ErrV
         [] f = "greatest" -> IF xs # <<>> /\ \A i \in 1..Len(xs) : IsRat(xs[i]) THEN FoldBest(xs, 1, TRUE) ELSE ErrV
         [] f = "least"    -> IF xs # <<>> /\ \A i \in 1..Len(xs) : IsRat(xs[i]) THEN FoldBest(xs, 1, FALSE) ELSE ErrV
         [] f = "upper"  -> IF IsS(a) THEN StrR([i \in 1..Len(a.cs) |-> UpperC(a.cs[i])]) ELSE ErrV
         [] f = "lower"  -> IF IsS(a) THEN StrR([i \in 1..Len(a.cs) |-> LowerC(a.cs[i])]) ELSE ErrV
         [] f = "length" -> IF IsS(a) THEN Rat(Len(a.cs), 1) ELSE ErrV
         [] f = "concat" -> IF \A i \in 1..Len(xs) : IsS(xs[i]) THEN StrR(IF Len(xs) = 2 THEN a.cs \o b.cs ELSE IF Len(xs) = 3 THEN a.cs \o b.cs \o c.cs ELSE a.cs) ELSE ErrV
         [] f = "trim"   -> IF IsS(a) THEN StrR(LTrimS(RTrimS(a.cs))) ELSE ErrV
         [] f = "ltrim"  -> IF IsS(a) THEN StrR(LTrimS(a.cs)) ELSE ErrV
         [] f = "rtrim"  -> IF IsS(a) THEN StrR(RTrimS(a.cs)) ELSE ErrV
         [] f = "substring" -> IF IsS(a) /\ IsInt(b) /\ b.n >= 0 /\ b.n <= Len(a.cs)
                                 THEN IF Len(xs) = 2 THEN StrR(SubSeq(a.cs, b.n + 1, Len(a.cs)))
                                      ELSE IF IsInt(c) /\ c.n >= 0 /\ b.n + c.n <= Len(a.cs) THEN StrR(SubSeq(a.cs, b.n + 1, b.n + c.n))
                                      ELSE ErrV
                                 ELSE ErrV
         [] f = "startswith" -> IF IsS(a) /\ IsS(b) THEN BoolR(SubAt(a.cs, b.cs, 1)) ELSE ErrV
         [] f = "endswith"   -> IF IsS(a) /\ IsS(b) THEN BoolR(Len(b.cs) <= Len(a.cs) /\ SubAt(a.cs, b.cs, Len(a.cs) - Len(b.cs) + 1)) ELSE ErrV
         [] f = "indexof"    -> IF IsS(a) /\ IsS(b) /\ b.cs # <<>> THEN Rat(FirstAt(a.cs, b.cs) - 1, 1) ELSE ErrV
         [] f = "replace"    -> IF IsS(a) /\ IsS(b) /\ IsS(c) /\ b.cs # <<>> THEN StrR(ReplaceS(a.cs, b.cs, c.cs)) ELSE ErrV
         [] f = "lpad"   -> IF IsS(a) /\ IsInt(b) /\ IsS(c) /\ Len(c.cs) = 1 /\ b.n >= Len(a.cs) THEN StrR(PadS(c.cs[1], b.n - Len(a.cs)) \o a.cs) ELSE ErrV
         [] f = "rpad"   -> IF IsS(a) /\ IsInt(b) /\ IsS(c) /\ Len(c.cs) = 1 /\ b.n >= Len(a.cs) THEN StrR(a.cs \o PadS(c.cs[1], b.n - Len(a.cs))) ELSE ErrV
         [] f = "coalesce" -> IF a.k # "null" THEN a ELSE IF Len(xs) >= 3 /\ b.k = "null" THEN c ELSE b
         [] f = "if_null"  -> IF a.k # "null" THEN a ELSE b
         [] f = "null_if"  -> IF a.k = "null" THEN NullV
                              ELSE IF b.k = "null" THEN a
                              ELSE LET e == Compare("=", a, b) IN IF Bad(e) THEN ErrV ELSE IF IsTrue(e) THEN NullV ELSE a
         [] f = "is_null"     -> BoolR(a.k = "null")
         [] f = "is_not_null" -> BoolR(a.k # "null")
         [] f = "is_numeric"  -> IF a.k = "opaque" THEN ErrV ELSE BoolR(IsRat(a))
         [] f = "is_string"   -> IF a.k = "opaque" THEN ErrV ELSE BoolR(IsS(a))
         [] f = "is_bool"     -> IF a.k = "opaque" THEN ErrV ELSE BoolR(IsB(a))
         [] OTHER -> ErrV

RECURSIVE Eval(_, _), CaseEval(_, _, _, _), SCaseEval(_, _, _, _, _)
Eval(e, row) ==
  CASE e.t = "col"  -> FromSV(Col(row, e.c))
    [] e.t = "path" -> FromSV(ColPath(row, e.p))
    [] e.t = "path2" -> FromSV(ColPath2(row, e.c, e.parts))      \* general nested access (lib/FieldPath): .name ['key'] [i] [-i]
    [] e.t = "num"  -> Norm(e.n, e.d)
    [] e.t = "str"  -> StrR(e.cs)
    [] e.t = "par"  -> Eval(e.a, row)
    [] e.t = "neg"  -> Arith("-", Rat(0, 1), Eval(e.a, row))
    [] e.t = "bin"  -> Arith(e.op, Eval(e.a, row), Eval(e.b, row))
    [] e.t = "cmp"  -> Compare(e.op, Eval(e.a, row), Eval(e.b, row))
    [] e.t = "and"  -> LET x == Eval(e.a, row)  y == Eval(e.b, row) IN
                       IF x.k = "err" \/ y.k = "err" THEN ErrV
                       ELSE IF x.k = "fail" THEN FailV ELSE IF ~IsTrue(x) THEN BoolR(FALSE)
                       ELSE IF y.k = "fail" THEN FailV ELSE BoolR(IsTrue(y))
    [] e.t = "or"   -> LET x == Eval(e.a, row)  y == Eval(e.b, row) IN
                       IF x.k = "err" \/ y.k = "err" THEN ErrV
                       ELSE IF x.k = "fail" THEN FailV ELSE IF IsTrue(x) THEN BoolR(TRUE)
                       ELSE IF y.k = "fail" THEN FailV ELSE BoolR(IsTrue(y))
    [] e.t = "not"  -> LET x == Eval(e.a, row) IN IF Bad(x) THEN x ELSE BoolR(~IsTrue(x))
    [] e.t = "isnull" -> LET x == Eval(e.a, row) IN IF Bad(x) THEN ErrV ELSE BoolR((x.k = "null") # e.neg)
    [] e.t = "like" -> LET x == Eval(e.a, row) IN
                       IF x.k = "null" THEN NullV
                       ELSE IF ~IsS(x) THEN ErrV
                       ELSE BoolR(LikeMatch(x.cs, e.pat) # e.neg)
    [] e.t = "case" -> CaseEval(e.whens, e, row, 1)
    [] e.t = "scase" -> SCaseEval(Eval(e.a, row), e.whens, e, row, 1)
    [] e.t = "fn"   -> Call(e.f, [i \in 1..Len(e.args) |-> Eval(e.args[i], row)])

\* first branch whose condition is true, else ELSE, else NULL
CaseEval(ws, e, row, i) ==
  IF i > Len(ws) THEN (IF "else" \in DOMAIN e THEN Eval(e.else, row) ELSE NullV)
  ELSE LET c == Eval(ws[i].c, row) IN
       IF Bad(c) THEN ErrV
       ELSE IF IsTrue(c) THEN Eval(ws[i].r, row) ELSE CaseEval(ws, e, row, i + 1)
SCaseEval(x, ws, e, row, i) ==
  IF i > Len(ws) THEN (IF "else" \in DOMAIN e THEN Eval(e.else, row) ELSE NullV)
  ELSE LET c == Compare("=", x, Eval(ws[i].c, row)) IN
       IF Bad(c) THEN ErrV
       ELSE IF IsTrue(c) THEN Eval(ws[i].r, row) ELSE SCaseEval(x, ws, e, row, i + 1)

\* does engine value v (SV) equal reference value x?  booleans of comparisons may surface as bool
Matches(v, x) ==
  CASE x.k = "null" -> v.k = "null"
    [] x.k = "rat"  -> v.k = "num" /\ Within(v.v * x.d, x.n * Scale, Abs(x.d))
    [] x.k = "str"  -> v.k = "str" /\ v.cs = x.cs
    [] x.k = "bool" -> v.k = "bool" /\ v.v = x.v
    [] x.k = "opaque" -> Same(v, x.v)
    [] OTHER -> FALSE
=============================================================================
