--------------------------------- MODULE SV ---------------------------------
(***************************************************************************)
(* Abstract SQL values as they appear in traces: records [k, v] with        *)
(* k \in {"null","bool","str","num","big","nan","inf","list","map","time",  *)
(* "other"}.  Numbers are fixed point: v = round(x * 10^4) (field t = "i"    *)
(* or "f" tells the Go kind).  A column that is absent from a row is         *)
(* "missing"; NULL and missing are both NULL for SQL purposes.               *)
(***************************************************************************)
EXTENDS Integers, Sequences, FiniteSets, TLC

Scale == 10000
Null == [k |-> "null"]
IsNull(x) == x.k = "null"
IsNum(x) == x.k = "num"
IsStr(x) == x.k = "str"
NumV(n) == [k |-> "num", v |-> n]            \* n already scaled
StrV(s) == [k |-> "str", v |-> s]
BoolV(b) == [k |-> "bool", v |-> b]

Has(row, c) == c \in DOMAIN row
\* value of column c in row, NULL when absent
Col(row, c) == IF Has(row, c) THEN row[c] ELSE Null
\* nested path <<"o","v">>
RECURSIVE Path(_, _)
Path(x, p) ==
  IF p = <<>> THEN x
  ELSE IF x.k = "map" /\ Head(p) \in DOMAIN x.v THEN Path(x.v[Head(p)], Tail(p))
  ELSE Null
ColPath(row, p) == IF Has(row, Head(p)) THEN Path(row[Head(p)], Tail(p)) ELSE Null

\* equality of values for comparison with engine output: numbers compare by value (tolerance tol units), kinds otherwise exact
SameNum(a, b, tol) == a.k = "num" /\ b.k = "num" /\ a.v - b.v <= tol /\ b.v - a.v <= tol
RECURSIVE Same(_, _)
Same(a, b) ==
  IF a.k = "num" \/ b.k = "num" THEN SameNum(a, b, 1)
  ELSE IF a.k # b.k THEN FALSE
  ELSE IF a.k = "null" \/ a.k = "nan" THEN TRUE
  ELSE IF a.k = "list" THEN Len(a.v) = Len(b.v) /\ \A i \in 1..Len(a.v) : Same(a.v[i], b.v[i])
  ELSE IF a.k = "map" THEN DOMAIN a.v = DOMAIN b.v /\ \A f \in DOMAIN a.v : Same(a.v[f], b.v[f])
  ELSE a.v = b.v

\* grouping identity: NULL and missing collapse; numbers by value; everything else exact
KeyOf(x) == IF x.k = "num" THEN <<"num", x.v>> ELSE IF x.k = "null" THEN <<"null">> ELSE <<x.k, x.v>>

Abs(n) == IF n < 0 THEN -n ELSE n
Within(a, b, tol) == Abs(a - b) <= tol
=============================================================================
