------------------------------ MODULE Session ------------------------------
(***************************************************************************)
(* Event-time session window of rulego/streamsql, code-shaped              *)
(* (window/session_window.go): one live session per key in sessionMap,     *)
(* Add extends it WITHOUT a gap test, the trigger goroutine expires         *)
(* sessions whose end the received watermark has passed, collects them      *)
(* under the lock and sends them after releasing it.                        *)
(* Composed with the C10/C02 contract monitor as invariants.  The two known *)
(* deviations (KNOWN_FINDINGS.json) are switchable constants so that TLC    *)
(* shows both: the strict contract fails, the contract minus exactly those  *)
(* deviations holds.                                                        *)
(***************************************************************************)
EXTENDS Integers, Sequences, FiniteSets, TLC, Json

CONSTANTS T,         \* session timeout
          MOO, AL, MaxTs, MaxEv, Keys, ChanCap, LateAnyKey, KeepOlder, OnlyLate,
          DevMerge,  \* admit "SessionMergeAcrossGap"
          DevStart,  \* admit "SessionStartFirstArrival"
          Emit

VARIABLES sess,     \* key -> [rows, last, start, end] | Nil       (sessionMap)
          open,     \* seq of [key, rows, start, end]               (triggeredSessions, AL > 0)
          maxTs, wmCur, wmSent, wmChan,
          tpc, twm, pend,   \* trigger goroutine; pend = batches collected and not yet sent
          out,      \* delivered batches [key, start, end, ids, kind, maxAt]
          emitted,  \* [id, ts, key, late]
          hist
VARIABLE lq        \* Add is inside handleLateData: the late re-delivery computed and not yet sent (sw.mu is released while it is sent)
vars == <<sess, open, maxTs, wmCur, wmSent, wmChan, tpc, twm, pend, out, emitted, hist, lq>>

Nil == [rows |-> <<>>, last |-> -1, start |-> -1, end |-> -1]
NoWm == -1000
Ids(rows) == [i \in 1..Len(rows) |-> rows[i].id]
SeqSet(s) == {s[i] : i \in 1..Len(s)}

Init ==
  /\ sess = [k \in Keys |-> Nil] /\ open = <<>>
  /\ maxTs = -1 /\ wmCur = NoWm /\ wmSent = NoWm /\ wmChan = <<>>
  /\ tpc = "idle" /\ twm = NoWm /\ pend = <<>>
  /\ out = <<>> /\ emitted = <<>> /\ hist = <<>> /\ lq = <<>>

NewMax(ts) == IF maxTs = -1 \/ ts > maxTs THEN ts ELSE maxTs
NewWm(ts)  == IF (maxTs = -1 \/ ts > maxTs) /\ ts - MOO > wmCur THEN ts - MOO ELSE wmCur

Add(k, ts) ==
  /\ Len(emitted) < MaxEv
  /\ tpc \in {"idle", "fired"}
  /\ lq = <<>>                             \* one producer: the previous Add has returned
  /\ LET id   == Len(emitted) + 1
         row  == [id |-> id, ts |-> ts]
         wm1  == NewWm(ts)
         send == wm1 > wmSent /\ Len(wmChan) < ChanCap
         late == ts < wm1
         s    == sess[k]
         \* handleLateData: the triggered session of the row's own key (LateAnyKey = TRUE: the code before the repair took any key's)
         oi   == {i \in 1..Len(open) : open[i].start <= ts /\ ts < open[i].end /\ (LateAnyKey \/ open[i].key = k)}
     IN
     /\ maxTs' = NewMax(ts) /\ wmCur' = wm1
     /\ wmSent' = IF send THEN wm1 ELSE wmSent
     /\ wmChan' = IF send THEN Append(wmChan, wm1) ELSE wmChan
     /\ emitted' = Append(emitted, [id |-> id, ts |-> ts, key |-> k, late |-> late, wmAt |-> wm1])
     /\ hist' = Append(hist, [a |-> "add", id |-> id, ts |-> ts, g |-> k])
     /\ IF late
          THEN IF AL > 0 /\ oi # {}
                 THEN \E i \in oi :
                        LET rows == Append(open[i].rows, row) IN
                        /\ open' = [open EXCEPT ![i].rows = rows]
                        \* the re-delivery is sent with sw.mu released (LateSend); the trigger goroutine may run before it
                        /\ out' = out
                        /\ lq' = <<[key |-> open[i].key, start |-> open[i].start, end |-> open[i].end,
                                    ids |-> Ids(rows), kind |-> "late", maxAt |-> NewMax(ts), n |-> id]>>
                        /\ sess' = sess
                 ELSE UNCHANGED <<sess, open, out, lq>>
          ELSE /\ sess' = [sess EXCEPT ![k] =
                    IF s = Nil THEN [rows |-> <<row>>, last |-> ts, start |-> ts, end |-> ts + T]
                    ELSE [rows |-> Append(s.rows, row),
                          last |-> IF ts > s.last THEN ts ELSE s.last,
                          start |-> s.start,
                          end |-> IF ts > s.last /\ ts + T > s.end THEN ts + T ELSE s.end]]
               /\ UNCHANGED <<open, out, lq>>
  /\ UNCHANGED <<tpc, twm, pend>>

\* handleLateData, second half: callback + send with sw.mu released, then the lock is taken again and Add returns
LateSend ==
  /\ lq # <<>>
  /\ out' = Append(out, Head(lq)) /\ lq' = Tail(lq)
  /\ hist' = Append(hist, [a |-> "latesend"])
  /\ UNCHANGED <<sess, open, maxTs, wmCur, wmSent, wmChan, tpc, twm, pend, emitted>>

\* checkAndTriggerSessions: collect under the lock, then (lock released) send
Trig ==
  /\ tpc = "idle" /\ wmChan # <<>> /\ emitted # <<>>
  /\ LET wm  == Head(wmChan)
         exp == {k \in Keys : sess[k] # Nil /\ wm >= sess[k].end}
         ord == CHOOSE sq \in [1..Cardinality(exp) -> exp] : \A i, j \in 1..Cardinality(exp) : i # j => sq[i] # sq[j]
         bat == [i \in 1..Cardinality(exp) |-> [key |-> ord[i], rows |-> sess[ord[i]].rows, start |-> sess[ord[i]].start, end |-> sess[ord[i]].end]]
         \* fired sessions stay open for late events until watermark >= end + AL; KeepOlder = FALSE: the code before the
         \* repair kept only the most recently fired session of a key
         op1 == IF AL > 0 THEN (IF KeepOlder THEN open ELSE SelectSeq(open, LAMBDA o : o.key \notin exp)) \o bat ELSE open
     IN
     /\ wmChan' = Tail(wmChan) /\ twm' = wm
     /\ sess' = [k \in Keys |-> IF k \in exp THEN Nil ELSE sess[k]]
     /\ open' = SelectSeq(op1, LAMBDA o : o.end + AL > wm)         \* closeExpiredSessions
     /\ pend' = bat /\ tpc' = "fired"
     /\ hist' = Append(hist, [a |-> "trig"])
  /\ UNCHANGED <<maxTs, wmCur, wmSent, out, emitted, lq>>

Send ==
  /\ tpc = "fired"
  /\ out' = out \o [i \in 1..Len(pend) |-> [key |-> pend[i].key, start |-> pend[i].start, end |-> pend[i].end,
                                             ids |-> Ids(pend[i].rows), kind |-> "first", maxAt |-> maxTs, n |-> Len(emitted)]]
  /\ pend' = <<>> /\ tpc' = "idle"
  /\ hist' = Append(hist, [a |-> "send"])
  /\ UNCHANGED <<sess, open, maxTs, wmCur, wmSent, wmChan, twm, emitted, lq>>

\* Watermark.update (ticker, every WatermarkInterval): re-send a watermark that did not fit into the full channel.
\* It takes only the watermark's own lock, so it may interleave anywhere.
Tick ==
  /\ wmCur > wmSent /\ Len(wmChan) < ChanCap
  /\ wmChan' = Append(wmChan, wmCur) /\ wmSent' = wmCur
  /\ hist' = Append(hist, [a |-> "tick"])
  /\ UNCHANGED <<sess, open, maxTs, wmCur, tpc, twm, pend, out, emitted, lq>>

Quiet == tpc = "idle" /\ wmChan = <<>> /\ wmSent = wmCur /\ lq = <<>>
Complete == Len(emitted) = MaxEv /\ Quiet
Next == (\E k \in Keys, ts \in 0..MaxTs : Add(k, ts)) \/ LateSend \/ Trig \/ Send \/ Tick
Spec == Init /\ [][Next]_vars

(* ======================= contract monitor (Abs, C10) ===================== *)
Ts(id) == emitted[id].ts
OnT(ids) == {id \in SeqSet(ids) : ~emitted[id].late}
MinTs(S) == CHOOSE t \in {Ts(id) : id \in S} : \A id \in S : t <= Ts(id)
MaxTsOf(S) == CHOOSE t \in {Ts(id) : id \in S} : \A id \in S : t >= Ts(id)
MinId(S) == CHOOSE i \in S : \A j \in S : i <= j
\* consecutive on-time timestamps inside a result differ by at most the timeout
GapsOK(S) == \A a \in S : Ts(a) = MinTs(S) \/ \E b \in S : Ts(b) < Ts(a) /\ Ts(a) - Ts(b) <= T /\ ~\E c \in S : Ts(b) < Ts(c) /\ Ts(c) < Ts(a)

BatchOK(i) ==
  LET b == out[i]  S == OnT(b.ids) IN
  /\ Len(b.ids) > 0
  /\ \A k, l \in 1..Len(b.ids) : k # l => b.ids[k] # b.ids[l]
  /\ b.maxAt >= b.end + MOO                                        \* delivered only after the watermark passed the end
  /\ \A id \in SeqSet(b.ids) : emitted[id].key = b.key             \* first firing or late update: only the key's own events
  /\ (b.kind = "first" =>
        /\ \A id \in SeqSet(b.ids) : emitted[id].key = b.key /\ ~emitted[id].late
        /\ b.end = MaxTsOf(S) + T
        /\ (b.start = MinTs(S) \/ (DevStart /\ b.start = Ts(MinId(S))))
        /\ (GapsOK(S) \/ DevMerge)
        /\ \A j \in 1..(i-1) : out[j].kind = "first" => SeqSet(out[j].ids) \cap SeqSet(b.ids) = {})   \* each event once
DeliveriesOK == \A i \in 1..Len(out) : BatchOK(i)

\* at quiescence every on-time event of a key whose last session end the watermark passed has been delivered
LastTs(k) == LET S == {id \in 1..Len(emitted) : emitted[id].key = k /\ ~emitted[id].late} IN IF S = {} THEN -1 ELSE MaxTsOf(S)
NoLoss == Quiet => \A id \in 1..Len(emitted) :
             (~emitted[id].late /\ LastTs(emitted[id].key) + T <= wmCur) => \E i \in 1..Len(out) : id \in SeqSet(out[i].ids)
\* two on-time events of a key closer than the timeout are never split
NoSplit == \A i, j \in 1..Len(out) : (i # j /\ out[i].kind = "first" /\ out[j].kind = "first" /\ out[i].key = out[j].key) =>
              \A a \in OnT(out[i].ids), b \in OnT(out[j].ids) : Ts(a) - Ts(b) >= T \/ Ts(b) - Ts(a) >= T

\* C02 for sessions: a late event inside a fired session of its key that is still within the allowance is re-delivered with it
LateOwedOK == \A i \in 1..Len(out) : out[i].kind = "late" =>
                 \E j \in 1..(i-1) : out[j].key = out[i].key /\ out[j].start = out[i].start /\ SeqSet(out[j].ids) \subseteq SeqSet(out[i].ids)
NoLateDrop == lq = <<>> => \A id \in 1..Len(emitted) :
                 (emitted[id].late /\ \E i \in 1..Len(out) : /\ out[i].kind = "first" /\ out[i].key = emitted[id].key
                                                              /\ out[i].start <= emitted[id].ts /\ emitted[id].ts < out[i].end
                                                              /\ out[i].end + AL > emitted[id].wmAt /\ out[i].n < id)      \* delivered before the event was emitted
                 => \E j \in 1..Len(out) : id \in SeqSet(out[j].ids)
WmOK == /\ wmSent <= wmCur /\ (maxTs # -1 => wmCur = maxTs - MOO)
        /\ \A i \in 1..Len(wmChan) : i > 1 => wmChan[i-1] < wmChan[i]
\* OnlyLate: print only behaviours in which a late event was absorbed by an OLDER fired session of its key (two fired sessions
\* of one key inside the allowance) - the rare shape among all behaviours
OlderAbsorb == \E i \in 1..Len(out) : /\ out[i].kind = "late"
                                       /\ \E j \in 1..Len(out) : out[j].kind = "first" /\ out[j].key = out[i].key /\ out[j].start > out[i].start /\ out[j].n < out[i].n
EmitScenario == (Emit /\ Complete /\ (OnlyLate => OlderAbsorb)) => PrintT(<<"SCEN", ToJson(hist)>>)
View == <<sess, open, maxTs, wmCur, wmSent, wmChan, tpc, twm, pend, out, emitted, lq>>
=============================================================================
