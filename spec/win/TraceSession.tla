---------------------------- MODULE TraceSession ----------------------------
(***************************************************************************)
(* Contract monitor (Abs) for event-time session windows (C10, C02 clauses) *)
(* evaluated by TLC on traces recorded from the real engine.  Total: a      *)
(* rejected trace is reported and skipped.  Dev = enabled known deviations. *)
(***************************************************************************)
EXTENDS Integers, Sequences, FiniteSets, TLC, Json, IOUtils

CONSTANT Dev
Trace == ndJsonDeserialize(IOEnv.TRACE_FILE)

VARIABLES l, cfg, em, maxTs, dl, dead, used,
          ldt,    \* IDLETIMEOUT scenarios: wall-clock time (µs) at which the last row KNOWN to have reached the window was handed in
          idled,  \* an idle-justified delivery was seen: the engine's watermark now runs on processing time
          mts,    \* trace positions of manual flushes (TriggerWindow): what is open is delivered at once, the key's next event starts afresh
          flush   \* a manual flush is being delivered (no row handed in since)
vars == <<l, cfg, em, maxTs, dl, dead, used, ldt, idled, mts, flush>>
Idle == IF "idle" \in DOMAIN cfg THEN cfg.idle ELSE 0
IdleJustified(r) == Idle > 0 /\ ldt >= 0 /\ "t" \in DOMAIN r /\ r.t - ldt >= Idle

T == cfg.size
SeqSet(s) == {s[i] : i \in 1..Len(s)}
RECURSIVE SumV(_)
SumV(ids) == IF ids = <<>> THEN 0 ELSE em[Head(ids)].v + SumV(Tail(ids))
Distinct(s) == \A i, j \in 1..Len(s) : i # j => s[i] # s[j]
Ts(id) == em[id].ts
OnT(ids) == {id \in SeqSet(ids) : ~em[id].late}
MinTs(S) == CHOOSE t \in {Ts(id) : id \in S} : \A id \in S : t <= Ts(id)
MaxTsOf(S) == CHOOSE t \in {Ts(id) : id \in S} : \A id \in S : t >= Ts(id)
MinId(S) == CHOOSE i \in S : \A j \in S : i <= j
GapsOK(S) == \A a \in S : Ts(a) = MinTs(S) \/ \E b \in S : Ts(b) < Ts(a) /\ Ts(a) - Ts(b) <= T /\ ~\E c \in S : Ts(b) < Ts(c) /\ Ts(c) < Ts(a)

PrevOf(r) == {i \in 1..Len(dl) : dl[i].g = r.g /\ dl[i].ws = r.ws /\ SeqSet(dl[i].ids) \cap SeqSet(r.ids) # {}}

\* returns <<code, deviation>>: code "" = acceptable (possibly through the named deviation)
RowCode(r) ==
  IF r.wsr # 0 \/ r.wer # 0 THEN <<"boundary_not_on_tick", "">>
  ELSE IF r.wid # 1 THEN <<"window_id_mismatch", "">>
  ELSE IF Len(r.ids) = 0 THEN <<"empty_result", "">>
  ELSE IF ~Distinct(r.ids) THEN <<"row_counted_twice_in_result", "">>
  ELSE IF \E k \in 1..Len(r.ids) : r.ids[k] < 1 \/ r.ids[k] > Len(em) THEN <<"unknown_row", "">>
  ELSE IF r.c # Len(r.ids) THEN <<"count_mismatch", "">>
  ELSE IF r.s # SumV(r.ids) THEN <<"sum_mismatch", "">>
  ELSE IF idled THEN <<"", "">>        \* after an idle flush the watermark is the wall clock: the trace no longer knows which events are late
  ELSE IF maxTs < r.we + cfg.moo /\ ~IdleJustified(r) /\ ~flush THEN <<"delivered_before_watermark_passed_end", "">>
  ELSE IF maxTs < r.we + cfg.moo /\ ~flush THEN <<"", "">>       \* idle flush: the session is cut where the source fell idle
  ELSE IF \E id \in SeqSet(r.ids) : em[id].fut = 1 THEN <<"future_garbage_counted", "">>
  ELSE IF \E id \in SeqSet(r.ids) : em[id].g # r.g THEN <<"row_in_wrong_key", "">>     \* on time or late: only the key's own events
  \* an event that was late on arrival is reported, if at all, inside the interval of the session that reports it
  ELSE IF \E id \in SeqSet(r.ids) : em[id].late /\ ~(r.ws <= em[id].ts /\ em[id].ts < r.we) THEN <<"late_event_outside_session_interval", "">>
  ELSE LET S == OnT(r.ids)  prev == PrevOf(r) IN
       IF S = {} THEN <<"", "">>                                   \* only late rows: outside C10's guarantee
       ELSE IF prev # {} THEN
            IF cfg.al = 0 THEN <<"event_reported_twice", "">>
            ELSE LET last == dl[CHOOSE i \in prev : \A j \in prev : j <= i] IN
                 \* C10 is about the accepted (on-time) events: a re-delivery of the session must report the same ones.
                 \* Which LATE rows it carries, and in which order late updates and first firing arrive, is C02's subject
                 \* (decided there for tumbling windows; the ordering race is the recorded finding LateUpdateOvertakes).
                 IF OnT(last.ids) # S THEN <<"redelivery_changed_ontime_rows", "">>
                 ELSE <<"", "">>
       ELSE IF \E i \in 1..Len(dl) : SeqSet(dl[i].ids) \cap S # {} THEN <<"event_reported_twice", "">>
       ELSE IF r.we < MaxTsOf(S) + T \/ (OnT(r.ids) = SeqSet(r.ids) /\ r.we # MaxTsOf(S) + T) THEN <<"window_end_not_latest_plus_timeout", "">>
       ELSE IF r.ws # MinTs(S) /\ ~("SessionStartFirstArrival" \in Dev /\ r.ws = Ts(MinId(S))) THEN <<"window_start_not_earliest", "">>
       ELSE IF ~GapsOK(S) /\ "SessionMergeAcrossGap" \notin Dev THEN <<"gap_above_timeout_inside_session", "">>
       ELSE <<"", IF ~GapsOK(S) THEN "SessionMergeAcrossGap" ELSE IF r.ws # MinTs(S) THEN "SessionStartFirstArrival" ELSE "">>

RECURSIVE RowsCode(_, _, _)
RowsCode(rows, k, dv) ==
  IF k > Len(rows) THEN <<"", dv>>
  ELSE LET c == RowCode(rows[k]) IN
       IF c[1] # "" THEN c ELSE RowsCode(rows, k + 1, IF c[2] # "" THEN dv \cup {c[2]} ELSE dv)

DeliverCode(e) ==
  IF Len(e.rows) = 0 THEN <<"empty_delivery", {}>>
  ELSE IF \E i, j \in 1..Len(e.rows) : i # j /\ e.rows[i].g = e.rows[j].g THEN <<"group_split_in_batch", {}>>
  ELSE RowsCode(e.rows, 1, {})

\* ------------------------------------------------------------- quiescence --
KeyOnT(g) == {id \in 1..Len(em) : em[id].g = g /\ ~em[id].late /\ em[id].fut = 0}
FinalWm == maxTs - cfg.moo
WasDelivered(id) == \E i \in 1..Len(dl) : id \in SeqSet(dl[i].ids)
DelIdx(id) == CHOOSE i \in 1..Len(dl) : id \in SeqSet(dl[i].ids) /\ \A j \in 1..Len(dl) : id \in SeqSet(dl[j].ids) => i <= j
\* end of the last session of the key: once the watermark passed it every session of the key is due
Due(id) == MaxTsOf(KeyOnT(em[id].g)) + T <= FinalWm
QuiesceCode ==
  IF idled THEN ""
  ELSE IF \E id \in 1..Len(em) : ~em[id].late /\ em[id].fut = 0 /\ Due(id) /\ ~WasDelivered(id) THEN "accepted_event_never_reported"
  ELSE IF \E a, b \in 1..Len(em) : /\ a # b /\ em[a].g = em[b].g /\ ~em[a].late /\ ~em[b].late /\ em[a].fut = 0 /\ em[b].fut = 0
                                   /\ Ts(a) <= Ts(b) /\ Ts(b) - Ts(a) < T
                                   /\ ~(\E m \in mts : (em[a].at < m /\ m < em[b].at) \/ (em[b].at < m /\ m < em[a].at))      \* not cut apart by a manual flush
                                   /\ WasDelivered(a) /\ WasDelivered(b) /\ DelIdx(a) # DelIdx(b) THEN "events_closer_than_timeout_split"
  ELSE ""

Reject(code) == /\ PrintT(<<"REJECT", cfg.tr, l, code>>) /\ dead' = TRUE
NoteDev(ds)  == \A d \in ds : PrintT(<<"DEV", cfg.tr, l, d>>)

Init == /\ l = 1 /\ cfg = [tr |-> -1] /\ em = <<>> /\ maxTs = -1 /\ dl = <<>> /\ dead = FALSE /\ used = {} /\ ldt = -1 /\ idled = FALSE /\ mts = {} /\ flush = FALSE

Next ==
  /\ l <= Len(Trace)
  /\ l' = l + 1
  /\ LET e == Trace[l] IN
     IF e.e = "reset" THEN
        /\ cfg' = e /\ em' = <<>> /\ maxTs' = -1 /\ dl' = <<>> /\ dead' = FALSE /\ used' = {} /\ ldt' = -1 /\ idled' = FALSE /\ mts' = {} /\ flush' = FALSE
     ELSE IF dead THEN UNCHANGED <<cfg, em, maxTs, dl, dead, used, ldt, idled, mts, flush>>
     ELSE IF e.e = "mtrig" THEN
        /\ mts' = mts \cup {l} /\ flush' = TRUE
        /\ UNCHANGED <<cfg, em, maxTs, dl, dead, used, ldt, idled>>
     ELSE IF e.e = "added" THEN
        /\ ldt' = IF e.id >= 1 /\ e.id <= Len(em) THEN em[e.id].t ELSE ldt
        /\ UNCHANGED <<cfg, em, maxTs, dl, dead, used, idled, mts, flush>>
     ELSE IF e.e = "add" THEN
        LET fut  == IF "fut" \in DOMAIN e THEN e.fut ELSE 0
            m1   == IF fut = 1 THEN maxTs ELSE IF e.ts > maxTs THEN e.ts ELSE maxTs
            late == fut = 0 /\ maxTs >= 0 /\ e.ts < m1 - cfg.moo
        IN /\ em' = Append(em, [ts |-> e.ts, g |-> e.g, v |-> e.v, late |-> late, at |-> l, fut |-> fut, t |-> IF "t" \in DOMAIN e THEN e.t ELSE 0])
           /\ maxTs' = m1
           /\ IF e.id # Len(em) + 1 THEN Reject("harness_ids_not_sequential") ELSE UNCHANGED dead
           /\ flush' = FALSE
           /\ UNCHANGED <<cfg, dl, used, ldt, idled, mts>>
     ELSE IF e.e = "deliver" THEN
        LET c == DeliverCode(e) IN
        IF c[1] = "" THEN
            /\ dl' = dl \o [i \in 1..Len(e.rows) |-> [ws |-> e.rows[i].ws, we |-> e.rows[i].we, g |-> e.rows[i].g, ids |-> e.rows[i].ids, at |-> l]]
            /\ NoteDev(c[2]) /\ used' = used \cup c[2]
            /\ idled' = (idled \/ (~flush /\ \E i \in 1..Len(e.rows) : maxTs < e.rows[i].we + cfg.moo))
            /\ UNCHANGED <<cfg, em, maxTs, dead, ldt, mts, flush>>
        ELSE Reject(c[1]) /\ UNCHANGED <<cfg, em, maxTs, dl, used, ldt, idled, mts, flush>>
     ELSE IF e.e = "quiesce" THEN
        LET code == QuiesceCode IN
        /\ IF code = "" THEN UNCHANGED dead ELSE Reject(code)
        /\ UNCHANGED <<cfg, em, maxTs, dl, used, ldt, idled, mts, flush>>
     ELSE UNCHANGED <<cfg, em, maxTs, dl, dead, used, ldt, idled, mts, flush>>

Spec == Init /\ [][Next]_vars
AllConsumed == TLCGet("stats").diameter - 1 = Len(Trace)
=============================================================================
