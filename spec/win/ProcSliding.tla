---------------------------- MODULE ProcSliding ----------------------------
(***************************************************************************)
(* Processing-time SLIDING window (the default time characteristic),        *)
(* code-shaped after window/sliding_window.go:                              *)
(*   Add   : ts := time.Now(); first row: currentSlot := [align(ts, slide), *)
(*           + size), first trigger due one window size after that row      *)
(*   Adv   : the clock advances; the first trigger (time.After) and then    *)
(*           the ticker (period = slide) put a tick into a one-slot channel *)
(*           - a tick that finds the slot taken is DROPPED (Go ticker)      *)
(*   Fire  : Trigger(): report the rows of currentSlot, keep the rows at or *)
(*           after the next start, currentSlot := next   (under sw.mu)      *)
(* AdvanceWhenEmpty = FALSE is the code before repair: Trigger returned     *)
(* before moving the cursor when the window held no row, so the cursor      *)
(* stood still through an idle period and lagged behind the clock by that   *)
(* period ever after (Timely fails).                                        *)
(* Contract (processing-time counterpart of C08): a row is reported in      *)
(* every slide-aligned interval, from the first slot on, that contains its  *)
(* arrival time, and in no other; the cursor never passes an interval       *)
(* without reporting its rows; while no tick was dropped the cursor is      *)
(* within size + slide of the clock.                                        *)
(***************************************************************************)
EXTENDS Integers, Sequences, FiniteSets, TLC, Json

CONSTANTS Size, Slide, MaxNow, MaxEv, Emit, AdvanceWhenEmpty

VARIABLES now, init, slot, s0, due, pend, dropped, data, out, nadd, hist
vars == <<now, init, slot, s0, due, pend, dropped, data, out, nadd, hist>>

SeqSet(s) == {s[i] : i \in 1..Len(s)}
Ids(rows) == [i \in 1..Len(rows) |-> rows[i].id]

Init == /\ now = 0 /\ init = FALSE /\ slot = -1 /\ s0 = -1 /\ due = -1 /\ pend = 0 /\ dropped = 0
        /\ data = <<>> /\ out = <<>> /\ nadd = 0 /\ hist = <<>>

Add ==
  /\ nadd < MaxEv
  /\ nadd' = nadd + 1
  /\ data' = Append(data, [id |-> nadd + 1, ts |-> now])
  /\ IF init THEN UNCHANGED <<init, slot, s0, due>>
     ELSE /\ init' = TRUE /\ slot' = (now \div Slide) * Slide /\ s0' = (now \div Slide) * Slide /\ due' = now + Size
  /\ hist' = Append(hist, [a |-> "add", id |-> nadd + 1])
  /\ UNCHANGED <<now, pend, dropped, out>>

Adv ==
  /\ now < MaxNow
  /\ now' = now + 1
  /\ IF init /\ now + 1 >= due
       THEN /\ due' = due + Slide
            /\ IF pend = 1 THEN dropped' = dropped + 1 /\ UNCHANGED pend ELSE pend' = 1 /\ UNCHANGED dropped
       ELSE UNCHANGED <<due, pend, dropped>>
  /\ hist' = Append(hist, [a |-> "adv", id |-> 0])
  /\ UNCHANGED <<init, slot, s0, data, out, nadd>>

Fire ==
  /\ pend = 1
  /\ pend' = 0
  /\ IF data = <<>> /\ ~AdvanceWhenEmpty THEN UNCHANGED <<slot, data, out>>
     ELSE LET next == slot + Slide
              res  == SelectSeq(data, LAMBDA r : slot <= r.ts /\ r.ts < slot + Size)
          IN /\ data' = SelectSeq(data, LAMBDA r : r.ts >= next)
             /\ out' = IF res = <<>> THEN out ELSE Append(out, [ws |-> slot, ids |-> Ids(res)])
             /\ slot' = next
  /\ hist' = Append(hist, [a |-> "fire", id |-> 0])
  /\ UNCHANGED <<now, init, s0, due, dropped, nadd>>

Next == Add \/ Adv \/ Fire
Spec == Init /\ [][Next]_vars

\* ----------------------------------------------------------------- contract
\* arrival time of a row, re-derived from the history (number of clock steps before its Add)
Rows == [id \in 1..nadd |-> CHOOSE t \in 0..MaxNow : \E k \in 1..Len(hist) : hist[k].a = "add" /\ hist[k].id = id
                                                     /\ t = Cardinality({j \in 1..k : hist[j].a = "adv"})]
Covers(t) == {s \in 0..MaxNow : s % Slide = 0 /\ s <= t /\ t < s + Size}
Reported(id, s) == \E i \in 1..Len(out) : out[i].ws = s /\ id \in SeqSet(out[i].ids)
\* placement: a row is reported only in intervals that contain its arrival time
Placed == \A i \in 1..Len(out) : /\ out[i].ws % Slide = 0
                                  /\ \A id \in SeqSet(out[i].ids) : out[i].ws \in Covers(Rows[id])
NoRepeat == \A i, j \in 1..Len(out) : i # j => out[i].ws # out[j].ws
\* the cursor never passes an interval (from the first slot on) without reporting the rows that arrived in it
NoLoss == \A id \in 1..nadd : \A s \in Covers(Rows[id]) : (s >= s0 /\ s < slot) => Reported(id, s)
\* while no tick was dropped and none is outstanding the cursor is within size + slide of the clock
Timely == (init /\ pend = 0 /\ dropped = 0) => now < slot + Size + Slide

Complete == nadd = MaxEv /\ now = MaxNow /\ pend = 0
EmitScenario == (Emit /\ Complete) => PrintT(<<"SCEN", ToJson(hist)>>)
View == <<now, init, slot, s0, due, pend, dropped, data, out, nadd>>
=============================================================================
