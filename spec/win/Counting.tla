------------------------------ MODULE Counting ------------------------------
(***************************************************************************)
(* CountingWindow(N) of rulego/streamsql (window/counting_window.go): one    *)
(* goroutine owns per-key buffers keyed by an ENCODED key string; a key      *)
(* reaching N rows fires its first N rows as one batch and keeps the rest.   *)
(* Contract (C09/C04): batches are per key TUPLE - the i-th batch of a tuple *)
(* holds that tuple's rows (i-1)N+1..iN in arrival order.                    *)
(***************************************************************************)
EXTENDS KeyEnc, Json

CONSTANTS N, KeySet, MaxRows, Encoder, Emit
VARIABLES buf,      \* encoded key -> seq of row ids (keyedBuffer)
          arrivals, \* monitor: seq of key tuples in arrival order (row id = position)
          out,      \* delivered batches: seq of seq of row ids
          hist
vars == <<buf, arrivals, out, hist>>

\* key universes (config files cannot hold tuples)
Tuples == CASE KeySet = "one"     -> {<<"a">>, <<"b">>, <<"c">>}
            [] KeySet = "two"     -> {<<"a">>, <<"b">>}
            [] KeySet = "collide" -> {<<"x|y", "z">>, <<"x", "y|z">>, <<"a", "b">>}
            [] KeySet = "nulls"   -> {<<"">>, <<Nil>>, <<"a">>}
            [] KeySet = "pairs"   -> {<<"a", "">>, <<"a", Nil>>, <<"", "a">>, <<"a|", "">>}
            \* values holding the escape character of the engine's own key encoding (window/group_key.go: "\" escapes "|" and itself, NULL is "\N")
            [] KeySet = "esc"     -> {<<"x\\", "y|z">>, <<"x|y\\", "z">>, <<"x\\|y", "z">>}
            [] KeySet = "escnull" -> {<<"\\N">>, <<Nil>>, <<"N">>, <<"\\">>}

Enc(t) == IF Encoder = "pipe" THEN PipeJoin(t) ELSE Tagged(t)
Codes == {Enc(t) : t \in Tuples}

Init == buf = [c \in Codes |-> <<>>] /\ arrivals = <<>> /\ out = <<>> /\ hist = <<>>

Row(t) ==
  /\ Len(arrivals) < MaxRows
  /\ LET id == Len(arrivals) + 1  c == Enc(t)  b == Append(buf[c], id) IN
     /\ arrivals' = Append(arrivals, t)
     /\ hist' = Append(hist, t)
     /\ IF Len(b) >= N
          THEN /\ out' = Append(out, SubSeq(b, 1, N))
               /\ buf' = [buf EXCEPT ![c] = SubSeq(b, N + 1, Len(b))]
          ELSE /\ out' = out /\ buf' = [buf EXCEPT ![c] = b]

Next == \E t \in Tuples : Row(t)
Spec == Init /\ [][Next]_vars

\* ---------------- contract monitor ----------------
IdsOf(t) == SelectSeq([i \in 1..Len(arrivals) |-> i], LAMBDA i : arrivals[i] = t)
BatchesOf(t) == SelectSeq(out, LAMBDA b : arrivals[b[1]] = t)
BatchOK(b) == /\ Len(b) = N
              /\ \A k \in 1..N : arrivals[b[k]] = arrivals[b[1]]
PerKeyConsecutive ==
  \A t \in Tuples : LET bs == BatchesOf(t)  ids == IdsOf(t) IN
     /\ Len(bs) = Len(ids) \div N                                     \* none missing, none extra, remainder silent
     /\ \A i \in 1..Len(bs) : bs[i] = SubSeq(ids, (i - 1) * N + 1, i * N)
Contract == (\A i \in 1..Len(out) : BatchOK(out[i])) /\ PerKeyConsecutive
EncoderInjective == Injective(Enc, Tuples)
EmitScenario == (Emit /\ Len(arrivals) = MaxRows) => PrintT(<<"SCEN", ToJson(hist)>>)
=============================================================================
