----------------------------- MODULE TraceProc -----------------------------
(***************************************************************************)
(* Contract monitor for PROCESSING-TIME tumbling windows (C01, "in          *)
(* processing time: every row"), evaluated by TLC on traces of the real     *)
(* engine.  A row's timestamp is the wall clock read inside Add; the trace  *)
(* brackets it: lo = clock before Emit, hi = clock at the end of Add (hook).*)
(* Times are microseconds since the scenario start (ws rounded down, we     *)
(* rounded up, so a boundary case is always accepted).                      *)
(***************************************************************************)
EXTENDS Integers, Sequences, FiniteSets, TLC, Json, IOUtils

CONSTANT Dev
Trace == ndJsonDeserialize(IOEnv.TRACE_FILE)

VARIABLES l, cfg, em, dl, dead
vars == <<l, cfg, em, dl, dead>>

SeqSet(s) == {s[i] : i \in 1..Len(s)}
Distinct(s) == \A i, j \in 1..Len(s) : i # j => s[i] # s[j]
RECURSIVE SumV(_)
SumV(ids) == IF ids = <<>> THEN 0 ELSE em[Head(ids)].v + SumV(Tail(ids))

RowCode(r) ==
  IF r.spanerr # 0 THEN "interval_length"
  ELSE IF r.gridrem # 0 THEN "interval_not_aligned"
  ELSE IF r.wid # 1 THEN "window_id_mismatch"
  ELSE IF Len(r.ids) = 0 THEN "empty_result"
  ELSE IF ~Distinct(r.ids) THEN "row_counted_twice_in_result"
  ELSE IF \E k \in 1..Len(r.ids) : r.ids[k] < 1 \/ r.ids[k] > Len(em) THEN "unknown_row"
  ELSE IF \E k \in 1..Len(r.ids) : em[r.ids[k]].g # r.g THEN "row_in_wrong_group"
  ELSE IF \E k \in 1..Len(r.ids) : ~(r.ws <= em[r.ids[k]].hi /\ em[r.ids[k]].lo < r.we) THEN "row_outside_interval"
  ELSE IF \E k \in 1..Len(r.ids), i \in 1..Len(dl) : r.ids[k] \in SeqSet(dl[i].ids) THEN "row_counted_twice"
  ELSE IF r.c # Len(r.ids) THEN "count_mismatch"
  ELSE IF r.s # SumV(r.ids) THEN "sum_mismatch"
  ELSE IF \E i \in 1..Len(dl) : dl[i].wsx = r.wsx /\ dl[i].at # l THEN "interval_reported_twice"
  ELSE ""

RECURSIVE RowsCode(_, _)
RowsCode(rows, k) ==
  IF k > Len(rows) THEN ""
  ELSE LET c1 == RowCode(rows[k]) IN IF c1 # "" THEN c1 ELSE RowsCode(rows, k + 1)

DeliverCode(e) ==
  IF Len(e.rows) = 0 THEN "empty_delivery"
  ELSE IF \E i, j \in 1..Len(e.rows) : i # j /\ e.rows[i].g = e.rows[j].g THEN "group_split_in_batch"
  ELSE IF \E i \in 1..Len(e.rows) : e.rows[i].wsx # e.rows[1].wsx THEN "mixed_intervals_in_batch"
  ELSE IF \E i, j \in 1..Len(e.rows) : i # j /\ SeqSet(e.rows[i].ids) \cap SeqSet(e.rows[j].ids) # {} THEN "row_counted_twice"
  ELSE RowsCode(e.rows, 1)

Reported(id) == \E i \in 1..Len(dl) : id \in SeqSet(dl[i].ids)
QuiesceCode == IF \E id \in 1..Len(em) : ~Reported(id) THEN "row_never_reported" ELSE ""

Reject(code) == /\ PrintT(<<"REJECT", cfg.tr, l, code>>) /\ dead' = TRUE

Init == /\ l = 1 /\ cfg = [tr |-> -1] /\ em = <<>> /\ dl = <<>> /\ dead = FALSE

Next ==
  /\ l <= Len(Trace)
  /\ l' = l + 1
  /\ LET e == Trace[l] IN
     IF e.e = "reset" THEN /\ cfg' = e /\ em' = <<>> /\ dl' = <<>> /\ dead' = FALSE
     ELSE IF dead THEN UNCHANGED <<cfg, em, dl, dead>>
     ELSE IF e.e = "add" THEN
        /\ em' = Append(em, [g |-> e.g, v |-> e.v, lo |-> e.lo, hi |-> e.hi])
        /\ IF e.id # Len(em) + 1 THEN Reject("harness_ids_not_sequential")
           ELSE IF e.hi < e.lo THEN Reject("harness_bracket") ELSE UNCHANGED dead
        /\ UNCHANGED <<cfg, dl>>
     ELSE IF e.e = "deliver" THEN
        LET code == DeliverCode(e) IN
        IF code = "" THEN
            /\ dl' = dl \o [i \in 1..Len(e.rows) |-> [wsx |-> e.rows[i].wsx, g |-> e.rows[i].g, ids |-> e.rows[i].ids, at |-> l]]
            /\ UNCHANGED <<cfg, em, dead>>
        ELSE Reject(code) /\ UNCHANGED <<cfg, em, dl>>
     ELSE IF e.e = "quiesce" THEN
        LET code == QuiesceCode IN
        /\ IF code = "" THEN UNCHANGED dead ELSE Reject(code)
        /\ UNCHANGED <<cfg, em, dl>>
     ELSE UNCHANGED <<cfg, em, dl, dead>>

Spec == Init /\ [][Next]_vars
Done == l = Len(Trace) + 1
AllConsumed == TLCGet("stats").diameter - 1 = Len(Trace)
=============================================================================
