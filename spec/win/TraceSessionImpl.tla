-------------------------- MODULE TraceSessionImpl --------------------------
(***************************************************************************)
(* Binding of the code-shaped model Session.tla to the real engine at the    *)
(* level of its STATE: the model's own actions Add / Trig / Send are stepped *)
(* through the trace of a forced replay; after every step the state reported *)
(* by the hooks from inside the engine (under the window lock) - live        *)
(* sessions in sessionMap, fired sessions kept open for late events, sessions*)
(* collected by a trigger pass - must equal the model's, and every delivery  *)
(* at the sink must be one of the model's batches not yet observed (the      *)
(* order in which one pass reports its sessions is the iteration order of a  *)
(* Go map: any order).  A mismatch is MODEL DRIFT, not a property violation. *)
(***************************************************************************)
EXTENDS Session, IOUtils

CONSTANT Dev
Trace == ndJsonDeserialize(IOEnv.TRACE_FILE)
VARIABLES l, seen, dead, tr        \* seen: indices of out observed at the sink
tvars == <<vars, l, seen, dead, tr>>

ModelInit ==
  /\ sess' = [k \in Keys |-> Nil] /\ open' = <<>>
  /\ maxTs' = -1 /\ wmCur' = NoWm /\ wmSent' = NoWm /\ wmChan' = <<>>
  /\ tpc' = "idle" /\ twm' = NoWm /\ pend' = <<>>
  /\ out' = <<>> /\ emitted' = <<>> /\ hist' = <<>> /\ lq' = <<>>
Drift(code) == /\ PrintT(<<"DRIFT", tr, l, code>>) /\ dead' = TRUE /\ UNCHANGED <<vars, seen, tr>>
Skip == UNCHANGED <<vars, seen, dead, tr>>
Live == {k \in Keys : sess[k] # Nil}

TInit == Init /\ l = 1 /\ seen = {} /\ dead = TRUE /\ tr = -1
TNext ==
  /\ l <= Len(Trace) /\ l' = l + 1
  /\ LET e == Trace[l] IN
     IF e.e = "reset" THEN
        /\ ModelInit /\ seen' = {} /\ tr' = e.tr
        /\ dead' = ~("kind" \in DOMAIN e /\ e.kind = "session" /\ e.free = 0 /\ e.size = T /\ e.moo = MOO /\ e.al = AL /\ e.idle = 0)
     ELSE IF dead THEN Skip
     ELSE IF e.e = "add" THEN
        IF e.fut = 1 \/ e.g \notin Keys THEN Drift("row_outside_the_model")
        ELSE IF ~(Len(emitted) < MaxEv /\ tpc \in {"idle", "fired"} /\ lq = <<>>) THEN Drift("add_while_the_model_holds_the_lock")
        ELSE Add(e.g, e.ts) /\ UNCHANGED <<seen, dead, tr>>
     ELSE IF e.e = "h.add" THEN
        IF e.n # Cardinality(Live) THEN Drift("live_sessions")
        \* triggeredSessions is keyed by session key (older fired sessions of a key hang off the newest one): the hook reports keys
        ELSE IF e.no # Cardinality({open[i].key : i \in 1..Len(open)}) THEN Drift("keys_with_sessions_open_for_late_events")
        ELSE Skip
     ELSE IF e.e = "latesend" THEN       \* the producer, parked inside Add after it released sw.mu for the late re-delivery, is let go
        IF lq = <<>> THEN Drift("no_late_redelivery_pending_in_the_model") ELSE LateSend /\ UNCHANGED <<seen, dead, tr>>
     ELSE IF e.e = "freerun" THEN dead' = TRUE /\ UNCHANGED <<vars, seen, tr>>
     ELSE IF e.e = "trig" THEN
        IF ~(tpc = "idle" /\ wmChan # <<>> /\ emitted # <<>>) THEN Drift("no_watermark_pending_in_the_model") ELSE Trig /\ UNCHANGED <<seen, dead, tr>>
     ELSE IF e.e = "send" THEN
        IF tpc # "fired" THEN Drift("no_collected_sessions_in_the_model") ELSE Send /\ UNCHANGED <<seen, dead, tr>>
     ELSE IF e.e = "h.fired" THEN
        IF tpc # "fired" THEN Drift("engine_collected_where_the_model_does_not")
        ELSE IF e.n # Len(pend) THEN Drift("sessions_collected_by_the_pass")
        ELSE IF e.wm # twm THEN Drift("watermark_of_the_pass")
        ELSE Skip
     ELSE IF e.e = "deliver" THEN
        LET C == {i \in (1..Len(out)) \ seen : \A j \in 1..Len(e.rows) :
                     /\ e.rows[j].g = out[i].key /\ e.rows[j].ws = out[i].start /\ e.rows[j].we = out[i].end
                     /\ SeqSet(e.rows[j].ids) = SeqSet(out[i].ids)} IN
        IF C = {} THEN Drift("delivery_is_none_of_the_models_batches")
        ELSE seen' = seen \cup {CHOOSE i \in C : \A j \in C : i <= j} /\ UNCHANGED <<vars, dead, tr>>
     ELSE IF e.e = "quiesce" THEN
        IF seen # 1..Len(out) THEN Drift("model_delivery_not_observed")
        ELSE IF ~Quiet THEN Drift("model_not_at_rest")
        ELSE PrintT(<<"BOUND", tr, Len(hist)>>) /\ Skip
     ELSE Skip
Spec0 == TInit /\ [][TNext]_tvars
AllConsumed == TLCGet("stats").diameter - 1 = Len(Trace)
=============================================================================
