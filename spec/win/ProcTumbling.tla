--------------------------- MODULE ProcTumbling ---------------------------
(***************************************************************************)
(* Processing-time tumbling window of rulego/streamsql (the DEFAULT time   *)
(* characteristic), code-shaped after window/tumbling_window.go:           *)
(*   Add      : ts := time.Now(); first row: currentSlot := the epoch-     *)
(*              aligned interval of ts; time.NewTicker(size) (under tw.mu) *)
(*   Adv      : the wall clock advances; a due tick is put into the        *)
(*              ticker's 1-slot channel, or DROPPED when that is full      *)
(*              (Go ticker semantics: a slow receiver loses ticks)         *)
(*   Fire     : the timer goroutine takes the buffered tick and runs       *)
(*              Trigger(): emit rows of currentSlot, keep rows >= next     *)
(*              start, currentSlot := next                (under tw.mu)    *)
(* The goroutine may lag arbitrarily between tick and Trigger, so Add and  *)
(* Adv interleave freely with Fire.  Contract (C01, processing time):      *)
(* every row is reported exactly once, in a result whose interval          *)
(* contains the row's arrival time; no interval twice.                     *)
(*   Manual   : TriggerWindow() called by the application: the same        *)
(*              Trigger() body, not driven by a tick.  It ends the current  *)
(*              interval early (rows arriving in the rest of it are behind  *)
(*              the cursor and are discarded - "excused" below) and leaves   *)
(*              the cursor one interval ahead of the clock; TickGuard (the  *)
(*              code since repair bfbef07) makes the next tick skip instead *)
(*              of firing the following interval before its end.            *)
(***************************************************************************)
EXTENDS Integers, Sequences, FiniteSets, TLC, Json

CONSTANTS Size, MaxNow, MaxEv, Emit,
          KeepFrom,  \* "next": Trigger keeps rows with ts >= next start (the code); "all": keeps every row not emitted
          MaxManual, \* number of TriggerWindow() calls explored (0: none)
          TickGuard  \* TRUE (the code since the repair): a tick that finds the current interval not yet over is skipped

VARIABLES now, init, slot, tb, nticks, pend, data, out, nadd, hist, nman, manual, excused
vars == <<now, init, slot, tb, nticks, pend, data, out, nadd, hist, nman, manual, excused>>

SeqSet(s) == {s[i] : i \in 1..Len(s)}
Ids(rows) == [i \in 1..Len(rows) |-> rows[i].id]

Init == /\ now = 0 /\ init = FALSE /\ slot = -1 /\ tb = -1 /\ nticks = 0 /\ pend = 0
        /\ data = <<>> /\ out = <<>> /\ nadd = 0 /\ hist = <<>> /\ nman = 0 /\ manual = {} /\ excused = {}

Add ==
  /\ nadd < MaxEv
  /\ nadd' = nadd + 1
  /\ data' = Append(data, [id |-> nadd + 1, ts |-> now])
  /\ IF init THEN UNCHANGED <<init, slot, tb>>
     ELSE /\ init' = TRUE /\ slot' = (now \div Size) * Size /\ tb' = now
  /\ hist' = Append(hist, [a |-> "add", id |-> nadd + 1])
  /\ excused' = IF init /\ now < slot THEN excused \cup {<<nadd + 1, now>>} ELSE excused     \* behind the cursor: never reported
  /\ UNCHANGED <<now, nticks, pend, out, nman, manual>>

Adv ==
  /\ now < MaxNow
  /\ now' = now + 1
  /\ IF init /\ now + 1 >= tb + (nticks + 1) * Size
       THEN /\ nticks' = nticks + 1 /\ pend' = 1        \* pend already 1: the tick is dropped
       ELSE UNCHANGED <<nticks, pend>>
  /\ hist' = Append(hist, [a |-> "adv", id |-> 0])
  /\ UNCHANGED <<init, slot, tb, data, out, nadd, nman, manual, excused>>

\* Trigger(): emit the rows of the current interval, keep the rows from the next start on, move the cursor
TriggerBody ==
  LET next == slot + Size
      res  == SelectSeq(data, LAMBDA r : slot <= r.ts /\ r.ts < next)
      keep == IF KeepFrom = "next" THEN SelectSeq(data, LAMBDA r : r.ts >= next)
              ELSE SelectSeq(data, LAMBDA r : ~(slot <= r.ts /\ r.ts < next))
  IN /\ data' = keep
     /\ out' = IF res = <<>> THEN out ELSE Append(out, [ws |-> slot, ids |-> Ids(res)])
     /\ slot' = next

Fire ==
  /\ pend = 1
  /\ pend' = 0
  /\ IF TickGuard /\ now < slot + Size
       THEN UNCHANGED <<data, out, slot>>        \* the interval this tick was for has been reported by hand: skip
       ELSE TriggerBody
  /\ hist' = Append(hist, [a |-> "fire", id |-> 0])
  /\ UNCHANGED <<now, init, tb, nticks, nadd, nman, manual, excused>>

Manual ==
  /\ init /\ nman < MaxManual
  /\ nman' = nman + 1 /\ manual' = manual \cup {slot}
  /\ TriggerBody
  /\ hist' = Append(hist, [a |-> "mtrig", id |-> 0])
  /\ UNCHANGED <<now, init, tb, nticks, pend, nadd, excused>>

Next == Add \/ Adv \/ Fire \/ Manual
Spec == Init /\ [][Next]_vars

\* ----------------------------------------------------------------- contract
Delivered(id) == {i \in 1..Len(out) : id \in SeqSet(out[i].ids)}
InData(id)    == \E k \in 1..Len(data) : data[k].id = id

NoLoss      == \A id \in 1..nadd : InData(id) \/ Delivered(id) # {} \/ \E e \in excused : e[1] = id
\* a row is behind the cursor only in the rest of an interval that was ended by hand - never because the cursor ran ahead by itself
ExcusedOnlyManual == \A e \in excused : \E ws \in manual : ws <= e[2] /\ e[2] < ws + Size
ExactlyOnce == \A id \in 1..nadd : Cardinality(Delivered(id)) <= 1 /\ ~(InData(id) /\ Delivered(id) # {})
NoRepeat    == \A i, j \in 1..Len(out) : i # j => out[i].ws # out[j].ws
OnGrid      == \A i \in 1..Len(out) : out[i].ws % Size = 0
SlotBehind  == init => slot <= now            \* the cursor never runs ahead of the clock: no row can precede it
\* placement needs the arrival time of delivered rows: carried in hist-free form by re-deriving from ids is impossible,
\* so Fire's selection predicate is the placement itself (res is exactly the rows of [slot, next)).

\* ------------------------------------------------------------ scenarios ---
Complete == nadd = MaxEv /\ now = MaxNow /\ pend = 0
EmitScenario == (Emit /\ Complete) => PrintT(<<"SCEN", ToJson(hist)>>)
View == <<now, init, slot, tb, nticks, pend, data, out, nadd, nman, manual, excused>>
=============================================================================
