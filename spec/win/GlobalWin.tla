----------------------------- MODULE GlobalWin -----------------------------
(***************************************************************************)
(* GLOBAL WINDOW TRIGGER WHEN p (window/global_window.go): one goroutine     *)
(* owns per-group running aggregates; after each row the predicate is        *)
(* evaluated on the group's aggregates since it last fired; on a hit the     *)
(* result is emitted and the group purged (FIRE_AND_PURGE).                  *)
(* State here: the rows received by each group since it last fired; the      *)
(* running aggregates are functions of them.  Predicates are drawn from a    *)
(* menu (constant Pred); NULL aggregates make a comparison not true.         *)
(***************************************************************************)
EXTENDS Integers, Sequences, FiniteSets, TLC, Json

CONSTANTS Groups, RawVals, Off, MaxRows, Pred, Emit
Nul == -999
Vals == {x - Off : x \in RawVals} \cup {Nul}
VARIABLES acc,     \* group -> seq of values since the group last fired
          out,     \* fired results: [g, vals]
          n, hist
vars == <<acc, out, n, hist>>

Usable(s) == SelectSeq(s, LAMBDA v : v # Nul)
RECURSIVE Sum(_)
Sum(s) == IF s = <<>> THEN 0 ELSE Head(s) + Sum(Tail(s))
MaxOf(s) == CHOOSE m \in {s[i] : i \in 1..Len(s)} : \A i \in 1..Len(s) : m >= s[i]
MinOf(s) == CHOOSE m \in {s[i] : i \in 1..Len(s)} : \A i \in 1..Len(s) : m <= s[i]

\* k-th smallest value of a non-empty sequence; twice the median (kept integral)
Kth(u, k) == CHOOSE x \in {u[i] : i \in 1..Len(u)} :
                Cardinality({i \in 1..Len(u) : u[i] < x}) < k /\ Cardinality({i \in 1..Len(u) : u[i] <= x}) >= k
Median2(u) == LET m == Len(u) IN IF m % 2 = 1 THEN 2 * Kth(u, (m + 1) \div 2) ELSE Kth(u, m \div 2) + Kth(u, m \div 2 + 1)

\* the predicate menu: truth of p over the rows s of one group (comparison with a NULL aggregate is not true)
Holds(p, s) ==
  LET u == Usable(s) IN
  CASE p = "count>=2"          -> Len(s) >= 2
    [] p = "sum>3"             -> u # <<>> /\ Sum(u) > 3
    [] p = "max>=3"            -> u # <<>> /\ MaxOf(u) >= 3
    [] p = "min<0"             -> u # <<>> /\ MinOf(u) < 0
    [] p = "avg>=2"            -> u # <<>> /\ Sum(u) >= 2 * Len(u)
    [] p = "count>=3|max>=3"   -> Len(s) >= 3 \/ (u # <<>> /\ MaxOf(u) >= 3)
    [] p = "count>=2&min<0"    -> Len(s) >= 2 /\ u # <<>> /\ MinOf(u) < 0
    [] p = "max>=3|count>=3"   -> (u # <<>> /\ MaxOf(u) >= 3) \/ Len(s) >= 3          \* a column aggregate BEFORE count(*)
    [] p = "min<0&count>=2"    -> u # <<>> /\ MinOf(u) < 0 /\ Len(s) >= 2
    [] p = "sum>3|count>=3"    -> (u # <<>> /\ Sum(u) > 3) \/ Len(s) >= 3
    [] p = "countv>=2"         -> Len(u) >= 2                                         \* COUNT(v): the rows in which v is present and not NULL
    [] p = "countv>=3"         -> Len(u) >= 3
    [] p = "median>=2"         -> u # <<>> /\ Median2(u) >= 4                          \* whatever order the values arrived in
    [] p = "median<1|count>=4" -> (u # <<>> /\ Median2(u) < 2) \/ Len(s) >= 4
    [] p = "band:sum"          -> u # <<>> /\ Sum(u) >= 3 /\ Sum(u) < 8                 \* one aggregate call twice in the predicate
    [] p = "tier:sum,count"    -> (u # <<>> /\ Sum(u) >= 6) \/ (Len(s) >= 3 /\ u # <<>> /\ Sum(u) >= 2)
    [] p = "count>=3|max>=3&min<0" -> Len(s) >= 3 \/ (u # <<>> /\ MaxOf(u) >= 3 /\ MinOf(u) < 0)   \* AND binds tighter than OR

Init == acc = [g \in Groups |-> <<>>] /\ out = <<>> /\ n = 0 /\ hist = <<>>
\* predicates whose LEFT operand of OR is a column aggregate: while that aggregate is NULL the engine's evaluation of the whole
\* predicate fails (recorded finding TriggerOrPoisonedByNullAggregate, pinned); the behaviours generated for replay (Emit) start
\* every accumulation of a group with a non-NULL value
LeftNullable == {"max>=3|count>=3", "sum>3|count>=3", "median<1|count>=4", "tier:sum,count"}
Row(g, v) ==
  /\ (Emit /\ Pred \in LeftNullable /\ acc[g] = <<>>) => v # Nul
  /\ n < MaxRows /\ n' = n + 1
  /\ hist' = Append(hist, [g |-> g, v |-> v])
  /\ LET s == Append(acc[g], v) IN
     IF Holds(Pred, s) THEN /\ out' = Append(out, [g |-> g, vals |-> s, at |-> n + 1]) /\ acc' = [acc EXCEPT ![g] = <<>>]
     ELSE /\ acc' = [acc EXCEPT ![g] = s] /\ out' = out
Next == \E g \in Groups, v \in Vals : Row(g, v)
Spec == Init /\ [][Next]_vars

\* contract: a result exactly at the rows where the predicate holds on the rows since the previous result of that group
RowsOf(g) == SelectSeq(hist, LAMBDA r : r.g = g)
FiresExactly ==
  \A i \in 1..Len(out) : Holds(Pred, out[i].vals)
  /\ \A k \in 1..(Len(out[i].vals) - 1) : ~Holds(Pred, SubSeq(out[i].vals, 1, k))
Conservation == \A g \in Groups :
  LET fired == SelectSeq(out, LAMBDA o : o.g = g) IN
  Len(RowsOf(g)) = Len(acc[g]) + Sum([i \in 1..Len(fired) |-> Len(fired[i].vals)])
NoFireWhileFalse == \A g \in Groups : \A k \in 1..Len(acc[g]) : ~Holds(Pred, SubSeq(acc[g], 1, k))
\* predicates whose LEFT operand of OR is a column aggregate: while that aggregate is NULL the engine's evaluation of the whole
\* predicate fails (recorded finding TriggerOrPoisonedByNullAggregate, pinned); generated behaviours give every group a non-NULL first value
EmitScenario == (Emit /\ n = MaxRows) => PrintT(<<"SCEN", ToJson(hist)>>)
=============================================================================
