------------------------------ MODULE TraceWin ------------------------------
(***************************************************************************)
(* Contract monitor (Abs) for event-time tumbling and sliding windows,     *)
(* evaluated by TLC on ndjson traces recorded from the REAL engine          *)
(* (properties C01, C02, C08).  The monitor is total: a trace whose event   *)
(* breaks a guard is reported (REJECT) and skipped, validation continues    *)
(* with the next trace.  Dev = set of enabled known-deviation names.        *)
(***************************************************************************)
EXTENDS Integers, Sequences, FiniteSets, TLC, Json, IOUtils

CONSTANT Dev
Trace == ndJsonDeserialize(IOEnv.TRACE_FILE)

VARIABLES l,      \* next trace line
          cfg,    \* reset record of the current trace
          em,     \* emitted rows in Emit order: [ts, g, v, late, wmAt, at, fut]
          maxTs,  \* largest (non-future-garbage) timestamp seen
          dl,     \* delivered result rows: [ws, g, ids, at]
          pwm,    \* watermark of the last COMPLETED trigger pass logged so far (processed watermark)
          dead,   \* current trace already rejected
          used,   \* deviations used in the current trace
          ldt,    \* idle-timeout scenarios: wall-clock time (µs) at which the last row KNOWN to have reached the window was handed in
          idled   \* an idle-justified delivery was seen: the engine's watermark now runs on processing time
vars == <<l, cfg, em, maxTs, dl, pwm, dead, used, ldt, idled>>

Step(k)  == IF cfg.kind = "sliding" THEN cfg.slide ELSE cfg.size
AlignTo(t, k) == (t \div k) * k
SeqSet(s) == {s[i] : i \in 1..Len(s)}
RECURSIVE SumV(_)
SumV(ids) == IF ids = <<>> THEN 0 ELSE em[Head(ids)].v + SumV(Tail(ids))
Distinct(s) == \A i, j \in 1..Len(s) : i # j => s[i] # s[j]

\* windows (by start) that cover timestamp t
Covers(t) == IF cfg.kind = "sliding"
               THEN {s \in (t - cfg.size + 1)..t : s % cfg.slide = 0 /\ s >= 0}
               ELSE {AlignTo(t, cfg.size)}

\* ---------------------------------------------------------------- guards --
PrevOf(ws, g) == {i \in 1..Len(dl) : dl[i].ws = ws /\ dl[i].g = g}
WinSeen(ws)   == \E i \in 1..Len(dl) : dl[i].ws = ws

\* C02: "... or the idle timeout elapsed": no row reached the window during the IDLETIMEOUT before the delivery.
\* ldt is a lower bound of the engine's own "last event" clock, the delivery time an upper bound of its tick.
Idle == IF "idle" \in DOMAIN cfg THEN cfg.idle ELSE 0
IdleJustified(r) == Idle > 0 /\ ldt >= 0 /\ "t" \in DOMAIN r /\ r.t - ldt >= Idle
\* code "" = row acceptable, otherwise the name of the violated clause
RowCode(r) ==
  IF r.wsr # 0 \/ r.wer # 0 \/ r.ws < 0 THEN "boundary_not_on_tick"
  ELSE IF r.we - r.ws # cfg.size THEN "interval_length"
  ELSE IF r.ws % Step(0) # 0 THEN "interval_not_aligned"
  ELSE IF r.wid # 1 THEN "window_id_mismatch"
  ELSE IF Len(r.ids) = 0 THEN "empty_result"
  ELSE IF ~Distinct(r.ids) THEN "row_counted_twice_in_result"
  ELSE IF \E k \in 1..Len(r.ids) : r.ids[k] < 1 \/ r.ids[k] > Len(em) THEN "unknown_row"
  ELSE IF \E k \in 1..Len(r.ids) : em[r.ids[k]].g # r.g THEN "row_in_wrong_group"
  ELSE IF \E k \in 1..Len(r.ids) : ~(r.ws <= em[r.ids[k]].ts /\ em[r.ids[k]].ts < r.we) THEN "row_outside_interval"
  ELSE IF \E k \in 1..Len(r.ids) : em[r.ids[k]].fut = 1 THEN "future_garbage_counted"
  ELSE IF r.c # Len(r.ids) THEN "count_mismatch"
  ELSE IF r.s # SumV(r.ids) THEN "sum_mismatch"
  \* after an idle flush which rows are late / owed is no longer known to the trace (the watermark is the wall clock); what stays
  \* known: an interval is reported once when ALLOWEDLATENESS = 0 (a row of a flushed interval that arrives afterwards is late,
  \* however high its timestamp is compared with the earlier ones)
  ELSE IF idled THEN (IF cfg.al = 0 /\ WinSeen(r.ws) THEN "interval_reported_twice" ELSE "")
  ELSE IF maxTs < r.we + cfg.moo /\ ~IdleJustified(r) THEN "fired_before_watermark"
  ELSE LET prev == PrevOf(r.ws, r.g) IN
       IF prev = {} THEN
            \* first result of (interval, group): if the interval was already delivered, its rows are late ones
            IF ~WinSeen(r.ws) THEN ""
            ELSE IF cfg.al = 0 THEN "interval_reported_twice"
            ELSE IF "ScopeOnTimeOnly" \in Dev THEN (IF \E id \in SeqSet(r.ids) : ~em[id].late THEN "redelivery_added_ontime_row" ELSE "")
            ELSE IF \E id \in SeqSet(r.ids) : ~em[id].late THEN "redelivery_added_ontime_row"
            ELSE IF \E id \in SeqSet(r.ids) : r.we + cfg.al <= em[id].pwmAt THEN "late_row_absorbed_after_allowance"
            ELSE ""
       ELSE IF cfg.al = 0 THEN "interval_reported_twice"
       ELSE LET last == dl[CHOOSE i \in prev : \A j \in prev : j <= i] IN
            \* scope C01 (ScopeOnTimeOnly): only the rows that were on time matter - every delivery of an interval reports the same
            \* on-time rows; which late rows it carries and in which order updates arrive is C02's subject
            IF "ScopeOnTimeOnly" \in Dev THEN
                 (IF {id \in SeqSet(last.ids) : ~em[id].late} # {id \in SeqSet(r.ids) : ~em[id].late} THEN "redelivery_changed_ontime_rows" ELSE "")
            ELSE IF ~(SeqSet(last.ids) \subseteq SeqSet(r.ids)) THEN "redelivery_lost_rows"
            ELSE IF \E id \in SeqSet(r.ids) \ SeqSet(last.ids) : ~em[id].late THEN "redelivery_added_ontime_row"
            \* C02(d): a trigger pass with watermark >= end + AL had completed before the row was emitted: window closed
            ELSE IF \E id \in SeqSet(r.ids) \ SeqSet(last.ids) : r.we + cfg.al <= em[id].pwmAt THEN "late_row_absorbed_after_allowance"
            ELSE ""

\* tumbling: a row may be counted in one interval only (across results)
CrossCode(r) ==
  IF cfg.kind = "tumbling" /\ \E i \in 1..Len(dl) : dl[i].ws # r.ws /\ SeqSet(dl[i].ids) \cap SeqSet(r.ids) # {}
    THEN "row_counted_in_two_intervals" ELSE ""

RECURSIVE RowsCode(_, _)
RowsCode(rows, k) ==
  IF k > Len(rows) THEN ""
  ELSE LET c1 == RowCode(rows[k]) IN
       IF c1 # "" THEN c1
       ELSE LET c2 == CrossCode(rows[k]) IN IF c2 # "" THEN c2 ELSE RowsCode(rows, k + 1)

DeliverCode(e) ==
  IF Len(e.rows) = 0 THEN "empty_delivery"
  ELSE IF \E i, j \in 1..Len(e.rows) : i # j /\ e.rows[i].g = e.rows[j].g THEN "group_split_in_batch"
  ELSE IF \E i \in 1..Len(e.rows) : e.rows[i].ws # e.rows[1].ws \/ e.rows[i].we # e.rows[1].we THEN "mixed_intervals_in_batch"
  ELSE IF cfg.kind = "sliding" /\ cfg.al = 0 /\ \E i \in 1..Len(dl) : dl[i].ws > e.rows[1].ws THEN "first_firings_out_of_order"
  ELSE RowsCode(e.rows, 1)

\* shape of the known deviation: every row of the batch that re-delivers fewer rows than before lost only LATE rows
OvertakeShape(e) ==
  /\ cfg.kind \in {"tumbling", "sliding"} /\ cfg.al > 0       \* sliding: since repair b8703e6 it registers the fired window before the delivery, as the tumbling window does
  /\ \A k \in 1..Len(e.rows) :
       LET r == e.rows[k]  prev == PrevOf(r.ws, r.g) IN
       prev # {} =>
         LET last == dl[CHOOSE i \in prev : \A j \in prev : j <= i] IN
         /\ SeqSet(r.ids) \subseteq SeqSet(last.ids) \/ SeqSet(last.ids) \subseteq SeqSet(r.ids)
         /\ \A id \in SeqSet(last.ids) \ SeqSet(r.ids) : em[id].late

\* ------------------------------------------------------------- quiescence --
OnTime == {id \in 1..Len(em) : ~em[id].late /\ em[id].fut = 0}
MinOnTimeTs == CHOOSE t \in {em[id].ts : id \in OnTime} : \A id \in OnTime : t <= em[id].ts
S0 == AlignTo(MinOnTimeTs, Step(0))          \* start of the first reportable interval
FinalWm == maxTs - cfg.moo
InResult(id, ws) == \E i \in 1..Len(dl) : dl[i].ws = ws /\ dl[i].g = em[id].g /\ id \in SeqSet(dl[i].ids)

\* on-time rows whose interval the final watermark passed but which were never reported in it
Lost == {<<id, ws>> \in OnTime \X (0..(IF maxTs < 0 THEN 0 ELSE maxTs)) :
            ws \in Covers(em[id].ts) /\ ws >= S0 /\ ws + cfg.size <= FinalWm /\ ~InResult(id, ws)}

\* C02(c): late row inside the allowance of an interval delivered before it was emitted => re-delivered with it.  Sliding intervals
\* overlap: the row is owed to EVERY interval containing it that had been delivered and was still inside its allowance
LateOwed == {p \in (1..Len(em)) \X (0..(IF maxTs < 0 THEN 0 ELSE maxTs)) :
               LET id == p[1]  ws == p[2] IN
               /\ em[id].late /\ em[id].fut = 0 /\ cfg.al > 0 /\ cfg.kind \in {"tumbling", "sliding"}
               /\ ws \in Covers(em[id].ts)
               /\ \E i \in 1..Len(dl) : dl[i].ws = ws /\ dl[i].at < em[id].at
               /\ ws + cfg.size + cfg.al > em[id].wmAt
               /\ ~\E i \in 1..Len(dl) : dl[i].ws = ws /\ dl[i].at > em[id].at /\ id \in SeqSet(dl[i].ids)}

QuiesceCode ==
  IF OnTime = {} \/ idled THEN ""       \* after an idle flush the watermark is the wall clock: which later rows are on time is not known to the trace
  ELSE IF Lost # {} THEN "ontime_row_lost"
  ELSE IF LateOwed # {} /\ "ScopeOnTimeOnly" \notin Dev THEN "late_row_in_allowance_not_redelivered"
  ELSE IF \E i \in 1..Len(dl) : dl[i].ws < S0 /\ cfg.kind = "sliding" /\ \A id \in SeqSet(dl[i].ids) : ~em[id].late THEN "interval_before_first_reportable"
  ELSE ""

\* ------------------------------------------------------------ transitions --
Reject(code) == /\ PrintT(<<"REJECT", cfg.tr, l, code>>) /\ dead' = TRUE
UseDev(d)    == /\ PrintT(<<"DEV", cfg.tr, l, d>>) /\ used' = used \cup {d}

Init == /\ l = 1 /\ cfg = [tr |-> -1] /\ em = <<>> /\ maxTs = -1 /\ dl = <<>> /\ pwm = -1000000 /\ dead = FALSE /\ used = {} /\ ldt = -1 /\ idled = FALSE

Next ==
  /\ l <= Len(Trace)
  /\ l' = l + 1
  /\ LET e == Trace[l] IN
     IF e.e = "reset" THEN
        /\ cfg' = e /\ em' = <<>> /\ maxTs' = -1 /\ dl' = <<>> /\ pwm' = -1000000 /\ dead' = FALSE /\ used' = {} /\ ldt' = -1 /\ idled' = FALSE
     ELSE IF dead THEN UNCHANGED <<cfg, em, maxTs, dl, pwm, dead, used, ldt, idled>>
     ELSE IF e.e = "added" THEN
        /\ ldt' = IF e.id >= 1 /\ e.id <= Len(em) THEN em[e.id].t ELSE ldt
        /\ UNCHANGED <<cfg, em, maxTs, dl, pwm, dead, used, idled>>
     ELSE IF e.e = "add" THEN
        LET fut  == IF "fut" \in DOMAIN e THEN e.fut ELSE 0
            m1   == IF fut = 1 THEN maxTs ELSE IF e.ts > maxTs THEN e.ts ELSE maxTs
            late == fut = 0 /\ maxTs >= 0 /\ e.ts < m1 - cfg.moo
        IN /\ em' = Append(em, [ts |-> e.ts, g |-> e.g, v |-> e.v, late |-> late, wmAt |-> m1 - cfg.moo, pwmAt |-> pwm, at |-> l, fut |-> fut, t |-> IF "t" \in DOMAIN e THEN e.t ELSE 0])
           /\ maxTs' = m1
           /\ IF e.id # Len(em) + 1 THEN Reject("harness_ids_not_sequential") ELSE UNCHANGED dead
           /\ UNCHANGED <<cfg, dl, pwm, used, ldt, idled>>
     ELSE IF e.e = "deliver" THEN
        LET code == DeliverCode(e) IN
        IF code = "" THEN
            /\ dl' = dl \o [i \in 1..Len(e.rows) |-> [ws |-> e.rows[i].ws, g |-> e.rows[i].g, ids |-> e.rows[i].ids, at |-> l]]
            /\ idled' = (idled \/ \E i \in 1..Len(e.rows) : maxTs < e.rows[i].we + cfg.moo)
            /\ UNCHANGED <<cfg, em, maxTs, pwm, dead, used, ldt>>
        ELSE IF code = "redelivery_lost_rows" /\ "LateUpdateOvertakes" \in Dev /\ OvertakeShape(e) THEN
            \* known race: the late update of a window was enqueued before its first firing
            /\ UseDev("LateUpdateOvertakes")
            /\ dl' = dl \o [i \in 1..Len(e.rows) |-> [ws |-> e.rows[i].ws, g |-> e.rows[i].g, ids |-> e.rows[i].ids, at |-> l]]
            /\ UNCHANGED <<cfg, em, maxTs, pwm, dead, ldt, idled>>
        ELSE Reject(code) /\ UNCHANGED <<cfg, em, maxTs, dl, pwm, used, ldt, idled>>
     ELSE IF e.e = "quiesce" THEN
        LET code == QuiesceCode IN
        /\ IF code = "" THEN UNCHANGED <<dead, used>> ELSE Reject(code) /\ UNCHANGED used
        /\ UNCHANGED <<cfg, em, maxTs, dl, pwm, ldt, idled>>
     ELSE IF e.e = "pwm" THEN
        /\ pwm' = IF e.wm > pwm THEN e.wm ELSE pwm
        /\ UNCHANGED <<cfg, em, maxTs, dl, dead, used, ldt, idled>>
     ELSE UNCHANGED <<cfg, em, maxTs, dl, pwm, dead, used, ldt, idled>>     \* trig / send lines: schedule information only

Spec == Init /\ [][Next]_vars
Done == l = Len(Trace) + 1
AllConsumed == TLCGet("stats").diameter - 1 = Len(Trace)
=============================================================================
