------------------------- MODULE TraceTumblingImpl -------------------------
(***************************************************************************)
(* Binding of the code-shaped model Tumbling.tla to the real engine at the  *)
(* level of its STATE (DESIGN 2.1, "TraceImpl"): the model's own actions     *)
(* Add / Trig / Send are stepped through a trace recorded while the driver   *)
(* forced a behaviour of the model onto the engine, and after every step the *)
(* state the hooks report from inside the engine (under the window lock) -   *)
(* rows buffered, start of the current slot, fired windows kept open for     *)
(* late rows, rows of the firing in hand, watermark of the completed trigger *)
(* pass - must equal the model's.  Every delivery the sink sees must be the  *)
(* model's next batch.  A mismatch is MODEL DRIFT (the model no longer       *)
(* describes the code, results of exhaustive model checking do not transfer);*)
(* it is not a violation of a property - the contract monitors decide those. *)
(* One TLC run per model configuration (the constants of Tumbling.tla);      *)
(* traces of other configurations are skipped.                               *)
(***************************************************************************)
EXTENDS Tumbling, IOUtils

CONSTANT Dev
Trace == ndJsonDeserialize(IOEnv.TRACE_FILE)
VARIABLES l,      \* next trace line
          od,     \* deliveries of the model (out) already observed at the sink
          dead,   \* this trace is skipped (another configuration / free-running) or has drifted
          tr      \* id of the trace being read
tvars == <<vars, l, od, dead, tr>>

ModelInit ==
  /\ data' = <<>> /\ cur' = -1 /\ maxTs' = -1 /\ wmCur' = NoWm /\ wmSent' = NoWm /\ wmChan' = <<>>
  /\ open' = <<>> /\ tpc' = "idle" /\ twm' = NoWm /\ pend' = <<>>
  /\ out' = <<>> /\ emitted' = <<>> /\ hist' = <<>> /\ lq' = <<>>
Drift(code) == /\ PrintT(<<"DRIFT", tr, l, code>>) /\ dead' = TRUE /\ UNCHANGED <<vars, od, tr>>
Skip == UNCHANGED <<vars, od, dead, tr>>

AddGuard  == Len(emitted) < MaxEv /\ tpc \in {"idle", "fired"} /\ lq = <<>>
TrigGuard == tpc = "idle" /\ wmChan # <<>> /\ cur # -1
SendGuard == tpc = "fired"
IdsOfRows(rows) == UNION {SeqSet(rows[i].ids) : i \in 1..Len(rows)}

TInit == Init /\ l = 1 /\ od = 0 /\ dead = TRUE /\ tr = -1
TNext ==
  /\ l <= Len(Trace) /\ l' = l + 1
  /\ LET e == Trace[l] IN
     IF e.e = "reset" THEN
        /\ ModelInit /\ od' = 0 /\ tr' = e.tr
        /\ dead' = ~("kind" \in DOMAIN e /\ e.kind = "tumbling" /\ e.free = 0 /\ e.size = Size /\ e.moo = MOO /\ e.al = AL /\ e.idle = 0)
     ELSE IF dead THEN Skip
     ELSE IF e.e = "add" THEN
        IF e.fut = 1 THEN Drift("far_future_row_in_a_model_scenario")
        ELSE IF ~AddGuard THEN Drift("add_while_the_model_holds_the_lock")
        ELSE Add(e.ts) /\ UNCHANGED <<od, dead, tr>>
     ELSE IF e.e = "h.add" THEN          \* reported from inside TumblingWindow.Add, under tw.mu, when the row has been placed
        IF e.n # Len(data) THEN Drift("rows_buffered")
        ELSE IF e.cur # cur THEN Drift("current_slot")
        ELSE IF e.no # Len(open) THEN Drift("windows_open_for_late_rows")
        ELSE Skip
     ELSE IF e.e = "latesend" THEN       \* the producer, parked inside Add after it released tw.mu for the late re-delivery, is let go
        IF lq = <<>> THEN Drift("no_late_redelivery_pending_in_the_model") ELSE LateSend /\ UNCHANGED <<od, dead, tr>>
     ELSE IF e.e = "freerun" THEN        \* the forced part is over, the engine runs by itself: nothing to bind from here on (no drift)
        dead' = TRUE /\ UNCHANGED <<vars, od, tr>>
     ELSE IF e.e = "trig" THEN
        IF ~TrigGuard THEN Drift("no_watermark_pending_in_the_model") ELSE Trig /\ UNCHANGED <<od, dead, tr>>
     ELSE IF e.e = "send" THEN
        IF ~SendGuard THEN Drift("no_firing_in_hand_in_the_model") ELSE Send /\ UNCHANGED <<od, dead, tr>>
     ELSE IF e.e = "h.fired" THEN        \* reported by the trigger goroutine right after it released tw.mu for a delivery
        IF tpc # "fired" THEN Drift("engine_fired_where_the_model_does_not")
        ELSE IF e.end # pend.ws + Size THEN Drift("fired_window")
        ELSE IF e.n # Len(pend.rows) THEN Drift("rows_of_the_firing")
        ELSE Skip
     ELSE IF e.e = "pwm" THEN            \* a trigger pass has completed (closeExpiredWindows done)
        IF tpc # "idle" THEN Drift("trigger_pass_completed_where_the_model_is_still_firing")
        ELSE IF e.wm # twm THEN Drift("watermark_of_the_completed_pass")
        ELSE Skip
     ELSE IF e.e = "deliver" THEN
        IF od >= Len(out) THEN Drift("delivery_the_model_does_not_produce")
        ELSE IF \E i \in 1..Len(e.rows) : e.rows[i].ws # out[od + 1].ws THEN Drift("delivered_window")
        ELSE IF IdsOfRows(e.rows) # SeqSet(out[od + 1].ids) THEN Drift("delivered_rows")
        ELSE od' = od + 1 /\ UNCHANGED <<vars, dead, tr>>
     ELSE IF e.e = "quiesce" THEN
        IF od # Len(out) THEN Drift("model_delivery_not_observed")
        ELSE IF ~Quiet THEN Drift("model_not_at_rest")
        ELSE PrintT(<<"BOUND", tr, Len(hist)>>) /\ Skip
     ELSE Skip
Spec0 == TInit /\ [][TNext]_tvars
AllConsumed == TLCGet("stats").diameter - 1 = Len(Trace)
=============================================================================
