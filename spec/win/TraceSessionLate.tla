-------------------------- MODULE TraceSessionLate --------------------------
(***************************************************************************)
(* Contract monitor for the WATERMARK DISCIPLINE of event-time session      *)
(* windows (property C02 applied to sessions; C10's own clauses are in       *)
(* TraceSession): no delivery before the watermark passed the session end,   *)
(* a late event inside its key's already-fired session that is still within  *)
(* the allowance is re-delivered with it (same interval, previous contents   *)
(* plus the event), a late event beyond the allowance / of another key /     *)
(* far in the future changes nothing.  "Closed" is judged by the watermark   *)
(* of the last COMPLETED trigger pass (pwm events), as in TraceWin.          *)
(***************************************************************************)
EXTENDS Integers, Sequences, FiniteSets, TLC, Json, IOUtils

CONSTANT Dev
Trace == ndJsonDeserialize(IOEnv.TRACE_FILE)

VARIABLES l, cfg, em, maxTs, dl, pwm, dead
vars == <<l, cfg, em, maxTs, dl, pwm, dead>>

SeqSet(s) == {s[i] : i \in 1..Len(s)}
Distinct(s) == \A i, j \in 1..Len(s) : i # j => s[i] # s[j]
RECURSIVE SumV(_)
SumV(ids) == IF ids = <<>> THEN 0 ELSE em[Head(ids)].v + SumV(Tail(ids))

\* earlier deliveries of the same session: same key, same start
PrevOf(r) == {i \in 1..Len(dl) : dl[i].g = r.g /\ dl[i].ws = r.ws}
LastOf(r) == dl[CHOOSE i \in PrevOf(r) : \A j \in PrevOf(r) : j <= i]

RowCode(r) ==
  IF r.wsr # 0 \/ r.wer # 0 THEN "boundary_not_on_tick"
  ELSE IF r.wid # 1 THEN "window_id_mismatch"
  ELSE IF Len(r.ids) = 0 THEN "empty_result"
  ELSE IF ~Distinct(r.ids) THEN "row_counted_twice_in_result"
  ELSE IF \E k \in 1..Len(r.ids) : r.ids[k] < 1 \/ r.ids[k] > Len(em) THEN "unknown_row"
  ELSE IF \E id \in SeqSet(r.ids) : em[id].g # r.g THEN "row_in_wrong_key"
  ELSE IF \E id \in SeqSet(r.ids) : em[id].fut = 1 THEN "future_garbage_counted"
  ELSE IF r.c # Len(r.ids) THEN "count_mismatch"
  ELSE IF r.s # SumV(r.ids) THEN "sum_mismatch"
  ELSE IF maxTs < r.we + cfg.moo THEN "fired_before_watermark"
  \* a late event is reported only inside the interval of its session, and only while the session was not closed for it
  ELSE IF \E id \in SeqSet(r.ids) : em[id].late /\ ~(r.ws <= em[id].ts /\ em[id].ts < r.we) THEN "late_row_outside_interval"
  ELSE IF \E id \in SeqSet(r.ids) : em[id].late /\ r.we + cfg.al <= em[id].pwmAt THEN "late_row_absorbed_after_allowance"
  ELSE IF PrevOf(r) = {} THEN ""
  ELSE IF cfg.al = 0 THEN "session_reported_twice"
  ELSE LET last == LastOf(r) IN
       IF r.we # last.we THEN "redelivery_changed_interval"
       ELSE IF ~(SeqSet(last.ids) \subseteq SeqSet(r.ids)) THEN "redelivery_lost_rows"
       ELSE IF \E id \in SeqSet(r.ids) \ SeqSet(last.ids) : ~em[id].late THEN "redelivery_added_ontime_row"
       ELSE ""

\* the recorded race (LateUpdateOvertakes): a late update was sent before the first firing it belongs to, so the first
\* firing arrives afterwards with FEWER rows - only late rows are missing from it
OvertakeShape(r) ==
  /\ cfg.al > 0 /\ PrevOf(r) # {}
  /\ LET last == LastOf(r) IN
       /\ r.we = last.we
       /\ SeqSet(r.ids) \subseteq SeqSet(last.ids)
       /\ \A id \in SeqSet(last.ids) \ SeqSet(r.ids) : em[id].late

RECURSIVE RowsCode(_, _)
RowsCode(rows, k) ==
  IF k > Len(rows) THEN <<"", 0>>
  ELSE LET c == RowCode(rows[k]) IN IF c # "" THEN <<c, k>> ELSE RowsCode(rows, k + 1)

DeliverCode(e) ==
  IF Len(e.rows) = 0 THEN <<"empty_delivery", 0>>
  ELSE IF \E i, j \in 1..Len(e.rows) : i # j /\ e.rows[i].g = e.rows[j].g THEN <<"group_split_in_batch", 0>>
  ELSE RowsCode(e.rows, 1)

\* --------------------------------------------------------------- quiescence
\* a late event that falls in a session of its key that had been delivered before the event was emitted, and whose
\* allowance had not run out for it (watermark at arrival < end + AL), must be re-delivered with it
LateOwed == {id \in 1..Len(em) :
               /\ em[id].late /\ em[id].fut = 0 /\ cfg.al > 0
               /\ \E i \in 1..Len(dl) :
                     /\ dl[i].g = em[id].g /\ dl[i].ws <= em[id].ts /\ em[id].ts < dl[i].we /\ dl[i].at < em[id].at
                     /\ dl[i].we + cfg.al > em[id].wmAt
                     /\ ~\E j \in 1..Len(dl) : dl[j].g = dl[i].g /\ dl[j].ws = dl[i].ws /\ dl[j].at > em[id].at /\ id \in SeqSet(dl[j].ids)}
QuiesceCode == IF LateOwed # {} THEN "late_row_in_allowance_not_redelivered" ELSE ""

Reject(code) == /\ PrintT(<<"REJECT", cfg.tr, l, code>>) /\ dead' = TRUE
Add(e) == dl \o [i \in 1..Len(e.rows) |-> [ws |-> e.rows[i].ws, we |-> e.rows[i].we, g |-> e.rows[i].g, ids |-> e.rows[i].ids, at |-> l]]

Init == /\ l = 1 /\ cfg = [tr |-> -1] /\ em = <<>> /\ maxTs = -1 /\ dl = <<>> /\ pwm = -1000000 /\ dead = FALSE

Next ==
  /\ l <= Len(Trace)
  /\ l' = l + 1
  /\ LET e == Trace[l] IN
     IF e.e = "reset" THEN
        /\ cfg' = e /\ em' = <<>> /\ maxTs' = -1 /\ dl' = <<>> /\ pwm' = -1000000 /\ dead' = FALSE
     ELSE IF dead THEN UNCHANGED <<cfg, em, maxTs, dl, pwm, dead>>
     ELSE IF e.e = "add" THEN
        LET fut  == IF "fut" \in DOMAIN e THEN e.fut ELSE 0
            m1   == IF fut = 1 THEN maxTs ELSE IF e.ts > maxTs THEN e.ts ELSE maxTs
            late == fut = 0 /\ maxTs >= 0 /\ e.ts < m1 - cfg.moo
        IN /\ em' = Append(em, [ts |-> e.ts, g |-> e.g, v |-> e.v, late |-> late, wmAt |-> m1 - cfg.moo, pwmAt |-> pwm, at |-> l, fut |-> fut])
           /\ maxTs' = m1
           /\ IF e.id # Len(em) + 1 THEN Reject("harness_ids_not_sequential") ELSE UNCHANGED dead
           /\ UNCHANGED <<cfg, dl, pwm>>
     ELSE IF e.e = "deliver" THEN
        LET c == DeliverCode(e) IN
        IF c[1] = "" THEN dl' = Add(e) /\ UNCHANGED <<cfg, em, maxTs, pwm, dead>>
        ELSE IF c[1] = "redelivery_lost_rows" /\ "LateUpdateOvertakes" \in Dev /\ \A k \in 1..Len(e.rows) : (RowCode(e.rows[k]) = "" \/ (RowCode(e.rows[k]) = "redelivery_lost_rows" /\ OvertakeShape(e.rows[k]))) THEN
            /\ PrintT(<<"DEV", cfg.tr, l, "LateUpdateOvertakes">>)
            /\ dl' = Add(e) /\ UNCHANGED <<cfg, em, maxTs, pwm, dead>>
        ELSE Reject(c[1]) /\ UNCHANGED <<cfg, em, maxTs, dl, pwm>>
     ELSE IF e.e = "quiesce" THEN
        LET code == QuiesceCode IN
        /\ IF code = "" THEN UNCHANGED dead ELSE Reject(code)
        /\ UNCHANGED <<cfg, em, maxTs, dl, pwm>>
     ELSE IF e.e = "pwm" THEN
        /\ pwm' = IF e.wm > pwm THEN e.wm ELSE pwm
        /\ UNCHANGED <<cfg, em, maxTs, dl, dead>>
     ELSE UNCHANGED <<cfg, em, maxTs, dl, pwm, dead>>

Spec == Init /\ [][Next]_vars
AllConsumed == TLCGet("stats").diameter - 1 = Len(Trace)
=============================================================================
