---------------------------- MODULE ProcSession ----------------------------
(***************************************************************************)
(* Processing-time SESSION window (the default time characteristic),        *)
(* code-shaped after window/session_window.go:                              *)
(*   Add(k) : ts := time.Now(); no live session of k: start one at ts; else *)
(*            extend it (lastActive := ts, end := ts + timeout) - without   *)
(*            asking whether the session had already run out                *)
(*   Adv    : the clock advances; a ticker with period timeout/2 puts a     *)
(*            tick into a one-slot channel (a tick that finds it taken is   *)
(*            dropped)                                                      *)
(*   Check  : checkExpiredSessions(): every live session with               *)
(*            now >= lastActive + timeout is reported and removed           *)
(* Because Add does not test the gap, a row that arrives after its key's    *)
(* session ran out but before the next Check joins that session: with a     *)
(* prompt checker the gap inside a session stays below 1.5 x timeout.        *)
(* Contract: every row in exactly one session of its key; a session is      *)
(* reported only after lastActive + timeout; window_start = first arrival,  *)
(* window_end = last arrival + timeout; rows less than the timeout apart    *)
(* share a session; while no tick was dropped no session outlives its end   *)
(* by more than timeout/2.                                                  *)
(***************************************************************************)
EXTENDS Integers, Sequences, FiniteSets, TLC, Json

CONSTANTS Timeout, Keys, MaxNow, MaxEv, Emit       \* Timeout even (the ticker period is Timeout / 2)

VARIABLES now, sess, init, due, pend, dropped, out, nadd, arr, hist
vars == <<now, sess, init, due, pend, dropped, out, nadd, arr, hist>>

None == [live |-> FALSE, start |-> 0, last |-> 0, ids |-> <<>>]
SeqSet(s) == {s[i] : i \in 1..Len(s)}

Init == /\ now = 0 /\ sess = [k \in Keys |-> None] /\ init = FALSE /\ due = -1 /\ pend = 0 /\ dropped = 0
        /\ out = <<>> /\ nadd = 0 /\ arr = <<>> /\ hist = <<>>

Add(k) ==
  /\ nadd < MaxEv
  /\ nadd' = nadd + 1
  /\ arr' = Append(arr, [k |-> k, ts |-> now])
  /\ sess' = [sess EXCEPT ![k] = IF sess[k].live THEN [@ EXCEPT !.last = now, !.ids = Append(@, nadd + 1)]
                                  ELSE [live |-> TRUE, start |-> now, last |-> now, ids |-> <<nadd + 1>>]]
  /\ IF init THEN UNCHANGED <<init, due>> ELSE init' = TRUE /\ due' = now + Timeout \div 2
  /\ hist' = Append(hist, [a |-> "add", k |-> k])
  /\ UNCHANGED <<now, pend, dropped, out>>

Adv ==
  /\ now < MaxNow
  /\ now' = now + 1
  /\ IF init /\ now + 1 >= due
       THEN /\ due' = due + Timeout \div 2
            /\ IF pend = 1 THEN dropped' = dropped + 1 /\ UNCHANGED pend ELSE pend' = 1 /\ UNCHANGED dropped
       ELSE UNCHANGED <<due, pend, dropped>>
  /\ hist' = Append(hist, [a |-> "adv", k |-> ""])
  /\ UNCHANGED <<sess, init, out, nadd, arr>>

Expired(k) == sess[k].live /\ now >= sess[k].last + Timeout
Check ==
  /\ pend = 1
  /\ pend' = 0
  /\ LET ex == {k \in Keys : Expired(k)}
         pick(S) == CHOOSE f \in [1..Cardinality(S) -> S] : \A i, j \in 1..Cardinality(S) : i # j => f[i] # f[j]
         ord == pick(ex)
     IN /\ out' = out \o [i \in 1..Cardinality(ex) |-> [k |-> ord[i], ws |-> sess[ord[i]].start, we |-> sess[ord[i]].last + Timeout, ids |-> sess[ord[i]].ids, at |-> now]]
        /\ sess' = [k \in Keys |-> IF k \in ex THEN None ELSE sess[k]]
  /\ hist' = Append(hist, [a |-> "check", k |-> ""])
  /\ UNCHANGED <<now, init, due, dropped, nadd, arr>>

Next == (\E k \in Keys : Add(k)) \/ Adv \/ Check
Spec == Init /\ [][Next]_vars

\* ----------------------------------------------------------------- contract
InOut(id) == {i \in 1..Len(out) : id \in SeqSet(out[i].ids)}
InLive(id) == \E k \in Keys : sess[k].live /\ id \in SeqSet(sess[k].ids)
ExactlyOnce == \A id \in 1..nadd : Cardinality(InOut(id)) + (IF InLive(id) THEN 1 ELSE 0) = 1
OwnKey == \A i \in 1..Len(out) : \A id \in SeqSet(out[i].ids) : arr[id].k = out[i].k
Bounds == \A i \in 1..Len(out) : LET ids == out[i].ids IN
             /\ out[i].ws = arr[ids[1]].ts /\ out[i].we = arr[ids[Len(ids)]].ts + Timeout
             /\ out[i].at >= out[i].we                                  \* not before the session ran out
\* rows of a key less than the timeout apart (with nothing of that key in between) share a session
NoSplitBelowTimeout ==
  \A a, b \in 1..nadd : (a < b /\ arr[a].k = arr[b].k /\ arr[b].ts - arr[a].ts < Timeout
                          /\ ~\E c \in (a + 1)..(b - 1) : arr[c].k = arr[a].k)
                         => ~\E i \in InOut(a) : b \notin SeqSet(out[i].ids) /\ (InOut(b) # {} \/ InLive(b))
\* with a prompt checker (no tick dropped, none outstanding) no session outlives its end by more than half a timeout
Timely == (pend = 0 /\ dropped = 0) => \A k \in Keys : sess[k].live => now < sess[k].last + Timeout + Timeout \div 2
\* (the gap inside a session then stays below 1.5 x timeout: decided on traces, TraceProcSession merged_across_a_long_gap)

Complete == nadd = MaxEv /\ now = MaxNow /\ pend = 0
EmitScenario == (Emit /\ Complete) => PrintT(<<"SCEN", ToJson(hist)>>)
View == <<now, sess, init, due, pend, dropped, out, nadd, arr>>
=============================================================================
