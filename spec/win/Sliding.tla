----------------------------- MODULE Sliding -----------------------------
(***************************************************************************)
(* Event-time sliding window of rulego/streamsql, code-shaped (one action  *)
(* per critical section of window/sliding_window.go + window/watermark.go) *)
(* composed with the C08/C02 contract monitor (Abs) as state invariants.   *)
(*                                                                         *)
(* Time is in abstract ticks.  Goroutines:                                 *)
(*   ingest  : Add(ts)            (SlidingWindow.Add, under sw.mu)         *)
(*   trigger : Trig / Send        (startEventTime loop;                    *)
(*             checkAndTriggerWindows releases tw.mu around each delivery) *)
(* The stream-side consumer (aggregation per group) is modelled in         *)
(* sem/AggBatch + sem/GroupBy; here a delivery is the batch of row ids.    *)
(***************************************************************************)
EXTENDS Integers, Sequences, FiniteSets, TLC, Json

CONSTANTS Size,      \* window size
          Slide,     \* slide step
          MOO,       \* MAXOUTOFORDERNESS
          AL,        \* ALLOWEDLATENESS
          MaxTs,     \* timestamps range over 0..MaxTs
          MaxEv,     \* number of Add calls explored
          ChanCap,   \* watermark channel capacity (100 in the code)
          Reanchor,  \* TRUE: Add moves currentSlot back for an on-time row that precedes it
          LateAll,   \* TRUE (the code since the repair): a late row updates EVERY open fired window containing it, also when it
                     \* lies in the current window as well; FALSE: the old handleLateData (one window, none when in the current one)
          RegisterEarly, \* TRUE (the code since repair b8703e6): a fired window is registered for late data BEFORE the lock is
                     \* released for its delivery (as the tumbling window does); FALSE: only after the delivery, when the lock has
                     \* been taken again - a late row arriving in between finds no open window and is dropped (LateRedelivered fails)
          LateAtomic, \* a late row's re-deliveries are sent one by one with the window lock RELEASED (the trigger goroutine may
                     \* run in between and evict the late row from the buffer). TRUE (the code since the repair): the snapshots of
                     \* ALL open windows containing the row are updated under the lock before the first re-delivery; FALSE (old code):
                     \* each window's update is computed when its turn comes, from the buffer as it is THEN (LateRedelivered fails)
          Emit       \* TRUE: print every complete behaviour as a JSON scenario

VARIABLES data, cur, maxTs, wmCur, wmSent, wmChan, open, tpc, twm, pend, out, emitted, hist,
          lq,      \* Add is inside handleLateData: re-deliveries computed and not yet sent (the lock is released while one is sent)
          ltodo    \* (old code) starts of the open windows whose update is still to be computed

vars == <<data, cur, maxTs, wmCur, wmSent, wmChan, open, tpc, twm, pend, out, emitted, hist, lq, ltodo>>

NoWm == -1000          \* "zero time": below every reachable watermark
Align(t) == (t \div Slide) * Slide
InWin(t, ws) == ws <= t /\ t < ws + Size
Max(a, b) == IF a > b THEN a ELSE b
Ids(rows) == [i \in 1..Len(rows) |-> rows[i].id]
SeqSet(s) == {s[i] : i \in 1..Len(s)}

Init ==
  /\ data = <<>> /\ cur = -1 /\ maxTs = -1 /\ wmCur = NoWm /\ wmSent = NoWm /\ wmChan = <<>>
  /\ open = <<>>           \* sequence of [ws, snap] (triggeredWindows, with snapshot row seq)
  /\ tpc = "idle" /\ twm = NoWm /\ pend = <<>>
  /\ out = <<>> /\ emitted = <<>> /\ hist = <<>> /\ lq = <<>> /\ ltodo = <<>>

(* ---------------- Watermark.UpdateEventTime + sendWatermarkLocked -------- *)
NewMax(ts) == IF maxTs = -1 \/ ts > maxTs THEN ts ELSE maxTs
NewWm(ts)  == IF (maxTs = -1 \/ ts > maxTs) /\ ts - MOO > wmCur THEN ts - MOO ELSE wmCur

(* ---------------- TumblingWindow.Add -------------------------------------- *)
\* triggerLateUpdateLocked for each listed open window: snapshot + rows still buffered, de-duplicated
RECURSIVE LateUpd(_, _, _, _, _)
LateUpd(op, o, d1, idxs, mx) ==
  IF idxs = <<>> THEN [op |-> op, o |-> o]
  ELSE LET i    == Head(idxs)
           ws   == op[i].ws
           have == {op[i].snap[k].id : k \in 1..Len(op[i].snap)}
           mine == SelectSeq(d1, LAMBDA r : InWin(r.ts, ws) /\ r.id \notin have)
           rows == op[i].snap \o mine
       IN LateUpd([op EXCEPT ![i].snap = rows], Append(o, [ws |-> ws, ids |-> Ids(rows), kind |-> "late", maxAt |-> mx]), d1, Tail(idxs), mx)
\* old code: the update of the next listed window that is still open, computed from the buffer d as it is now
RECURSIVE NextLate(_, _, _, _)
NextLate(op, d, todo, mx) ==
  IF todo = <<>> THEN [op |-> op, q |-> <<>>, todo |-> <<>>]
  ELSE LET I == {i \in 1..Len(op) : op[i].ws = Head(todo)} IN
       IF I = {} THEN NextLate(op, d, Tail(todo), mx)
       ELSE LET r == LateUpd(op, <<>>, d, <<CHOOSE i \in I : TRUE>>, mx) IN [op |-> r.op, q |-> r.o, todo |-> Tail(todo)]
OpenIdx(ts) == {i \in 1..Len(open) : InWin(ts, open[i].ws)}
\* the contract's view (C02): windows containing ts whose first firing has been delivered and whose allowance the watermark has not passed
DeliveredOpen(ts, wm) == {out[j].ws : j \in {k \in 1..Len(out) : out[k].kind = "first" /\ InWin(ts, out[k].ws) /\ out[k].ws + Size + AL > wm}}

Add(ts) ==
  /\ Len(emitted) < MaxEv
  /\ tpc \in {"idle", "fired", "sent"}     \* sw.mu is free in all three
  /\ lq = <<>>                             \* one producer (the stream's processor goroutine): the previous Add has returned
  /\ LET id    == Len(emitted) + 1
         row   == [id |-> id, ts |-> ts]
         wm1   == NewWm(ts)
         send  == wm1 > wmSent /\ Len(wmChan) < ChanCap
         cur0  == IF cur = -1 THEN Align(ts) ELSE cur
         late  == ts < wm1
         d1    == Append(data, row)
         inCur == InWin(ts, cur0)
         oi    == OpenIdx(ts)
     IN
     /\ maxTs' = NewMax(ts) /\ wmCur' = wm1
     /\ wmSent' = IF send THEN wm1 ELSE wmSent
     /\ wmChan' = IF send THEN Append(wmChan, wm1) ELSE wmChan
     /\ emitted' = Append(emitted, [id |-> id, ts |-> ts, late |-> late, owed |-> IF late /\ AL > 0 THEN {open[i].ws : i \in oi} \cup DeliveredOpen(ts, wm1) ELSE {}])
     /\ hist' = Append(hist, [a |-> "add", id |-> id, ts |-> ts])
     /\ IF ~late \/ (inCur /\ ~LateAll)
          THEN /\ data' = d1 /\ open' = open /\ out' = out /\ lq' = <<>> /\ ltodo' = <<>>
               /\ cur' = IF Reanchor /\ ~late /\ ts < cur0 /\ InWin(ts, Align(ts)) THEN Align(ts) ELSE cur0
          ELSE IF LateAll
                 THEN \* handleLateData (repaired): every open window containing ts, in window order; the row stays buffered when it
                      \* lies in the current window or in an open one, otherwise dropLastRow
                      \* the re-deliveries are queued (lq): each is sent with the lock released (LateSend)
                      LET idxs == SelectSeq([k \in 1..Len(open) |-> k], LAMBDA k : AL > 0 /\ k \in oi)
                          r    == IF LateAtomic THEN LET u == LateUpd(open, <<>>, d1, idxs, NewMax(ts)) IN [op |-> u.op, q |-> u.o, todo |-> <<>>]
                                  ELSE NextLate(open, d1, [k \in 1..Len(idxs) |-> open[idxs[k]].ws], NewMax(ts))
                      IN /\ data' = IF inCur \/ idxs # <<>> THEN d1 ELSE data
                         /\ open' = r.op /\ out' = out /\ lq' = r.q /\ ltodo' = r.todo /\ cur' = cur0
          ELSE IF AL > 0 /\ oi # {}
                 THEN \* handleLateData (old): ONE open window containing ts (map order); snapshot + rows still buffered, de-duplicated
                      \E i \in oi :
                      LET ws   == open[i].ws
                          have == {open[i].snap[k].id : k \in 1..Len(open[i].snap)}
                          mine == SelectSeq(d1, LAMBDA r : InWin(r.ts, ws) /\ r.id \notin have)
                          rows == open[i].snap \o mine
                      IN /\ data' = d1
                         /\ open' = [open EXCEPT ![i].snap = rows]
                         /\ out' = Append(out, [ws |-> ws, ids |-> Ids(rows), kind |-> "late", maxAt |-> NewMax(ts)])
                         /\ cur' = cur0 /\ lq' = <<>> /\ ltodo' = <<>>
                 ELSE /\ data' = data /\ open' = open /\ out' = out /\ cur' = cur0 /\ lq' = <<>> /\ ltodo' = <<>>   \* dropLastRow
  /\ UNCHANGED <<tpc, twm, pend>>

\* triggerLateUpdateLocked, second half: callback + send with sw.mu released, then the lock is taken again (for the next window's
\* update, or for Add to return). The trigger goroutine may have run since the update was computed.
LateSend ==
  /\ lq # <<>>
  /\ out' = Append(out, Head(lq))
  /\ IF Len(lq) > 1 THEN /\ lq' = Tail(lq) /\ UNCHANGED <<open, ltodo>>
     ELSE LET n == NextLate(open, data, ltodo, Head(lq).maxAt) IN /\ open' = n.op /\ lq' = n.q /\ ltodo' = n.todo
  /\ hist' = Append(hist, [a |-> "latesend"])
  /\ UNCHANGED <<data, cur, maxTs, wmCur, wmSent, wmChan, tpc, twm, pend, emitted>>

(* ---------------- checkAndTriggerWindows ---------------------------------- *)
\* run the loop from slot c with buffer d: the cursor advances BEFORE the window is examined;
\* a window with data fires and evicts rows older than the next window's start
RECURSIVE Loop(_, _, _)
Loop(d, c, wm) ==
  IF wm < c + Size THEN [k |-> "done", d |-> d, c |-> c, rows |-> <<>>]
  ELSE LET inw == SelectSeq(d, LAMBDA r : InWin(r.ts, c)) IN
       IF Len(inw) > 0
         THEN [k |-> "fired", d |-> SelectSeq(d, LAMBDA r : r.ts >= c + Slide), c |-> c + Slide, rows |-> inw, ws |-> c]
         ELSE Loop(d, c + Slide, wm)

\* closeExpiredWindows(wm): forget windows with end + AL <= wm (rows are not purged here)
CloseExpired(d, op, wm) == [d |-> d, op |-> SelectSeq(op, LAMBDA o : o.ws + Size + AL > wm)]

Run(wm, step, op) ==
  LET r == Loop(data, cur, wm) IN
  IF r.k = "fired"
    THEN /\ data' = r.d /\ cur' = r.c
         /\ open' = IF RegisterEarly /\ AL > 0 THEN Append(op, [ws |-> r.ws, snap |-> r.rows]) ELSE op
         /\ pend' = [ws |-> r.ws, rows |-> r.rows]
         /\ tpc' = "fired" /\ twm' = wm
         /\ hist' = Append(hist, [a |-> step])
    ELSE LET ce == CloseExpired(r.d, op, wm) IN
         /\ data' = ce.d /\ open' = ce.op /\ cur' = r.c
         /\ pend' = <<>> /\ tpc' = "idle" /\ twm' = wm
         /\ hist' = Append(hist, [a |-> step])

\* trigger goroutine receives the next watermark and runs until first delivery / end
Trig ==
  /\ tpc = "idle" /\ wmChan # <<>> /\ cur # -1
  /\ wmChan' = Tail(wmChan)
  /\ Run(Head(wmChan), "trig", open)
  /\ UNCHANGED <<maxTs, wmCur, wmSent, out, emitted, lq, ltodo>>

\* callback + sendResult outside the lock: the delivery becomes observable, the lock is still free
Send ==
  /\ tpc = "fired"
  /\ out' = Append(out, [ws |-> pend.ws, ids |-> Ids(pend.rows), kind |-> "first", maxAt |-> maxTs])
  /\ tpc' = "sent"
  /\ hist' = Append(hist, [a |-> "send"])
  /\ UNCHANGED <<data, cur, maxTs, wmCur, wmSent, wmChan, open, twm, pend, emitted, lq, ltodo>>

\* the trigger goroutine takes the lock again (the old code registered the window as open for late data only now) and continues the loop
Relock ==
  /\ tpc = "sent"
  /\ Run(twm, "relock", IF ~RegisterEarly /\ AL > 0 THEN Append(open, [ws |-> pend.ws, snap |-> pend.rows]) ELSE open)
  /\ UNCHANGED <<maxTs, wmCur, wmSent, wmChan, out, emitted, lq, ltodo>>

\* Watermark.update (ticker, every WatermarkInterval): re-send a watermark that did not fit into the full channel.
\* It takes only the watermark's own lock, so it may interleave anywhere.
Tick ==
  /\ wmCur > wmSent /\ Len(wmChan) < ChanCap
  /\ wmChan' = Append(wmChan, wmCur) /\ wmSent' = wmCur
  /\ hist' = Append(hist, [a |-> "tick"])
  /\ UNCHANGED <<data, cur, maxTs, wmCur, open, tpc, twm, pend, out, emitted, lq, ltodo>>

Quiet == tpc = "idle" /\ wmChan = <<>> /\ wmSent = wmCur /\ lq = <<>>
Complete == Len(emitted) = MaxEv /\ Quiet

Next == (\E ts \in 0..MaxTs : Add(ts)) \/ LateSend \/ Trig \/ Send \/ Relock \/ Tick

Spec == Init /\ [][Next]_vars

(* ======================= contract monitor (Abs) ========================= *)
Ts(id) == emitted[id].ts
OnTime == {id \in 1..Len(emitted) : ~emitted[id].late}
MinOnTime == CHOOSE t \in {Ts(id) : id \in OnTime} : \A id \in OnTime : t <= Ts(id)
S0 == Align(MinOnTime)
Covers(t) == {s \in (t - Size + 1)..t : s >= 0 /\ s % Slide = 0}
\* C08: slide-aligned interval, membership, no duplicates, first firings once and in increasing order;
\* C02: no early firing, late updates are supersets of the previous contents
BatchOK(i) ==
  LET b == out[i] IN
  /\ b.ws % Slide = 0 /\ Len(b.ids) > 0
  /\ \A k \in 1..Len(b.ids) : InWin(Ts(b.ids[k]), b.ws)
  /\ \A k, l \in 1..Len(b.ids) : k # l => b.ids[k] # b.ids[l]
  /\ b.maxAt >= b.ws + Size + MOO
  /\ (b.kind = "first" => \A j \in 1..(i-1) : out[j].kind = "first" => out[j].ws < b.ws)
  /\ \A j \in 1..(i-1) : out[j].ws = b.ws =>
        /\ AL > 0
        /\ SeqSet(out[j].ids) \subseteq SeqSet(b.ids)
DeliveriesOK == \A i \in 1..Len(out) : BatchOK(i)

\* The same with the known deviation "LateUpdateOvertakes" admitted (KNOWN_FINDINGS.json; since the window is registered before the
\* lock is released - repair b8703e6 - the sliding window shares it with the tumbling window): the first firing of a window may reach
\* the output AFTER a late update of the same window that Add produced while the trigger goroutine was between releasing the lock and
\* sending (its rows are then a subset, the missing ones all late).
BatchOKDev(i) ==
  LET b == out[i] IN
  /\ b.ws % Slide = 0 /\ Len(b.ids) > 0
  /\ \A k \in 1..Len(b.ids) : InWin(Ts(b.ids[k]), b.ws)
  /\ \A k, l \in 1..Len(b.ids) : k # l => b.ids[k] # b.ids[l]
  /\ b.maxAt >= b.ws + Size + MOO
  /\ (b.kind = "first" => \A j \in 1..(i-1) : out[j].kind = "first" => out[j].ws < b.ws)
  /\ \A j \in 1..(i-1) : out[j].ws = b.ws =>
        /\ AL > 0
        /\ \/ SeqSet(out[j].ids) \subseteq SeqSet(b.ids)
           \/ /\ b.kind = "first" /\ out[j].kind = "late"
              /\ SeqSet(b.ids) \subseteq SeqSet(out[j].ids)
              /\ \A id \in SeqSet(out[j].ids) \ SeqSet(b.ids) : emitted[id].late
DeliveriesOKDev == \A i \in 1..Len(out) : BatchOKDev(i)
OneFirstFiring == \A i, j \in 1..Len(out) : (i # j /\ out[i].kind = "first" /\ out[j].kind = "first") => out[i].ws # out[j].ws

\* at quiescence every on-time row is in EVERY reportable interval covering it that the watermark passed
Delivered(id, ws) == \E i \in 1..Len(out) : id \in SeqSet(out[i].ids) /\ out[i].ws = ws
NoOnTimeLoss ==
  Quiet => \A id \in OnTime : \A ws \in Covers(Ts(id)) :
              (ws >= S0 /\ ws + Size <= wmCur) => Delivered(id, ws)
NotBeforeS0 == \A i \in 1..Len(out) : (OnTime # {} /\ out[i].kind = "first") => out[i].ws >= S0 \/ \E k \in 1..Len(out[i].ids) : emitted[out[i].ids[k]].late

\* C02(c): a late row is re-delivered with EVERY fired window that contained it and was still open when it arrived
\* (once its Add has returned: the re-deliveries are sent one by one from inside Add)
LateRedelivered == lq = <<>> => \A id \in 1..Len(emitted) : \A ws \in emitted[id].owed :
                      \E i \in 1..Len(out) : out[i].kind = "late" /\ out[i].ws = ws /\ id \in SeqSet(out[i].ids)

DeadBandSilent == TRUE

(* ---------------- Watermark invariants (C02) ----------------------------- *)
WmOK == /\ wmSent <= wmCur
        /\ (maxTs # -1 => wmCur = maxTs - MOO)
        /\ \A i \in 1..Len(wmChan) : i > 1 => wmChan[i-1] < wmChan[i]
        /\ (wmChan # <<>> => wmChan[Len(wmChan)] = wmSent)
WmMonotone == [][wmCur' >= wmCur /\ wmSent' >= wmSent /\ maxTs' >= maxTs]_vars

(* ---------------- implementation-internal invariants --------------------- *)
\* buffered rows never lie in a window that has already been closed for good
ImplOK == /\ (cur # -1 => cur % Slide = 0)
          /\ \A i \in 1..Len(open) : open[i].ws < cur

(* ---------------- scenario output ----------------------------------------- *)
EmitScenario == (Emit /\ Complete) => PrintT(<<"SCEN", ToJson(hist)>>)

View == <<data, cur, maxTs, wmCur, wmSent, wmChan, open, tpc, twm, pend, out, emitted, lq, ltodo>>
=============================================================================
