-------------------------- MODULE TraceProcSliding --------------------------
(***************************************************************************)
(* Contract monitor for PROCESSING-TIME sliding windows on traces of the    *)
(* real engine (processing-time counterpart of C08; model: ProcSliding).    *)
(* A row's timestamp is the wall clock read inside Add; the trace brackets   *)
(* it: [lo, hi] in microseconds and [klo, khi] as indices of the slide grid  *)
(* (interval j = [j*slide, j*slide + size), n = size / slide).               *)
(*   certainly inside interval j :  khi - n + 1 <= j <= klo                  *)
(*   possibly  inside interval j :  klo - n + 1 <= j <= khi                  *)
(* reset: size, slide (us), n, timing (1: also judge how late results come)  *)
(***************************************************************************)
EXTENDS Integers, Sequences, FiniteSets, TLC, Json, IOUtils

CONSTANT Dev
Trace == ndJsonDeserialize(IOEnv.TRACE_FILE)

VARIABLES l, cfg, em, dl, dead
vars == <<l, cfg, em, dl, dead>>

SeqSet(s) == {s[i] : i \in 1..Len(s)}
Distinct(s) == \A i, j \in 1..Len(s) : i # j => s[i] # s[j]
RECURSIVE SumV(_)
SumV(ids) == IF ids = <<>> THEN 0 ELSE em[Head(ids)].v + SumV(Tail(ids))
Possibly(id, j) == em[id].klo - cfg.n + 1 <= j /\ j <= em[id].khi
Certainly(id, j) == em[id].khi - cfg.n + 1 <= j /\ j <= em[id].klo
\* lateness bound of a result: the trigger for an interval comes at most one slide after its end; three more slides and 300 ms of
\* scheduling slack are granted
LateBound == 4 * cfg.slide + 300000

RowCode(r) ==
  IF r.spanerr # 0 THEN "interval_length"
  ELSE IF r.gridrem # 0 THEN "interval_not_aligned_to_the_slide"
  ELSE IF r.wid # 1 THEN "window_id_mismatch"
  ELSE IF Len(r.ids) = 0 THEN "empty_result"
  ELSE IF ~Distinct(r.ids) THEN "row_counted_twice_in_result"
  ELSE IF \E k \in 1..Len(r.ids) : r.ids[k] < 1 \/ r.ids[k] > Len(em) THEN "unknown_row"
  ELSE IF \E k \in 1..Len(r.ids) : em[r.ids[k]].g # r.g THEN "row_in_wrong_group"
  ELSE IF \E k \in 1..Len(r.ids) : ~Possibly(r.ids[k], r.wsx) THEN "row_outside_interval"
  ELSE IF r.c # Len(r.ids) THEN "count_mismatch"
  ELSE IF r.s # SumV(r.ids) THEN "sum_mismatch"
  ELSE IF \E i \in 1..Len(dl) : dl[i].wsx = r.wsx /\ dl[i].g = r.g THEN "interval_reported_twice"
  ELSE IF cfg.timing = 1 /\ r.late > LateBound THEN "result_long_after_its_interval_ended"
  ELSE ""

RECURSIVE RowsCode(_, _)
RowsCode(rows, k) == IF k > Len(rows) THEN "" ELSE LET c1 == RowCode(rows[k]) IN IF c1 # "" THEN c1 ELSE RowsCode(rows, k + 1)

DeliverCode(e) ==
  IF Len(e.rows) = 0 THEN "empty_delivery"
  ELSE IF \E i, j \in 1..Len(e.rows) : i # j /\ e.rows[i].g = e.rows[j].g THEN "group_split_in_batch"
  ELSE IF \E i \in 1..Len(e.rows) : e.rows[i].wsx # e.rows[1].wsx THEN "mixed_intervals_in_batch"
  ELSE IF \E i \in 1..Len(dl) : dl[i].wsx > e.rows[1].wsx THEN "intervals_out_of_order"
  ELSE RowsCode(e.rows, 1)

\* first slot: the slide-aligned interval holding the first row's arrival; every interval from there on that certainly holds a row
\* must have reported it by quiescence (the driver waits size + 3 slides after the last row)
FirstIdx == IF em = <<>> THEN 0 ELSE em[1].khi
InResult(id, j) == \E i \in 1..Len(dl) : dl[i].wsx = j /\ dl[i].g = em[id].g /\ id \in SeqSet(dl[i].ids)
Owed == {<<id, j>> \in (1..Len(em)) \X ((FirstIdx - 2)..(IF em = <<>> THEN 0 ELSE em[Len(em)].khi)) :
            j >= FirstIdx /\ Certainly(id, j) /\ ~InResult(id, j)}
QuiesceCode == IF Owed # {} THEN "row_missing_from_an_interval_that_contains_it" ELSE ""

Reject(code) == /\ PrintT(<<"REJECT", cfg.tr, l, code>>) /\ dead' = TRUE
Init == /\ l = 1 /\ cfg = [tr |-> -1] /\ em = <<>> /\ dl = <<>> /\ dead = FALSE

Next ==
  /\ l <= Len(Trace)
  /\ l' = l + 1
  /\ LET e == Trace[l] IN
     IF e.e = "reset" THEN /\ cfg' = e /\ em' = <<>> /\ dl' = <<>> /\ dead' = FALSE
     ELSE IF dead THEN UNCHANGED <<cfg, em, dl, dead>>
     ELSE IF e.e = "add" THEN
        /\ em' = Append(em, [g |-> e.g, v |-> e.v, klo |-> e.klo, khi |-> e.khi])
        /\ IF e.id # Len(em) + 1 THEN Reject("harness_ids_not_sequential")
           ELSE IF e.khi < e.klo THEN Reject("harness_bracket") ELSE UNCHANGED dead
        /\ UNCHANGED <<cfg, dl>>
     ELSE IF e.e = "deliver" THEN
        LET code == DeliverCode(e) IN
        IF code = "" THEN
            /\ dl' = dl \o [i \in 1..Len(e.rows) |-> [wsx |-> e.rows[i].wsx, g |-> e.rows[i].g, ids |-> e.rows[i].ids]]
            /\ UNCHANGED <<cfg, em, dead>>
        ELSE Reject(code) /\ UNCHANGED <<cfg, em, dl>>
     ELSE IF e.e = "quiesce" THEN
        LET code == QuiesceCode IN
        /\ IF code = "" THEN UNCHANGED dead ELSE Reject(code)
        /\ UNCHANGED <<cfg, em, dl>>
     ELSE IF e.e = "void" THEN dead' = TRUE /\ UNCHANGED <<cfg, em, dl>>
     ELSE UNCHANGED <<cfg, em, dl, dead>>

Spec == Init /\ [][Next]_vars
AllConsumed == TLCGet("stats").diameter - 1 = Len(Trace)
=============================================================================
