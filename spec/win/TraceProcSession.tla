-------------------------- MODULE TraceProcSession --------------------------
(***************************************************************************)
(* Contract monitor for PROCESSING-TIME session windows on traces of the     *)
(* real engine (model: ProcSession).  A row's timestamp is the wall clock    *)
(* read inside Add; the trace brackets it by [lo, hi] (microseconds since    *)
(* the scenario start).  reset: size = timeout (us), timing (0/1).           *)
(***************************************************************************)
EXTENDS Integers, Sequences, FiniteSets, TLC, Json, IOUtils

CONSTANT Dev
Trace == ndJsonDeserialize(IOEnv.TRACE_FILE)

VARIABLES l, cfg, em, dl, dead
vars == <<l, cfg, em, dl, dead>>

SeqSet(s) == {s[i] : i \in 1..Len(s)}
RECURSIVE SumV(_)
SumV(ids) == IF ids = <<>> THEN 0 ELSE em[Head(ids)].v + SumV(Tail(ids))
Increasing(s) == \A i \in 1..(Len(s) - 1) : s[i] < s[i + 1]
Slack == 300000                         \* scheduling slack (us) granted on top of the checker's period (timeout / 2)
Reported(id) == \E i \in 1..Len(dl) : id \in SeqSet(dl[i].ids)

RowCode(r) ==
  IF r.wid # 1 THEN "window_id_mismatch"
  ELSE IF Len(r.ids) = 0 THEN "empty_result"
  ELSE IF ~Increasing(r.ids) THEN "rows_not_in_arrival_order_or_counted_twice"
  ELSE IF \E k \in 1..Len(r.ids) : r.ids[k] < 1 \/ r.ids[k] > Len(em) THEN "unknown_row"
  ELSE IF \E k \in 1..Len(r.ids) : em[r.ids[k]].g # r.g THEN "row_in_wrong_key"
  ELSE IF \E k \in 1..Len(r.ids) : Reported(r.ids[k]) THEN "row_reported_in_two_sessions"
  ELSE IF r.c # Len(r.ids) THEN "count_mismatch"
  ELSE IF r.s # SumV(r.ids) THEN "sum_mismatch"
  ELSE LET first == em[r.ids[1]]  last == em[r.ids[Len(r.ids)]] IN
       \* window_start = arrival of the first row, window_end = arrival of the last row + timeout (ws rounded down, we up)
       IF ~(first.lo - 1 <= r.ws /\ r.ws <= first.hi) THEN "window_start_is_not_the_first_arrival"
       ELSE IF ~(last.lo + cfg.size - 1 <= r.we /\ r.we <= last.hi + cfg.size + 1) THEN "window_end_is_not_last_arrival_plus_timeout"
       ELSE IF r.t < last.lo + cfg.size THEN "session_reported_before_its_timeout_ran_out"
       \* rows of the key that arrived inside the session's span belong to it
       ELSE IF \E id \in 1..Len(em) : em[id].g = r.g /\ id \notin SeqSet(r.ids) /\ em[id].lo > first.hi /\ em[id].hi < last.lo THEN "row_inside_the_span_missing"
       \* with a prompt checker a gap inside a session stays below 1.5 x timeout
       ELSE IF cfg.timing = 1 /\ \E k \in 1..(Len(r.ids) - 1) : em[r.ids[k + 1]].lo - em[r.ids[k]].hi > cfg.size + cfg.size \div 2 + Slack THEN "merged_across_a_long_gap"
       ELSE IF cfg.timing = 1 /\ r.late > cfg.size \div 2 + Slack THEN "session_reported_long_after_it_ran_out"
       ELSE ""

RECURSIVE RowsCode(_, _)
RowsCode(rows, k) == IF k > Len(rows) THEN "" ELSE LET c1 == RowCode(rows[k]) IN IF c1 # "" THEN c1 ELSE RowsCode(rows, k + 1)
DeliverCode(e) == IF Len(e.rows) = 0 THEN "empty_delivery" ELSE RowsCode(e.rows, 1)

\* quiescence (the driver waits two timeouts after the last row): every row reported; consecutive rows of a key that certainly arrived
\* less than the timeout apart share a session
SessOf(id) == CHOOSE i \in 1..Len(dl) : id \in SeqSet(dl[i].ids)
NextOfKey(a) == {b \in (a + 1)..Len(em) : em[b].g = em[a].g /\ ~\E c \in (a + 1)..(b - 1) : em[c].g = em[a].g}
QuiesceCode ==
  IF \E id \in 1..Len(em) : ~Reported(id) THEN "row_never_reported"
  ELSE IF \E a \in 1..Len(em) : \E b \in NextOfKey(a) : em[b].hi - em[a].lo < cfg.size /\ SessOf(a) # SessOf(b) THEN "rows_less_than_the_timeout_apart_in_different_sessions"
  ELSE ""

Reject(code) == /\ PrintT(<<"REJECT", cfg.tr, l, code>>) /\ dead' = TRUE
Init == /\ l = 1 /\ cfg = [tr |-> -1] /\ em = <<>> /\ dl = <<>> /\ dead = FALSE

Next ==
  /\ l <= Len(Trace)
  /\ l' = l + 1
  /\ LET e == Trace[l] IN
     IF e.e = "reset" THEN /\ cfg' = e /\ em' = <<>> /\ dl' = <<>> /\ dead' = FALSE
     ELSE IF dead THEN UNCHANGED <<cfg, em, dl, dead>>
     ELSE IF e.e = "add" THEN
        /\ em' = Append(em, [g |-> e.g, v |-> e.v, lo |-> e.lo, hi |-> e.hi])
        /\ IF e.id # Len(em) + 1 THEN Reject("harness_ids_not_sequential")
           ELSE IF e.hi < e.lo THEN Reject("harness_bracket") ELSE UNCHANGED dead
        /\ UNCHANGED <<cfg, dl>>
     ELSE IF e.e = "deliver" THEN
        LET code == DeliverCode(e) IN
        IF code = "" THEN
            /\ dl' = dl \o [i \in 1..Len(e.rows) |-> [g |-> e.rows[i].g, ids |-> e.rows[i].ids]]
            /\ UNCHANGED <<cfg, em, dead>>
        ELSE Reject(code) /\ UNCHANGED <<cfg, em, dl>>
     ELSE IF e.e = "quiesce" THEN
        LET code == QuiesceCode IN
        /\ IF code = "" THEN UNCHANGED dead ELSE Reject(code)
        /\ UNCHANGED <<cfg, em, dl>>
     ELSE IF e.e = "void" THEN dead' = TRUE /\ UNCHANGED <<cfg, em, dl>>
     ELSE UNCHANGED <<cfg, em, dl, dead>>

Spec == Init /\ [][Next]_vars
AllConsumed == TLCGet("stats").diameter - 1 = Len(Trace)
=============================================================================
