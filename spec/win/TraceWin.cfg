SPECIFICATION Spec
CONSTANT Dev = {}
POSTCONDITION AllConsumed
CHECK_DEADLOCK FALSE
