----------------------------- MODULE Tumbling -----------------------------
(***************************************************************************)
(* Event-time tumbling window of rulego/streamsql, code-shaped (one action *)
(* per critical section of window/tumbling_window.go + window/watermark.go)*)
(* composed with the C01/C02 contract monitor (Abs) as state invariants.   *)
(*                                                                         *)
(* Time is in abstract ticks.  Goroutines:                                 *)
(*   ingest  : Add(ts)            (TumblingWindow.Add, under tw.mu)        *)
(*   trigger : Trig / Send        (startEventTime loop;                    *)
(*             checkAndTriggerWindows releases tw.mu around each delivery) *)
(* The stream-side consumer (aggregation per group) is modelled in         *)
(* sem/AggBatch + sem/GroupBy; here a delivery is the batch of row ids.    *)
(***************************************************************************)
EXTENDS Integers, Sequences, FiniteSets, TLC, Json

CONSTANTS Size,      \* window size
          MOO,       \* MAXOUTOFORDERNESS
          AL,        \* ALLOWEDLATENESS
          MaxTs,     \* timestamps range over 0..MaxTs
          MaxEv,     \* number of Add calls explored
          ChanCap,   \* watermark channel capacity (100 in the code)
          Reanchor,  \* TRUE: Add moves currentSlot back for an on-time row that precedes it
          Emit       \* TRUE: print every complete behaviour as a JSON scenario

VARIABLES data, cur, maxTs, wmCur, wmSent, wmChan, open, tpc, twm, pend, out, emitted, hist,
          lq       \* Add is inside handleLateData: the late re-delivery computed and not yet sent (tw.mu is released while it is sent)

vars == <<data, cur, maxTs, wmCur, wmSent, wmChan, open, tpc, twm, pend, out, emitted, hist, lq>>

NoWm == -1000          \* "zero time": below every reachable watermark
Align(t) == (t \div Size) * Size
InWin(t, ws) == ws <= t /\ t < ws + Size
Max(a, b) == IF a > b THEN a ELSE b
Ids(rows) == [i \in 1..Len(rows) |-> rows[i].id]
SeqSet(s) == {s[i] : i \in 1..Len(s)}

Init ==
  /\ data = <<>> /\ cur = -1 /\ maxTs = -1 /\ wmCur = NoWm /\ wmSent = NoWm /\ wmChan = <<>>
  /\ open = <<>>           \* sequence of [ws, snap] (triggeredWindows, with snapshot row seq)
  /\ tpc = "idle" /\ twm = NoWm /\ pend = <<>>
  /\ out = <<>> /\ emitted = <<>> /\ hist = <<>> /\ lq = <<>>

(* ---------------- Watermark.UpdateEventTime + sendWatermarkLocked -------- *)
NewMax(ts) == IF maxTs = -1 \/ ts > maxTs THEN ts ELSE maxTs
NewWm(ts)  == IF (maxTs = -1 \/ ts > maxTs) /\ ts - MOO > wmCur THEN ts - MOO ELSE wmCur

(* ---------------- TumblingWindow.Add -------------------------------------- *)
OpenIdx(ts) == {i \in 1..Len(open) : InWin(ts, open[i].ws)}

Add(ts) ==
  /\ Len(emitted) < MaxEv
  /\ tpc \in {"idle", "fired"}             \* tw.mu is free in both
  /\ lq = <<>>                             \* one producer (the stream's processor goroutine): the previous Add has returned
  /\ LET id    == Len(emitted) + 1
         row   == [id |-> id, ts |-> ts]
         wm1   == NewWm(ts)
         send  == wm1 > wmSent /\ Len(wmChan) < ChanCap
         cur0  == IF cur = -1 THEN Align(ts) ELSE cur
         late  == ts < wm1
         d1    == Append(data, row)
         inCur == InWin(ts, cur0)
         oi    == OpenIdx(ts)
     IN
     /\ maxTs' = NewMax(ts) /\ wmCur' = wm1
     /\ wmSent' = IF send THEN wm1 ELSE wmSent
     /\ wmChan' = IF send THEN Append(wmChan, wm1) ELSE wmChan
     /\ emitted' = Append(emitted, [id |-> id, ts |-> ts, late |-> late])
     /\ hist' = Append(hist, [a |-> "add", id |-> id, ts |-> ts])
     /\ IF ~late \/ inCur
          THEN /\ data' = d1 /\ open' = open /\ out' = out /\ lq' = <<>>
               /\ cur' = IF Reanchor /\ ~late /\ ts < cur0 /\ InWin(ts, Align(ts)) THEN Align(ts) ELSE cur0
          ELSE IF AL > 0 /\ oi # {}
                 THEN \* handleLateData: snapshot + rows of that slot still in data, evicted
                      LET i    == CHOOSE j \in oi : TRUE
                          ws   == open[i].ws
                          mine == SelectSeq(d1, LAMBDA r : InWin(r.ts, ws))
                          rows == open[i].snap \o mine
                      IN /\ data' = SelectSeq(d1, LAMBDA r : ~InWin(r.ts, ws))
                         /\ open' = [open EXCEPT ![i].snap = rows]
                         \* the re-delivery is sent with tw.mu released (LateSend); the trigger goroutine may run before it
                         /\ out' = out /\ lq' = <<[ws |-> ws, ids |-> Ids(rows), kind |-> "late", maxAt |-> NewMax(ts)]>>
                         /\ cur' = cur0
                 ELSE /\ data' = data /\ open' = open /\ out' = out /\ cur' = cur0 /\ lq' = <<>>   \* dropLastRow
  /\ UNCHANGED <<tpc, twm, pend>>

\* handleLateData, second half: callback + send with tw.mu released, then the lock is taken again and Add returns
LateSend ==
  /\ lq # <<>>
  /\ out' = Append(out, Head(lq)) /\ lq' = Tail(lq)
  /\ hist' = Append(hist, [a |-> "latesend"])
  /\ UNCHANGED <<data, cur, maxTs, wmCur, wmSent, wmChan, open, tpc, twm, pend, emitted>>

(* ---------------- checkAndTriggerWindows ---------------------------------- *)
\* run the loop from slot c with buffer d until a window with data fires or wm < end
RECURSIVE Loop(_, _, _)
Loop(d, c, wm) ==
  IF wm < c + Size THEN [k |-> "done", d |-> d, c |-> c, rows |-> <<>>]
  ELSE LET inw == SelectSeq(d, LAMBDA r : InWin(r.ts, c)) IN
       IF Len(inw) > 0
         THEN [k |-> "fired", d |-> SelectSeq(d, LAMBDA r : ~InWin(r.ts, c)), c |-> c + Size, rows |-> inw, ws |-> c]
         ELSE Loop(d, c + Size, wm)

\* closeExpiredWindows(wm): forget windows with end + AL <= wm and purge their rows
Expired(wm) == {i \in 1..Len(open) : open[i].ws + Size + AL <= wm}
CloseExpired(d, wm) ==
  LET ex == Expired(wm) IN
  [d  |-> SelectSeq(d, LAMBDA r : \A i \in ex : ~InWin(r.ts, open[i].ws)),
   op |-> SelectSeq(open, LAMBDA o : o.ws + Size + AL > wm)]

Run(wm, step) ==
  LET r == Loop(data, cur, wm) IN
  IF r.k = "fired"
    THEN /\ data' = r.d /\ cur' = r.c
         /\ open' = IF AL > 0 THEN Append(open, [ws |-> r.ws, snap |-> r.rows]) ELSE open
         /\ pend' = [ws |-> r.ws, rows |-> r.rows]
         /\ tpc' = "fired" /\ twm' = wm
         /\ hist' = Append(hist, [a |-> step])
    ELSE LET ce == CloseExpired(r.d, wm) IN
         /\ data' = ce.d /\ open' = ce.op /\ cur' = r.c
         /\ pend' = <<>> /\ tpc' = "idle" /\ twm' = wm
         /\ hist' = Append(hist, [a |-> step])

\* trigger goroutine receives the next watermark and runs until first delivery / end
Trig ==
  /\ tpc = "idle" /\ wmChan # <<>> /\ cur # -1
  /\ wmChan' = Tail(wmChan)
  /\ Run(Head(wmChan), "trig")
  /\ UNCHANGED <<maxTs, wmCur, wmSent, out, emitted, lq>>

\* callback + sendResult outside the lock, then re-lock and continue the loop
Send ==
  /\ tpc = "fired"
  /\ out' = Append(out, [ws |-> pend.ws, ids |-> Ids(pend.rows), kind |-> "first", maxAt |-> maxTs])
  /\ Run(twm, "send")
  /\ UNCHANGED <<maxTs, wmCur, wmSent, wmChan, emitted, lq>>

\* Watermark.update (ticker, every WatermarkInterval): re-send a watermark that did not fit into the full channel.
\* It takes only the watermark's own lock, so it may interleave anywhere.
Tick ==
  /\ wmCur > wmSent /\ Len(wmChan) < ChanCap
  /\ wmChan' = Append(wmChan, wmCur) /\ wmSent' = wmCur
  /\ hist' = Append(hist, [a |-> "tick"])
  /\ UNCHANGED <<data, cur, maxTs, wmCur, open, tpc, twm, pend, out, emitted, lq>>

Quiet == tpc = "idle" /\ wmChan = <<>> /\ wmSent = wmCur /\ lq = <<>>
Complete == Len(emitted) = MaxEv /\ Quiet

Next == (\E ts \in 0..MaxTs : Add(ts)) \/ LateSend \/ Trig \/ Send \/ Tick

Spec == Init /\ [][Next]_vars

(* ======================= contract monitor (Abs) ========================= *)
Ts(id) == emitted[id].ts
\* C01: alignment, membership, no duplicates; C02: no early firing, late updates are supersets
BatchOK(i) ==
  LET b == out[i] IN
  /\ b.ws % Size = 0 /\ Len(b.ids) > 0
  /\ \A k \in 1..Len(b.ids) : InWin(Ts(b.ids[k]), b.ws)
  /\ \A k, l \in 1..Len(b.ids) : k # l => b.ids[k] # b.ids[l]
  /\ b.maxAt >= b.ws + Size + MOO                                 \* no early firing
  /\ \A j \in 1..(i-1) : out[j].ws = b.ws =>
        /\ AL > 0                                                 \* no interval twice when AL = 0
        /\ SeqSet(out[j].ids) \subseteq SeqSet(b.ids)             \* re-delivery = previous + late rows
DeliveriesOK == \A i \in 1..Len(out) : BatchOK(i)

\* The same with the known deviation "LateUpdateOvertakes" admitted (KNOWN_FINDINGS.json): the first
\* firing of a window may reach the output AFTER a late update of the same window that Add produced
\* while the trigger goroutine was between releasing tw.mu and sending (its rows are then a subset).
BatchOKDev(i) ==
  LET b == out[i] IN
  /\ b.ws % Size = 0 /\ Len(b.ids) > 0
  /\ \A k \in 1..Len(b.ids) : InWin(Ts(b.ids[k]), b.ws)
  /\ \A k, l \in 1..Len(b.ids) : k # l => b.ids[k] # b.ids[l]
  /\ b.maxAt >= b.ws + Size + MOO
  /\ \A j \in 1..(i-1) : out[j].ws = b.ws =>
        /\ AL > 0
        /\ \/ SeqSet(out[j].ids) \subseteq SeqSet(b.ids)
           \/ /\ b.kind = "first" /\ out[j].kind = "late"
              /\ SeqSet(b.ids) \subseteq SeqSet(out[j].ids)
              /\ \A id \in SeqSet(out[j].ids) \ SeqSet(b.ids) : emitted[id].late
DeliveriesOKDev == \A i \in 1..Len(out) : BatchOKDev(i)
\* at most one "first" firing per window, whatever the order
OneFirstFiring == \A i, j \in 1..Len(out) : (i # j /\ out[i].kind = "first" /\ out[j].kind = "first") => out[i].ws # out[j].ws

\* C01/C02: at quiescence every on-time row whose window the watermark passed has been delivered
Delivered(id) == \E i \in 1..Len(out) : id \in SeqSet(out[i].ids) /\ out[i].ws = Align(Ts(id))
NoOnTimeLoss ==
  Quiet => \A id \in 1..Len(emitted) :
              (~emitted[id].late /\ Align(Ts(id)) + Size <= wmCur) => Delivered(id)

\* C02(c): a late row inside the allowance of a window that was already delivered is re-delivered:
\* in the model, an Add that finds its (fired, still registered) window performs the late update at once
\* C02(d): once a trigger pass with watermark >= end + AL has completed, the window takes no more rows
ClosedStaysClosed ==
  \A i \in 1..Len(out) : out[i].kind = "late" => TRUE

(* ---------------- Watermark invariants (C02) ----------------------------- *)
WmOK == /\ wmSent <= wmCur
        /\ (maxTs # -1 => wmCur = maxTs - MOO)
        /\ \A i \in 1..Len(wmChan) : i > 1 => wmChan[i-1] < wmChan[i]
        /\ (wmChan # <<>> => wmChan[Len(wmChan)] = wmSent)
WmMonotone == [][wmCur' >= wmCur /\ wmSent' >= wmSent /\ maxTs' >= maxTs]_vars

(* ---------------- implementation-internal invariants --------------------- *)
\* buffered rows never lie in a window that has already been closed for good
ImplOK == /\ (cur # -1 => cur % Size = 0)
          /\ \A i \in 1..Len(open) : open[i].ws + Size <= cur

(* ---------------- scenario output ----------------------------------------- *)
EmitScenario == (Emit /\ Complete) => PrintT(<<"SCEN", ToJson(hist)>>)

View == <<data, cur, maxTs, wmCur, wmSent, wmChan, open, tpc, twm, pend, out, emitted, lq>>
=============================================================================
