SPECIFICATION Spec
CONSTANTS Size = 2  MOO = 1  AL = 0  MaxTs = 7  MaxEv = 4  ChanCap = 100  Reanchor = FALSE  Emit = FALSE
INVARIANTS DeliveriesOK NoOnTimeLoss WmOK ImplOK
PROPERTY WmMonotone
VIEW View
CHECK_DEADLOCK FALSE
