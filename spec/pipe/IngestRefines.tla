---------------------------- MODULE IngestRefines ----------------------------
(***************************************************************************)
(* Ingest.tla (one action per critical section of the input path) refines   *)
(* the counter machine IngestCount.tla under the mapping below; TLC checks   *)
(* it for small constants (PROPERTY Refines).  Together with Apalache's      *)
(* proof of IngestCount!IndInv for all counter values this carries           *)
(* conservation and the capacity ceiling from "explored up to N rows" to     *)
(* "every number of rows" at the level of the model.                         *)
(***************************************************************************)
EXTENDS Ingest

SumPn == LET RECURSIVE S(_)
             S(P) == IF P = {} THEN 0 ELSE LET p == CHOOSE x \in P : TRUE IN pn[p] + S(P \ {p})
         IN S(Producers)
Abs == INSTANCE IngestCount WITH
         decided   <- SumPn,
         qCur      <- Len(chans[cur].q),
         capCur    <- chans[cur].cap,
         mig       <- (wlock # 0),
         qNew      <- (IF wlock # 0 THEN Len(chans[Len(chans)].q) ELSE 0),
         capNew    <- (IF wlock # 0 THEN chans[Len(chans)].cap ELSE 0),
         processed <- Len(processed),
         dropped   <- dropped
Refines == Abs!CountSpec
AbsInv == Abs!IndInv
=============================================================================
