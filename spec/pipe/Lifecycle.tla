------------------------------ MODULE Lifecycle ------------------------------
(***************************************************************************)
(* Stop protocol of a stream (stream/stream.go Stop, handler_result.go sink  *)
(* pool, processor loop), one action per step between the hook points:       *)
(*   Stop: CAS stopped -> close(done) -> Window.Stop -> dataChan = nil ->     *)
(*         join(lifecycle: processor + sink workers, bounded by a grace) ->   *)
(*         CEP flush delivered inline -> return                               *)
(*   processor: takes a row, then for each result calls the synchronous sinks *)
(*         inline and submits one task per asynchronous sink to the bounded   *)
(*         pool (full pool: inline unless done is closed)                     *)
(*   worker: select { task | done }  (both ready: either)                     *)
(*   EmitSync caller: runs the pipeline and the sinks in ITS OWN goroutine,   *)
(*         which Stop does not join (TrackSync = TRUE models joining it)      *)
(* Contract (C18): no sink invocation begins after Stop has returned; Stop    *)
(* returns (liveness); Stop is idempotent; Emit after Stop has no effect.     *)
(***************************************************************************)
EXTENDS Integers, Sequences, FiniteSets, TLC

CONSTANTS NRows, PoolCap, NWorkers, SyncCalls, TrackSync, Cep
VARIABLES stopped, done, chanNil, inq, pool, ppc, wpc, spc, stopc, stopRet, began, late, emitted, flushed
vars == <<stopped, done, chanNil, inq, pool, ppc, wpc, spc, stopc, stopRet, began, late, emitted, flushed>>
Workers == 1..NWorkers
Syncs == 1..SyncCalls
Stoppers == {1, 2}

Init == /\ stopped = FALSE /\ done = FALSE /\ chanNil = FALSE /\ inq = <<>> /\ pool = <<>>
        /\ ppc = "idle" /\ wpc = [w \in Workers |-> "idle"] /\ spc = [s \in Syncs |-> "start"]
        /\ stopc = [s \in Stoppers |-> "start"] /\ stopRet = FALSE /\ began = 0 /\ late = 0 /\ emitted = 0 /\ flushed = FALSE

\* a sink invocation begins
Begin == /\ began' = began + 1 /\ late' = IF stopRet THEN late + 1 ELSE late

\* ---- producer: Emit (silent no-op once stopped / channel nil)
EmitRow == /\ emitted < NRows /\ emitted' = emitted + 1
           /\ inq' = IF stopped \/ chanNil THEN inq ELSE Append(inq, emitted + 1)
           /\ UNCHANGED <<stopped, done, chanNil, pool, ppc, wpc, spc, stopc, stopRet, began, late, flushed>>
\* ---- processor goroutine (tracked)
ProcTake == /\ ppc = "idle" /\ ~done /\ inq # <<>> /\ inq' = Tail(inq) /\ ppc' = "sync"
            /\ UNCHANGED <<stopped, done, chanNil, pool, wpc, spc, stopc, stopRet, began, late, emitted, flushed>>
ProcSyncSink == /\ ppc = "sync" /\ Begin /\ ppc' = "submit"
                /\ UNCHANGED <<stopped, done, chanNil, inq, pool, wpc, spc, stopc, stopRet, emitted, flushed>>
ProcSubmit == /\ ppc = "submit"
              /\ \/ (Len(pool) < PoolCap /\ pool' = Append(pool, "t") /\ UNCHANGED <<began, late>>)
                 \/ (Len(pool) >= PoolCap /\ done /\ UNCHANGED <<pool, began, late>>)             \* shutting down: drop
                 \/ (Len(pool) >= PoolCap /\ ~done /\ Begin /\ UNCHANGED pool)                    \* degraded: inline
              /\ ppc' = "idle"
              /\ UNCHANGED <<stopped, done, chanNil, inq, wpc, spc, stopc, stopRet, emitted, flushed>>
ProcExit == /\ ppc = "idle" /\ done /\ ppc' = "exited"
            /\ UNCHANGED <<stopped, done, chanNil, inq, pool, wpc, spc, stopc, stopRet, began, late, emitted, flushed>>
\* ---- sink workers (tracked)
WorkTake(w) == /\ wpc[w] = "idle" /\ pool # <<>> /\ pool' = Tail(pool) /\ wpc' = [wpc EXCEPT ![w] = "run"]
               /\ UNCHANGED <<stopped, done, chanNil, inq, ppc, spc, stopc, stopRet, began, late, emitted, flushed>>
WorkRun(w) == /\ wpc[w] = "run" /\ Begin /\ wpc' = [wpc EXCEPT ![w] = "idle"]
              /\ UNCHANGED <<stopped, done, chanNil, inq, pool, ppc, spc, stopc, stopRet, emitted, flushed>>
WorkExit(w) == /\ wpc[w] = "idle" /\ done /\ wpc' = [wpc EXCEPT ![w] = "exited"]
               /\ UNCHANGED <<stopped, done, chanNil, inq, pool, ppc, spc, stopc, stopRet, began, late, emitted, flushed>>
\* ---- EmitSync caller: its own goroutine
SyncEnter(s) == /\ spc[s] = "start"
                /\ spc' = [spc EXCEPT ![s] = IF TrackSync /\ stopped THEN "refused" ELSE "pipeline"]
                /\ UNCHANGED <<stopped, done, chanNil, inq, pool, ppc, wpc, stopc, stopRet, began, late, emitted, flushed>>
SyncSink(s) == /\ spc[s] = "pipeline" /\ Begin /\ spc' = [spc EXCEPT ![s] = "returned"]
               /\ UNCHANGED <<stopped, done, chanNil, inq, pool, ppc, wpc, stopc, stopRet, emitted, flushed>>
\* ---- Stop callers
StopCas(c) == /\ stopc[c] = "start"
              /\ IF stopped THEN stopc' = [stopc EXCEPT ![c] = "returned"] /\ UNCHANGED stopped      \* idempotent: immediate return
                 ELSE stopped' = TRUE /\ stopc' = [stopc EXCEPT ![c] = "close"]
              /\ UNCHANGED <<done, chanNil, inq, pool, ppc, wpc, spc, stopRet, began, late, emitted, flushed>>
StopClose(c) == /\ stopc[c] = "close" /\ done' = TRUE /\ stopc' = [stopc EXCEPT ![c] = "nil"]
                /\ UNCHANGED <<stopped, chanNil, inq, pool, ppc, wpc, spc, stopRet, began, late, emitted, flushed>>
StopNil(c) == /\ stopc[c] = "nil" /\ chanNil' = TRUE /\ stopc' = [stopc EXCEPT ![c] = "join"]
              /\ UNCHANGED <<stopped, done, inq, pool, ppc, wpc, spc, stopRet, began, late, emitted, flushed>>
Joined == ppc = "exited" /\ (\A w \in Workers : wpc[w] = "exited") /\ (TrackSync => \A s \in Syncs : spc[s] # "pipeline")
StopJoin(c) == /\ stopc[c] = "join" /\ Joined /\ stopc' = [stopc EXCEPT ![c] = "flush"]
               /\ UNCHANGED <<stopped, done, chanNil, inq, pool, ppc, wpc, spc, stopRet, began, late, emitted, flushed>>
StopFlush(c) == /\ stopc[c] = "flush"
                /\ IF Cep THEN Begin /\ flushed' = TRUE ELSE UNCHANGED <<began, late, flushed>>        \* flushed matches are delivered inline, before the return
                /\ stopc' = [stopc EXCEPT ![c] = "ret"]
                /\ UNCHANGED <<stopped, done, chanNil, inq, pool, ppc, wpc, spc, stopRet, emitted>>
StopReturn(c) == /\ stopc[c] = "ret" /\ stopRet' = TRUE /\ stopc' = [stopc EXCEPT ![c] = "returned"]
                 /\ UNCHANGED <<stopped, done, chanNil, inq, pool, ppc, wpc, spc, began, late, emitted, flushed>>

Next == EmitRow \/ ProcTake \/ ProcSyncSink \/ ProcSubmit \/ ProcExit
        \/ (\E w \in Workers : WorkTake(w) \/ WorkRun(w) \/ WorkExit(w))
        \/ (\E s \in Syncs : SyncEnter(s) \/ SyncSink(s))
        \/ (\E c \in Stoppers : StopCas(c) \/ StopClose(c) \/ StopNil(c) \/ StopJoin(c) \/ StopFlush(c) \/ StopReturn(c))
Fair == /\ WF_vars(ProcTake \/ ProcSyncSink \/ ProcSubmit \/ ProcExit)
        /\ \A w \in Workers : WF_vars(WorkTake(w) \/ WorkRun(w) \/ WorkExit(w))
        /\ \A s \in Syncs : WF_vars(SyncEnter(s) \/ SyncSink(s))
        /\ \A c \in Stoppers : WF_vars(StopCas(c) \/ StopClose(c) \/ StopNil(c) \/ StopJoin(c) \/ StopFlush(c) \/ StopReturn(c))
Spec == Init /\ [][Next]_vars /\ Fair

NoSinkAfterStopReturned == late = 0
StopIdempotent == Cardinality({c \in Stoppers : stopc[c] \in {"close", "nil", "join", "flush", "ret"}}) <= 1      \* only one caller tears down
FlushBeforeReturn == (Cep /\ stopRet) => flushed
EmitAfterStopNoEffect == chanNil => TRUE
StopReturns == \A c \in Stoppers : (stopc[c] # "start") ~> (stopc[c] = "returned")
AllExit == stopRet ~> (ppc = "exited" /\ \A w \in Workers : wpc[w] = "exited")
=============================================================================
