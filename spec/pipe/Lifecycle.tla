------------------------------ MODULE Lifecycle ------------------------------
(***************************************************************************)
(* Stop protocol of a stream (stream/stream.go Stop, handler_result.go sink  *)
(* pool, processor loop), one action per step between the hook points:       *)
(*   Stop: CAS stopped -> close(done) -> Window.Stop -> dataChan = nil ->     *)
(*         join(lifecycle: processor + sink workers, bounded by a grace) ->   *)
(*         CEP flush delivered inline -> return                               *)
(*   processor: takes a row, then for each result calls the synchronous sinks *)
(*         inline and submits one task per asynchronous sink to the bounded   *)
(*         pool (full pool: inline unless done is closed)                     *)
(*   worker: select { task | done }  (both ready: either)                     *)
(*   EmitSync caller: runs the pipeline and the sinks in ITS OWN goroutine,   *)
(*         which Stop does not join (TrackSync = TRUE models joining it)      *)
(* Contract (C18): no sink invocation begins after ANY Stop call has returned *)
(* (a second, concurrent Stop waits for the teardown: StopWaits, the code      *)
(* since repair d9d123b); Stop returns (liveness); Stop is idempotent; Emit    *)
(* after Stop has no effect.                                                  *)
(***************************************************************************)
EXTENDS Integers, Sequences, FiniteSets, TLC

CONSTANTS NRows, PoolCap, NWorkers, SyncCalls, TrackSync, Cep,
          StopWaits   \* TRUE (the code since the repair): a Stop that lost the race for the stopped flag waits until the teardown is complete
VARIABLES stopped, done, chanNil, inq, pool, ppc, wpc, spc, stopc, stopRet, began, late, emitted, flushed, anyRet
vars == <<stopped, done, chanNil, inq, pool, ppc, wpc, spc, stopc, stopRet, began, late, emitted, flushed, anyRet>>
Workers == 1..NWorkers
Syncs == 1..SyncCalls
Stoppers == {1, 2}

Init == /\ stopped = FALSE /\ done = FALSE /\ chanNil = FALSE /\ inq = <<>> /\ pool = <<>>
        /\ ppc = "idle" /\ wpc = [w \in Workers |-> "idle"] /\ spc = [s \in Syncs |-> "start"]
        /\ stopc = [s \in Stoppers |-> "start"] /\ stopRet = FALSE /\ began = 0 /\ late = 0 /\ emitted = 0 /\ flushed = FALSE /\ anyRet = FALSE

\* a sink invocation begins
Begin == /\ began' = began + 1 /\ late' = IF anyRet THEN late + 1 ELSE late

\* ---- producer: Emit (silent no-op once stopped / channel nil)
EmitRow == /\ emitted < NRows /\ emitted' = emitted + 1
           /\ inq' = IF stopped \/ chanNil THEN inq ELSE Append(inq, emitted + 1)
           /\ UNCHANGED <<stopped, done, chanNil, pool, ppc, wpc, spc, stopc, stopRet, began, late, flushed, anyRet>>
\* ---- processor goroutine (tracked)
ProcTake == /\ ppc = "idle" /\ ~done /\ inq # <<>> /\ inq' = Tail(inq) /\ ppc' = "sync"
            /\ UNCHANGED <<stopped, done, chanNil, pool, wpc, spc, stopc, stopRet, began, late, emitted, flushed, anyRet>>
ProcSyncSink == /\ ppc = "sync" /\ Begin /\ ppc' = "submit"
                /\ UNCHANGED <<stopped, done, chanNil, inq, pool, wpc, spc, stopc, stopRet, emitted, flushed, anyRet>>
ProcSubmit == /\ ppc = "submit"
              /\ \/ (Len(pool) < PoolCap /\ pool' = Append(pool, "t") /\ UNCHANGED <<began, late, anyRet>>)
                 \/ (Len(pool) >= PoolCap /\ done /\ UNCHANGED <<pool, began, late, anyRet>>)             \* shutting down: drop
                 \/ (Len(pool) >= PoolCap /\ ~done /\ Begin /\ UNCHANGED pool)                    \* degraded: inline
              /\ ppc' = "idle"
              /\ UNCHANGED <<stopped, done, chanNil, inq, wpc, spc, stopc, stopRet, emitted, flushed, anyRet>>
ProcExit == /\ ppc = "idle" /\ done /\ ppc' = "exited"
            /\ UNCHANGED <<stopped, done, chanNil, inq, pool, wpc, spc, stopc, stopRet, began, late, emitted, flushed, anyRet>>
\* ---- sink workers (tracked)
WorkTake(w) == /\ wpc[w] = "idle" /\ pool # <<>> /\ pool' = Tail(pool) /\ wpc' = [wpc EXCEPT ![w] = "run"]
               /\ UNCHANGED <<stopped, done, chanNil, inq, ppc, spc, stopc, stopRet, began, late, emitted, flushed, anyRet>>
WorkRun(w) == /\ wpc[w] = "run" /\ Begin /\ wpc' = [wpc EXCEPT ![w] = "idle"]
              /\ UNCHANGED <<stopped, done, chanNil, inq, pool, ppc, spc, stopc, stopRet, emitted, flushed, anyRet>>
WorkExit(w) == /\ wpc[w] = "idle" /\ done /\ wpc' = [wpc EXCEPT ![w] = "exited"]
               /\ UNCHANGED <<stopped, done, chanNil, inq, pool, ppc, spc, stopc, stopRet, began, late, emitted, flushed, anyRet>>
\* ---- EmitSync caller: its own goroutine
SyncEnter(s) == /\ spc[s] = "start"
                /\ spc' = [spc EXCEPT ![s] = IF TrackSync /\ stopped THEN "refused" ELSE "pipeline"]
                /\ UNCHANGED <<stopped, done, chanNil, inq, pool, ppc, wpc, stopc, stopRet, began, late, emitted, flushed, anyRet>>
SyncSink(s) == /\ spc[s] = "pipeline" /\ Begin /\ spc' = [spc EXCEPT ![s] = "returned"]
               /\ UNCHANGED <<stopped, done, chanNil, inq, pool, ppc, wpc, stopc, stopRet, emitted, flushed, anyRet>>
\* ---- Stop callers
StopCas(c) == /\ stopc[c] = "start"
              /\ IF stopped THEN /\ stopc' = [stopc EXCEPT ![c] = IF StopWaits THEN "wait" ELSE "returned"]      \* the loser of the race
                                  /\ anyRet' = (anyRet \/ ~StopWaits) /\ UNCHANGED stopped
                 ELSE stopped' = TRUE /\ stopc' = [stopc EXCEPT ![c] = "close"] /\ UNCHANGED anyRet
              /\ UNCHANGED <<done, chanNil, inq, pool, ppc, wpc, spc, stopRet, began, late, emitted, flushed>>
\* the loser returns once the teardown is complete (stopFinished closed)
StopWaitDone(c) == /\ stopc[c] = "wait" /\ stopRet /\ stopc' = [stopc EXCEPT ![c] = "returned"] /\ anyRet' = TRUE
                   /\ UNCHANGED <<stopped, done, chanNil, inq, pool, ppc, wpc, spc, stopRet, began, late, emitted, flushed>>
StopClose(c) == /\ stopc[c] = "close" /\ done' = TRUE /\ stopc' = [stopc EXCEPT ![c] = "nil"]
                /\ UNCHANGED <<stopped, chanNil, inq, pool, ppc, wpc, spc, stopRet, began, late, emitted, flushed, anyRet>>
StopNil(c) == /\ stopc[c] = "nil" /\ chanNil' = TRUE /\ stopc' = [stopc EXCEPT ![c] = "join"]
              /\ UNCHANGED <<stopped, done, inq, pool, ppc, wpc, spc, stopRet, began, late, emitted, flushed, anyRet>>
Joined == ppc = "exited" /\ (\A w \in Workers : wpc[w] = "exited") /\ (TrackSync => \A s \in Syncs : spc[s] # "pipeline")
StopJoin(c) == /\ stopc[c] = "join" /\ Joined /\ stopc' = [stopc EXCEPT ![c] = "flush"]
               /\ UNCHANGED <<stopped, done, chanNil, inq, pool, ppc, wpc, spc, stopRet, began, late, emitted, flushed, anyRet>>
StopFlush(c) == /\ stopc[c] = "flush"
                /\ IF Cep THEN Begin /\ flushed' = TRUE ELSE UNCHANGED <<began, late, flushed, anyRet>>        \* flushed matches are delivered inline, before the return
                /\ stopc' = [stopc EXCEPT ![c] = "ret"]
                /\ UNCHANGED <<stopped, done, chanNil, inq, pool, ppc, wpc, spc, stopRet, emitted, anyRet>>
StopReturn(c) == /\ stopc[c] = "ret" /\ stopRet' = TRUE /\ anyRet' = TRUE /\ stopc' = [stopc EXCEPT ![c] = "returned"]
                 /\ UNCHANGED <<stopped, done, chanNil, inq, pool, ppc, wpc, spc, began, late, emitted, flushed>>

Next == EmitRow \/ ProcTake \/ ProcSyncSink \/ ProcSubmit \/ ProcExit
        \/ (\E w \in Workers : WorkTake(w) \/ WorkRun(w) \/ WorkExit(w))
        \/ (\E s \in Syncs : SyncEnter(s) \/ SyncSink(s))
        \/ (\E c \in Stoppers : StopCas(c) \/ StopClose(c) \/ StopNil(c) \/ StopJoin(c) \/ StopFlush(c) \/ StopReturn(c) \/ StopWaitDone(c))
Fair == /\ WF_vars(ProcTake \/ ProcSyncSink \/ ProcSubmit \/ ProcExit)
        /\ \A w \in Workers : WF_vars(WorkTake(w) \/ WorkRun(w) \/ WorkExit(w))
        /\ \A s \in Syncs : WF_vars(SyncEnter(s) \/ SyncSink(s))
        /\ \A c \in Stoppers : WF_vars(StopCas(c) \/ StopClose(c) \/ StopNil(c) \/ StopJoin(c) \/ StopFlush(c) \/ StopReturn(c) \/ StopWaitDone(c))
Spec == Init /\ [][Next]_vars /\ Fair

NoSinkAfterStopReturned == late = 0
StopIdempotent == Cardinality({c \in Stoppers : stopc[c] \in {"close", "nil", "join", "flush", "ret"}}) <= 1      \* only one caller tears down
FlushBeforeReturn == (Cep /\ stopRet) => flushed
EmitAfterStopNoEffect == chanNil => TRUE
StopReturns == \A c \in Stoppers : (stopc[c] # "start") ~> (stopc[c] = "returned")
AllExit == stopRet ~> (ppc = "exited" /\ \A w \in Workers : wpc[w] = "exited")
=============================================================================
