--------------------------- MODULE TraceLifecycle ---------------------------
(***************************************************************************)
(* Contract monitor for lifecycle operations (C18) on traces of the real     *)
(* engine.  Events carry an atomic sequence number q taken as the FIRST       *)
(* statement of every sink invocation and right AFTER every API call          *)
(* returned, and the trace is ordered by it; so "sink.begin after stop.ret"    *)
(* means the invocation began after Stop had returned.                        *)
(***************************************************************************)
EXTENDS Integers, Sequences, TLC, Json, IOUtils
CONSTANT Dev
Trace == ndJsonDeserialize(IOEnv.TRACE_FILE)
VARIABLES l, cfg, stopCalled, stopReturned, flushSeen, dead
vars == <<l, cfg, stopCalled, stopReturned, flushSeen, dead>>
Reject(code) == /\ PrintT(<<"REJECT", cfg.tr, l, code>>) /\ dead' = TRUE
Init == l = 1 /\ cfg = [tr |-> -1] /\ stopCalled = FALSE /\ stopReturned = FALSE /\ flushSeen = FALSE /\ dead = FALSE
Next ==
  /\ l <= Len(Trace) /\ l' = l + 1
  /\ LET e == Trace[l] IN
     IF e.e = "reset" THEN cfg' = e /\ stopCalled' = FALSE /\ stopReturned' = FALSE /\ flushSeen' = FALSE /\ dead' = FALSE
     ELSE IF dead THEN UNCHANGED <<cfg, stopCalled, stopReturned, flushSeen, dead>>
     ELSE IF e.e = "sink.begin" THEN
        \* directed "stopgrace": a sink stays blocked beyond the grace period and is abandoned by Stop; what the abandoned
        \* goroutine does once the sink is released is not judged (only: Stop returned within its grace period, no deadlock)
        /\ IF stopReturned /\ cfg.directed \notin {"stopgrace", "stopgrace2", "syncgrace"} THEN Reject("sink_invoked_after_stop_returned") ELSE UNCHANGED dead
        /\ flushSeen' = (flushSeen \/ (stopCalled /\ ~stopReturned))
        /\ UNCHANGED <<cfg, stopCalled, stopReturned>>
     ELSE IF e.e = "stop.call" THEN stopCalled' = TRUE /\ UNCHANGED <<cfg, stopReturned, flushSeen, dead>>
     \* the Stop call that performed the teardown is about to return (verif hook at the end of Stream.Stop).  EVERY Stop call is a
     \* barrier: a concurrent second Stop waits for the teardown (since the repair of the early-returning second Stop), see stop.ret
     ELSE IF e.e = "teardown.done" THEN
        /\ IF cfg.cep = 1 /\ cfg.directed = "afterstop" /\ ~flushSeen THEN Reject("cep_flush_not_delivered_before_stop_returned") ELSE UNCHANGED dead
        /\ stopReturned' = TRUE /\ UNCHANGED <<cfg, stopCalled, flushSeen>>
     ELSE IF e.e = "stop.ret" THEN
        /\ IF e.ms > 6000 THEN Reject("stop_exceeded_its_grace_period") ELSE UNCHANGED dead
        /\ stopReturned' = TRUE /\ UNCHANGED <<cfg, stopCalled, flushSeen>>
     \* directed "rowpanic": a user function panics on some rows; the rows after them must still be processed
     ELSE IF e.e = "rowpanic" THEN
        /\ IF e.got < e.want THEN Reject("rows_after_a_panicking_row_not_processed") ELSE UNCHANGED dead
        /\ UNCHANGED <<cfg, stopCalled, stopReturned, flushSeen>>
     ELSE IF e.e = "panic" THEN Reject("api_call_panicked") /\ UNCHANGED <<cfg, stopCalled, stopReturned, flushSeen>>
     ELSE IF e.e = "deadlock" THEN Reject("deadlock_or_call_never_returned") /\ UNCHANGED <<cfg, stopCalled, stopReturned, flushSeen>>
     \* Stop of a second instance right after its Execute (directed "stopatonce")
     ELSE IF e.e = "quickstop" THEN
        /\ IF e.ms > 6000 THEN Reject("stop_exceeded_its_grace_period") ELSE UNCHANGED dead
        /\ UNCHANGED <<cfg, stopCalled, stopReturned, flushSeen>>
     ELSE IF e.e = "settled" THEN
        /\ IF e.after > e.before THEN Reject("engine_goroutine_still_running_after_stop") ELSE UNCHANGED dead
        /\ UNCHANGED <<cfg, stopCalled, stopReturned, flushSeen>>
     ELSE UNCHANGED <<cfg, stopCalled, stopReturned, flushSeen, dead>>
Spec == Init /\ [][Next]_vars
AllConsumed == TLCGet("stats").diameter - 1 = Len(Trace)
=============================================================================
