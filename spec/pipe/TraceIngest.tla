----------------------------- MODULE TraceIngest -----------------------------
(***************************************************************************)
(* Contract monitor for the input path (C19) on traces of the real engine:   *)
(* emit(p, i) is logged before the call, proc(p, i) when the row reaches the  *)
(* query (synchronous sink of SELECT id, p), swap when an expansion installed *)
(* a new buffer, stats at quiescence (input_dropped_count, capacity).         *)
(***************************************************************************)
EXTENDS Integers, Sequences, FiniteSets, TLC, Json, IOUtils
CONSTANT Dev
Trace == ndJsonDeserialize(IOEnv.TRACE_FILE)
VARIABLES l, cfg, emitted, procd, lastp, swaps, dead, early
vars == <<l, cfg, emitted, procd, lastp, swaps, dead, early>>

Reject(code) == /\ PrintT(<<"REJECT", cfg.tr, l, code>>) /\ dead' = TRUE
\* early = rows that were processed BEFORE a row of the same producer with a smaller number.  The recorded deviation
\* ExpansionReordersRows is narrow: the consumer reads the buffer reference once per row, so per installed buffer (swap) it can
\* take at most ONE row from the old buffer while that buffer is being migrated - at most one early row per swap.
Init == l = 1 /\ cfg = [tr |-> -1] /\ emitted = {} /\ procd = {} /\ lastp = <<>> /\ swaps = 0 /\ dead = FALSE /\ early = {}
Last(p) == LET hits == {i \in 1..Len(lastp) : lastp[i][1] = p} IN IF hits = {} THEN 0 ELSE lastp[CHOOSE i \in hits : TRUE][2]
SetLast(p, n) == LET hits == {i \in 1..Len(lastp) : lastp[i][1] = p} IN
                 IF hits = {} THEN Append(lastp, <<p, n>>) ELSE [lastp EXCEPT ![CHOOSE i \in hits : TRUE] = <<p, n>>]
Next ==
  /\ l <= Len(Trace) /\ l' = l + 1
  /\ LET e == Trace[l] IN
     IF e.e = "reset" THEN cfg' = e /\ emitted' = {} /\ procd' = {} /\ lastp' = <<>> /\ swaps' = 0 /\ dead' = FALSE /\ early' = {}
     ELSE IF e.e = "proc" /\ ~dead /\ <<e.p, e.i>> \in emitted /\ <<e.p, e.i>> \notin procd /\ e.i < Last(e.p) THEN
        \* a single producer's rows must be processed in emission order
        \* (not in the "stalled" schedule: there the consumer is busy in the sink during every expansion and holds no old reference)
        LET r == <<e.p, e.i>>
            ne == early \cup {q \in procd : q[1] = e.p /\ q[2] > e.i} IN
        IF "ExpansionReordersRows" \in Dev /\ cfg.strategy = "expand" /\ swaps > 0 /\ ~("strict" \in DOMAIN cfg /\ cfg.strict = 1)
           /\ Cardinality(ne) <= swaps
          THEN /\ PrintT(<<"DEV", cfg.tr, l, "ExpansionReordersRows">>) /\ procd' = procd \cup {r} /\ early' = ne /\ UNCHANGED <<cfg, emitted, lastp, swaps, dead>>
          ELSE Reject("producer_order_violated") /\ UNCHANGED <<cfg, emitted, procd, lastp, swaps, early>>
     ELSE early' = early /\
     IF dead THEN UNCHANGED <<cfg, emitted, procd, lastp, swaps, dead>>
     ELSE IF e.e = "emit" THEN emitted' = emitted \cup {<<e.p, e.i>>} /\ UNCHANGED <<cfg, procd, lastp, swaps, dead>>
     ELSE IF e.e = "swap" THEN swaps' = swaps + 1 /\ UNCHANGED <<cfg, emitted, procd, lastp, dead>>
     ELSE IF e.e = "proc" THEN
        LET r == <<e.p, e.i>> IN
        IF r \notin emitted THEN Reject("processed_row_never_emitted") /\ UNCHANGED <<cfg, emitted, procd, lastp, swaps>>
        ELSE IF r \in procd THEN Reject("row_processed_twice") /\ UNCHANGED <<cfg, emitted, procd, lastp, swaps>>
        ELSE procd' = procd \cup {r} /\ lastp' = SetLast(e.p, e.i) /\ UNCHANGED <<cfg, emitted, swaps, dead>>
     ELSE IF e.e = "stats" THEN
        /\ IF e.quiet = 0 THEN Reject("never_quiescent_rows_lost")
           ELSE IF Cardinality(procd) + e.dropped # Cardinality(emitted) THEN Reject("rows_neither_processed_nor_counted_as_dropped")
           ELSE IF cfg.strategy = "block" /\ e.dropped # 0 THEN Reject("block_strategy_dropped_rows")
           \* the instance's own accounting (GetStats): every Emit call is counted as input, every processed row of the witness query
           \* (no WHERE) produced one result that was either handed on or counted as dropped at the output
           ELSE IF "input" \in DOMAIN e /\ e.input # Cardinality(emitted) THEN Reject("stats_input_count_differs_from_emit_calls")
           ELSE IF "output" \in DOMAIN e /\ e.output + e.outdrop # Cardinality(procd) THEN Reject("stats_output_counts_differ_from_processed_rows")
           ELSE IF cfg.strategy = "expand" /\ e.cap > cfg.max THEN Reject("buffer_expanded_beyond_maximum")
           ELSE IF cfg.strategy # "expand" /\ e.cap # cfg.data THEN Reject("buffer_capacity_changed")
           ELSE UNCHANGED dead
        /\ UNCHANGED <<cfg, emitted, procd, lastp, swaps>>
     ELSE UNCHANGED <<cfg, emitted, procd, lastp, swaps, dead>>
Spec == Init /\ [][Next]_vars
AllConsumed == TLCGet("stats").diameter - 1 = Len(Trace)
=============================================================================
