----------------------------- MODULE TraceIngest -----------------------------
(***************************************************************************)
(* Contract monitor for the input path (C19) on traces of the real engine:   *)
(* emit(p, i) is logged before the call, proc(p, i) when the row reaches the  *)
(* query (synchronous sink of SELECT id, p), swap when an expansion installed *)
(* a new buffer, stats at quiescence (input_dropped_count, capacity).         *)
(*                                                                           *)
(* A producer numbers its rows 1, 2, 3, ... in emission order, so the state   *)
(* is kept per producer as counters and intervals (traces hold tens of        *)
(* thousands of rows):                                                        *)
(*   emax[p]  highest number emitted by p                                     *)
(*   last[p]  highest number of p processed so far                            *)
(*   skipped  intervals <<p, lo, hi>> of numbers below last[p] that have NOT  *)
(*            been processed (dropped, or still to come = processed late)     *)
(*   early    rows that were processed BEFORE a lower-numbered row of the     *)
(*            same producer                                                   *)
(* The recorded deviation ExpansionReordersRows is narrow: the consumer reads *)
(* the buffer reference once per row, so per installed buffer (swap) it can   *)
(* take at most ONE row from the old buffer while that buffer is being        *)
(* migrated - at most one early row per swap (Ingest.tla: EarlyBound).        *)
(***************************************************************************)
EXTENDS Integers, Sequences, FiniteSets, TLC, Json, IOUtils
CONSTANT Dev
Trace == ndJsonDeserialize(IOEnv.TRACE_FILE)
VARIABLES l, cfg, nemit, emax, nproc, lastp, skipped, swaps, dead, early
vars == <<l, cfg, nemit, emax, nproc, lastp, skipped, swaps, dead, early>>

Reject(code) == /\ PrintT(<<"REJECT", cfg.tr, l, code>>) /\ dead' = TRUE
Init == l = 1 /\ cfg = [tr |-> -1] /\ nemit = 0 /\ emax = <<>> /\ nproc = 0 /\ lastp = <<>> /\ skipped = {} /\ swaps = 0 /\ dead = FALSE /\ early = {}
Get(f, p) == LET hits == {i \in 1..Len(f) : f[i][1] = p} IN IF hits = {} THEN 0 ELSE f[CHOOSE i \in hits : TRUE][2]
Put(f, p, n) == LET hits == {i \in 1..Len(f) : f[i][1] = p} IN
                IF hits = {} THEN Append(f, <<p, n>>) ELSE [f EXCEPT ![CHOOSE i \in hits : TRUE] = <<p, n>>]
Max(a, b) == IF a > b THEN a ELSE b
Min(a, b) == IF a < b THEN a ELSE b
\* numbers a producer never hands in under its own name: every Empties-th row goes in as an attribute-less row ("producer" 0)
Hole(p, i) == "empties" \in DOMAIN cfg /\ cfg.empties > 0 /\ p # 0 /\ i % cfg.empties = 0
Emitted(p, i) == i >= 1 /\ i <= Get(emax, p) /\ ~Hole(p, i)
SkippedAt(p, i) == {s \in skipped : s[1] = p /\ s[2] <= i /\ i <= s[3]}
\* processed rows of p with a number in (i, hi]: everything there that is neither skipped nor a hole
Overlap(s, lo, hi) == Max(0, Min(s[3], hi) - Max(s[2], lo) + 1)
RECURSIVE SumOverlap(_, _, _)
SumOverlap(S, lo, hi) == IF S = {} THEN 0 ELSE LET s == CHOOSE x \in S : TRUE IN Overlap(s, lo, hi) + SumOverlap(S \ {s}, lo, hi)
Relevant(p, lo, hi) == {s \in skipped : s[1] = p /\ s[3] >= lo /\ s[2] <= hi}
\* processed rows of p with a number in lo..hi = the numbers there outside every skipped interval (a number that is never handed in
\* - a hole - below last[p] always lies inside a skipped interval: it was passed over).  Called only when there are at most `swaps`
\* of them, so every run of processed numbers starts at lo or right behind a skipped interval and is at most `swaps` long
ProcessedIn(p, lo, hi) ==
  LET R == Relevant(p, lo, hi)
      starts == {lo} \cup {s[3] + 1 : s \in R}
      cand == UNION {b..Min(hi, b + swaps) : b \in starts} IN
  {x \in cand : x >= lo /\ x <= hi /\ SkippedAt(p, x) = {}}

Next ==
  /\ l <= Len(Trace) /\ l' = l + 1
  /\ LET e == Trace[l] IN
     IF e.e = "reset" THEN cfg' = e /\ nemit' = 0 /\ emax' = <<>> /\ nproc' = 0 /\ lastp' = <<>> /\ skipped' = {} /\ swaps' = 0 /\ dead' = FALSE /\ early' = {}
     ELSE IF dead THEN UNCHANGED <<cfg, nemit, emax, nproc, lastp, skipped, swaps, dead, early>>
     ELSE IF e.e = "emit" THEN nemit' = nemit + 1 /\ emax' = Put(emax, e.p, Max(Get(emax, e.p), e.i)) /\ UNCHANGED <<cfg, nproc, lastp, skipped, swaps, dead, early>>
     ELSE IF e.e = "swap" THEN swaps' = swaps + 1 /\ UNCHANGED <<cfg, nemit, emax, nproc, lastp, skipped, dead, early>>
     ELSE IF e.e = "proc" THEN
        LET p == e.p  i == e.i  last == Get(lastp, e.p) IN
        IF ~Emitted(p, i) THEN Reject("processed_row_never_emitted") /\ UNCHANGED <<cfg, nemit, emax, nproc, lastp, skipped, swaps, early>>
        ELSE IF i > last THEN
           \* in emission order; the numbers passed over are dropped rows - or rows still to come (late)
           /\ nproc' = nproc + 1 /\ lastp' = Put(lastp, p, i)
           /\ skipped' = IF i > last + 1 /\ cfg.strategy = "expand" THEN skipped \cup {<<p, last + 1, i - 1>>} ELSE skipped
           /\ UNCHANGED <<cfg, nemit, emax, swaps, dead, early>>
        ELSE IF i = last \/ (cfg.strategy = "expand" /\ SkippedAt(p, i) = {}) THEN
           Reject("row_processed_twice") /\ UNCHANGED <<cfg, nemit, emax, nproc, lastp, skipped, swaps, early>>
        ELSE
           \* a LATE row: rows of the same producer with higher numbers were processed before it.  A single producer's rows must be
           \* processed in emission order (not in the "stalled" schedule: there the consumer is busy in the sink during every
           \* expansion and holds no old reference)
           LET admitted == "ExpansionReordersRows" \in Dev /\ cfg.strategy = "expand" /\ swaps > 0 /\ ~("strict" \in DOMAIN cfg /\ cfg.strict = 1)
               lower == (last - i) - SumOverlap(Relevant(p, i + 1, last), i + 1, last) IN      \* number of rows of p processed before this one with a higher number
           IF ~admitted \/ lower > swaps
             THEN Reject("producer_order_violated") /\ UNCHANGED <<cfg, nemit, emax, nproc, lastp, skipped, swaps, early>>
             ELSE LET ne == early \cup {<<p, x>> : x \in ProcessedIn(p, i + 1, last)}
                      s == CHOOSE x \in SkippedAt(p, i) : TRUE
                      parts == (IF s[2] <= i - 1 THEN {<<p, s[2], i - 1>>} ELSE {}) \cup (IF i + 1 <= s[3] THEN {<<p, i + 1, s[3]>>} ELSE {}) IN
                  IF Cardinality(ne) > swaps
                    THEN Reject("producer_order_violated") /\ UNCHANGED <<cfg, nemit, emax, nproc, lastp, skipped, swaps, early>>
                    ELSE /\ PrintT(<<"DEV", cfg.tr, l, "ExpansionReordersRows">>)
                         /\ nproc' = nproc + 1 /\ early' = ne /\ skipped' = (skipped \ {s}) \cup parts
                         /\ UNCHANGED <<cfg, nemit, emax, lastp, swaps, dead>>
     ELSE IF e.e = "stats" THEN
        /\ IF e.quiet = 0 THEN Reject("never_quiescent_rows_lost")
           ELSE IF nproc + e.dropped # nemit THEN Reject("rows_neither_processed_nor_counted_as_dropped")
           ELSE IF cfg.strategy = "block" /\ e.dropped # 0 THEN Reject("block_strategy_dropped_rows")
           \* the instance's own accounting (GetStats): every Emit call is counted as input, every processed row of the witness query
           \* (no WHERE) produced one result that was either handed on or counted as dropped at the output
           ELSE IF "input" \in DOMAIN e /\ e.input # nemit THEN Reject("stats_input_count_differs_from_emit_calls")
           ELSE IF "output" \in DOMAIN e /\ e.output + e.outdrop # nproc THEN Reject("stats_output_counts_differ_from_processed_rows")
           ELSE IF cfg.strategy = "expand" /\ e.cap > cfg.max THEN Reject("buffer_expanded_beyond_maximum")
           ELSE IF cfg.strategy # "expand" /\ e.cap # cfg.data THEN Reject("buffer_capacity_changed")
           ELSE UNCHANGED dead
        /\ UNCHANGED <<cfg, nemit, emax, nproc, lastp, skipped, swaps, early>>
     ELSE UNCHANGED <<cfg, nemit, emax, nproc, lastp, skipped, swaps, dead, early>>
Spec == Init /\ [][Next]_vars
AllConsumed == TLCGet("stats").diameter - 1 = Len(Trace)
=============================================================================
