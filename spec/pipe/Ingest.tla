------------------------------- MODULE Ingest -------------------------------
(***************************************************************************)
(* The input path of a stream (stream/strategy.go, handler_data.go,          *)
(* processor_data.go), expand strategy: producers call Emit; a send is a      *)
(* non-blocking channel send under the READ lock of dataChanMux; on a full    *)
(* channel one producer at a time (CAS 'expanding') grows the channel: it     *)
(* samples cap/len under the read lock, then under the WRITE lock migrates    *)
(* the queued rows one by one into a larger channel and swaps the reference;  *)
(* the producer then retries and finally counts a drop.  The single consumer  *)
(* reads the channel REFERENCE under the read lock and then receives from     *)
(* that reference OUTSIDE any lock (or times out after 100 ms and re-reads).  *)
(* One action per critical section.                                           *)
(***************************************************************************)
EXTENDS Integers, Sequences, FiniteSets, TLC, Json

CONSTANTS Producers, RowsPer, Cap0, MaxCap, Inc, Emit
VARIABLES chans,     \* sequence of channel objects [q, cap]; old objects stay (the consumer may still hold them)
          cur,       \* index of the current channel (s.dataChan)
          ppc,       \* producer -> program counter
          pn,        \* producer -> rows sent so far (next row = pn + 1)
          expanding, \* atomic flag
          wlock,     \* write lock holder (0 = free)
          ex,        \* expander's locals [newcap, from]
          cpc, cref, \* consumer: "read" | "recv"; reference it holds
          processed, dropped, hist
vars == <<chans, cur, ppc, pn, expanding, wlock, ex, cpc, cref, processed, dropped, hist>>

Row(p, i) == <<p, i>>
Init == /\ chans = <<[q |-> <<>>, cap |-> Cap0]>> /\ cur = 1
        /\ ppc = [p \in Producers |-> "send1"] /\ pn = [p \in Producers |-> 0]
        /\ expanding = 0 /\ wlock = 0 /\ ex = [newcap |-> 0, from |-> 0]
        /\ cpc = "read" /\ cref = 0 /\ processed = <<>> /\ dropped = 0 /\ hist = <<>>

Full(c) == Len(chans[c].q) >= chans[c].cap
Step(p, a) == hist' = Append(hist, [p |-> p, a |-> a])
Done(p) == pn[p] >= RowsPer

\* safeSendToDataChan: under RLock (excluded by the write lock)
TrySend(p, pcOK, pcFull) ==
  /\ wlock = 0 /\ ~Done(p)
  /\ IF ~Full(cur)
       THEN /\ chans' = [chans EXCEPT ![cur].q = Append(@, Row(p, pn[p] + 1))]
            /\ pn' = [pn EXCEPT ![p] = @ + 1] /\ ppc' = [ppc EXCEPT ![p] = pcOK]
       ELSE /\ ppc' = [ppc EXCEPT ![p] = pcFull] /\ UNCHANGED <<chans, pn>>
Send1(p) == ppc[p] = "send1" /\ TrySend(p, "send1", "cas") /\ Step(p, "send1")
            /\ UNCHANGED <<cur, expanding, wlock, ex, cpc, cref, processed, dropped>>
\* expandDataChannel: CAS, sample, decide
Cas(p) == /\ ppc[p] = "cas"
          /\ IF expanding = 0 THEN expanding' = p /\ ppc' = [ppc EXCEPT ![p] = "sample"]
             ELSE expanding' = expanding /\ ppc' = [ppc EXCEPT ![p] = "send2"]          \* someone else is expanding: skip
          /\ Step(p, "cas") /\ UNCHANGED <<chans, cur, pn, wlock, ex, cpc, cref, processed, dropped>>
Sample(p) ==   \* RLock: cap/len; ceiling, threshold (>= 90 %: with small caps = full) and growth arithmetic
  /\ ppc[p] = "sample" /\ wlock = 0
  /\ LET c == chans[cur].cap  n == Len(chans[cur].q)
         nc == IF c + Inc > MaxCap THEN MaxCap ELSE c + Inc IN
     IF c >= MaxCap \/ n * 10 < c * 9 \/ nc <= c
       THEN /\ expanding' = 0 /\ ppc' = [ppc EXCEPT ![p] = "send2"] /\ ex' = ex
       ELSE /\ ex' = [newcap |-> nc, from |-> cur] /\ ppc' = [ppc EXCEPT ![p] = "lock"] /\ expanding' = expanding
  /\ Step(p, "sample") /\ UNCHANGED <<chans, cur, pn, wlock, cpc, cref, processed, dropped>>
Lock(p) ==    \* dataChanMux.Lock(); oldChan := s.dataChan; newChan created
  /\ ppc[p] = "lock" /\ wlock = 0
  /\ wlock' = p /\ chans' = Append(chans, [q |-> <<>>, cap |-> ex.newcap]) /\ ex' = [ex EXCEPT !.from = cur]
  /\ ppc' = [ppc EXCEPT ![p] = "migrate"] /\ Step(p, "lock")
  /\ UNCHANGED <<cur, pn, expanding, cpc, cref, processed, dropped>>
Migrate(p) == \* one item old -> new, or (old empty) swap + unlock
  /\ ppc[p] = "migrate"
  /\ LET old == ex.from  new == Len(chans) IN
     IF chans[old].q # <<>>
       THEN /\ chans' = [chans EXCEPT ![old].q = Tail(@), ![new].q = Append(@, Head(chans[old].q))]
            /\ UNCHANGED <<cur, wlock, expanding, ppc>> /\ Step(p, "item")
       ELSE /\ cur' = new /\ wlock' = 0 /\ expanding' = 0 /\ ppc' = [ppc EXCEPT ![p] = "send2"]
            /\ chans' = chans /\ Step(p, "swap")
  /\ UNCHANGED <<pn, ex, cpc, cref, processed, dropped>>
Send2(p) == ppc[p] = "send2" /\ TrySend(p, "send1", "retry") /\ Step(p, "send2")
            /\ UNCHANGED <<cur, expanding, wlock, ex, cpc, cref, processed, dropped>>
\* three short retries collapsed into one more attempt, then the row is counted as dropped
Retry(p) ==
  /\ ppc[p] = "retry" /\ wlock = 0 /\ ~Done(p)
  /\ IF ~Full(cur)
       THEN /\ chans' = [chans EXCEPT ![cur].q = Append(@, Row(p, pn[p] + 1))] /\ dropped' = dropped
       ELSE /\ dropped' = dropped + 1 /\ chans' = chans
  /\ pn' = [pn EXCEPT ![p] = @ + 1] /\ ppc' = [ppc EXCEPT ![p] = "send1"] /\ Step(p, "retry")
  /\ UNCHANGED <<cur, expanding, wlock, ex, cpc, cref, processed>>

\* consumer
ReadRef == /\ cpc = "read" /\ wlock = 0 /\ cref' = cur /\ cpc' = "recv" /\ Step("c", "ref")
           /\ UNCHANGED <<chans, cur, ppc, pn, expanding, wlock, ex, processed, dropped>>
Recv ==    \* receive from the held reference (no lock), or the 100 ms ticker fires when it is empty
  /\ cpc = "recv"
  /\ IF chans[cref].q # <<>>
       THEN /\ processed' = Append(processed, Head(chans[cref].q)) /\ chans' = [chans EXCEPT ![cref].q = Tail(@)] /\ Step("c", "recv")
       ELSE /\ UNCHANGED <<processed, chans>> /\ Step("c", "tick")
  /\ cpc' = "read" /\ UNCHANGED <<cur, ppc, pn, expanding, wlock, ex, cref, dropped>>

Next == (\E p \in Producers : Send1(p) \/ Cas(p) \/ Sample(p) \/ Lock(p) \/ Migrate(p) \/ Send2(p) \/ Retry(p)) \/ ReadRef \/ Recv
Spec == Init /\ [][Next]_vars

\* ---------------- contract (C19) ----------------
InChans == UNION {{chans[c].q[i] : i \in 1..Len(chans[c].q)} : c \in 1..Len(chans)}
ProcSet == {processed[i] : i \in 1..Len(processed)}
NoDup == /\ \A i, j \in 1..Len(processed) : i # j => processed[i] # processed[j]
         /\ ProcSet \cap InChans = {}
CapWithinMax == \A c \in 1..Len(chans) : chans[c].cap <= MaxCap
\* every emitted row is queued, processed or counted as dropped - never silently lost (also mid-expansion)
Sent == {Row(p, i) : p \in Producers, i \in 1..RowsPer}
Emitted == UNION {{Row(p, i) : i \in 1..pn[p]} : p \in Producers}
Conservation == Cardinality(ProcSet) + Cardinality(InChans) + dropped = Cardinality(Emitted)
\* rows never strand on a channel nobody will read again
NoOrphan == \A c \in 1..Len(chans) : (c # cur /\ c # cref /\ (wlock = 0 \/ (c # ex.from /\ c # Len(chans)))) => chans[c].q = <<>>
\* a single producer's rows are processed in emission order
PerProducerOrder == \A i, j \in 1..Len(processed) : (i < j /\ processed[i][1] = processed[j][1]) => processed[i][2] < processed[j][2]
\* the exact shape of the recorded deviation from PerProducerOrder: the consumer reads the reference once per row, so at most one row per
\* created buffer is processed EARLY (before a lower-numbered row of the same producer); TraceIngest admits the deviation only within this bound
EarlyRows == {i \in 1..Len(processed) : \E j \in (i + 1)..Len(processed) : processed[j][1] = processed[i][1] /\ processed[j][2] < processed[i][2]}
EarlyBound == Cardinality(EarlyRows) <= Len(chans) - 1
Quiescent == (\A p \in Producers : Done(p)) /\ InChans = {} /\ wlock = 0
View == <<chans, cur, ppc, pn, expanding, wlock, ex, cpc, cref, processed, dropped>>
EmitScenario == (Emit /\ Quiescent) => PrintT(<<"SCEN", ToJson(hist)>>)
=============================================================================
