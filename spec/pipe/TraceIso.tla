------------------------------ MODULE TraceIso ------------------------------
(***************************************************************************)
(* C20 on traces of the real engine: callermut (the map handed to Emit /     *)
(* EmitSync differs from its snapshot after the row was fully processed),    *)
(* sinkmut (rows handed to a sink were altered afterwards), cmp (deliveries  *)
(* of an instance alone vs interleaved with another instance in the same     *)
(* process).                                                                 *)
(***************************************************************************)
EXTENDS Integers, Sequences, TLC, Json, IOUtils
CONSTANT Dev
Trace == ndJsonDeserialize(IOEnv.TRACE_FILE)
VARIABLES l, tr, dead
vars == <<l, tr, dead>>
Init == l = 1 /\ tr = -1 /\ dead = FALSE
Reject(code) == PrintT(<<"REJECT", tr, l, code>>) /\ dead' = TRUE
Next ==
  /\ l <= Len(Trace) /\ l' = l + 1
  /\ LET e == Trace[l] IN
     IF e.e = "reset" THEN tr' = e.tr /\ dead' = FALSE
     ELSE IF dead THEN UNCHANGED <<tr, dead>>
     ELSE IF e.e = "callermut" THEN
        (IF Len(e.added) > 0 THEN Reject("engine_added_keys_to_the_callers_map")
         ELSE IF Len(e.removed) > 0 THEN Reject("engine_removed_keys_from_the_callers_map")
         ELSE Reject("engine_changed_values_in_the_callers_map")) /\ UNCHANGED tr
     ELSE IF e.e = "sinkmut" THEN Reject("rows_handed_to_a_sink_were_altered_afterwards") /\ UNCHANGED tr
     ELSE IF e.e = "cmp" THEN
        (IF e.alone = e.paired THEN UNCHANGED dead ELSE Reject("instance_" \o e.inst \o "_results_differ_when_another_instance_runs")) /\ UNCHANGED tr
     ELSE IF e.e \in {"execerr", "panic"} THEN Reject("engine_" \o e.e) /\ UNCHANGED tr
     ELSE UNCHANGED <<tr, dead>>
Spec == Init /\ [][Next]_vars
AllConsumed == TLCGet("stats").diameter - 1 = Len(Trace)
=============================================================================
