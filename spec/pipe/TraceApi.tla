------------------------------ MODULE TraceApi ------------------------------
(***************************************************************************)
(* Monitor: re-runs the ApiProtocol machine over the outcomes the real       *)
(* instance reported for a replayed call sequence.                           *)
(*  reset  kind                                                              *)
(*  call   c (call name), out (outcome class), panic (0/1)                   *)
(*  sinks  rows = <<number of result rows each registered sink received>>    *)
(*         (in registration order), after the driver let the instance settle *)
(***************************************************************************)
EXTENDS Integers, Sequences, TLC, Json, IOUtils
CONSTANT Dev
Trace == ndJsonDeserialize(IOEnv.TRACE_FILE)
VARIABLES l, cfg, phase, sinks, nres, dead
vars == <<l, cfg, phase, sinks, nres, dead>>
Kind == cfg.kind

Reject(code) == PrintT(<<"REJECT", cfg.tr, l, code>>) /\ dead' = TRUE
Init == l = 1 /\ cfg = [tr |-> -1, kind |-> "direct"] /\ phase = "new" /\ sinks = <<>> /\ nres = 0 /\ dead = FALSE

Outcome(c) ==
  CASE c = "exec_ok"   -> IF phase = "new" THEN "ok" ELSE "err"
    [] c = "exec_bad"  -> "err"
    [] c = "emit"      -> "void"
    [] c = "sync"      -> IF phase = "new" THEN "err"
                          ELSE IF Kind # "direct" THEN "err"
                          ELSE IF phase = "running" THEN "row" ELSE "stopped_sync"
    [] c = "addsink"   -> "void"
    [] c = "stop"      -> "void"
    [] c = "stats"     -> IF phase = "new" THEN "empty" ELSE "nonempty"
    [] c = "upsert"    -> "err"
    [] c = "tochannel" -> IF phase = "new" THEN "nil" ELSE "chan"
    [] c = "trigger"   -> "void"
Produces(c) == phase = "running" /\ (c = "emit" \/ (c = "sync" /\ Kind = "direct"))
Owed(i) == IF sinks[i].live THEN nres - sinks[i].at ELSE 0

Next ==
  /\ l <= Len(Trace) /\ l' = l + 1
  /\ LET e == Trace[l] IN
     IF e.e = "reset" THEN cfg' = e /\ phase' = "new" /\ sinks' = <<>> /\ nres' = 0 /\ dead' = FALSE
     ELSE IF dead THEN UNCHANGED <<cfg, phase, sinks, nres, dead>>
     ELSE IF e.e = "call" THEN
        LET want == Outcome(e.c) IN
        /\ IF e.panic = 1 THEN Reject("api_call_panicked_" \o e.c)
           \* EmitSync after Stop: an error or no result - never a row that reaches nobody
           ELSE IF want = "stopped_sync" THEN (IF e.out \in {"err", "norow"} THEN UNCHANGED dead ELSE Reject("emitsync_after_stop_returned_a_row"))
           ELSE IF e.out # want THEN Reject("outcome_of_" \o e.c \o "_in_phase_" \o phase \o "_is_" \o e.out)
           ELSE UNCHANGED dead
        /\ phase' = CASE e.c = "exec_ok" /\ phase = "new" -> "running"
                      [] e.c = "stop" /\ phase = "running" -> "stopped"
                      [] OTHER -> phase
        /\ sinks' = IF e.c = "addsink" THEN Append(sinks, [at |-> nres, live |-> phase = "running"]) ELSE sinks
        /\ nres' = IF Produces(e.c) THEN nres + 1 ELSE nres
        /\ UNCHANGED cfg
     ELSE IF e.e = "sinks" THEN
        /\ IF Len(e.rows) # Len(sinks) THEN Reject("harness_sink_count")
           ELSE IF \E i \in 1..Len(sinks) : e.rows[i] > Owed(i) THEN Reject("sink_received_more_than_was_produced_after_its_registration")
           ELSE IF \E i \in 1..Len(sinks) : e.rows[i] < Owed(i) THEN Reject("sink_missed_results_produced_after_its_registration")
           ELSE UNCHANGED dead
        /\ UNCHANGED <<cfg, phase, sinks, nres>>
     ELSE UNCHANGED <<cfg, phase, sinks, nres, dead>>
Spec == Init /\ [][Next]_vars
AllConsumed == TLCGet("stats").diameter - 1 = Len(Trace)
=============================================================================
