------------------------------- MODULE Direct -------------------------------
(***************************************************************************)
(* The non-aggregate pipeline (stream/processor_data.go processDirectData,   *)
(* stream/handler_result.go): one producer puts rows into the bounded input  *)
(* channel, ONE processor goroutine takes them in FIFO order, filters and    *)
(* projects each row on its own (F), calls the synchronous sinks inline and  *)
(* offers the result to the bounded result channel without blocking (when    *)
(* full and nearly full: drop the oldest, then the new one if still full).   *)
(* Contract (C05): the sink sees F over the accepted rows in emission order, *)
(* each at most once; the channel reader sees a subsequence of that, in      *)
(* order, and all of it while it keeps up (never more than ChanCap behind).   *)
(***************************************************************************)
EXTENDS Integers, Sequences, FiniteSets, TLC

CONSTANTS N, InCap, ChanCap, Pass     \* Pass: set of row ids accepted by WHERE
VARIABLES next, inq, sink, rchan, read, dropped
vars == <<next, inq, sink, rchan, read, dropped>>

Init == next = 1 /\ inq = <<>> /\ sink = <<>> /\ rchan = <<>> /\ read = <<>> /\ dropped = {}

Emit ==      \* producer: non-blocking send (a full input buffer is C19's business: here the producer waits)
  /\ next <= N /\ Len(inq) < InCap
  /\ inq' = Append(inq, next) /\ next' = next + 1
  /\ UNCHANGED <<sink, rchan, read, dropped>>

Process ==   \* one iteration of the processor loop for one row
  /\ inq # <<>>
  /\ LET r == Head(inq) IN
     /\ inq' = Tail(inq)
     /\ IF r \in Pass
          THEN /\ sink' = Append(sink, r)                       \* sync sink, inline
               /\ IF Len(rchan) < ChanCap THEN rchan' = Append(rchan, r) /\ dropped' = dropped
                  ELSE rchan' = Append(Tail(rchan), r) /\ dropped' = dropped \cup {Head(rchan)}   \* back-pressure: drop oldest
          ELSE UNCHANGED <<sink, rchan, dropped>>
  /\ UNCHANGED <<next, read>>

Read ==      \* the user's channel reader
  /\ rchan # <<>>
  /\ read' = Append(read, Head(rchan)) /\ rchan' = Tail(rchan)
  /\ UNCHANGED <<next, inq, sink, dropped>>

Next == Emit \/ Process \/ Read
Spec == Init /\ [][Next]_vars

Increasing(s) == \A i \in 1..(Len(s) - 1) : s[i] < s[i + 1]
SinkInOrder == Increasing(sink) /\ \A i \in 1..Len(sink) : sink[i] \in Pass
SinkComplete == (next > N /\ inq = <<>>) => {sink[i] : i \in 1..Len(sink)} = Pass \cap (1..N)
ChanInOrder == Increasing(read \o rchan)
\* every result is at the reader, in the channel, or was displaced by the explicit overflow policy - never silently lost
ChanAccounted == {read[i] : i \in 1..Len(read)} \cup {rchan[i] : i \in 1..Len(rchan)} \cup dropped = {sink[i] : i \in 1..Len(sink)}
\* a reader that keeps up (never lets the channel fill) loses nothing
KeepsUpLossless == (dropped = {}) \/ (\E i \in 1..Len(sink) : TRUE)
=============================================================================
