---------------------------- MODULE ApiProtocol ----------------------------
(***************************************************************************)
(* The call protocol of one Streamsql instance (streamsql.go), as a state   *)
(* machine over the public API - one action per call, the state the fields  *)
(* the calls read: whether Execute has succeeded (s.stream != nil), whether *)
(* Stop has run, which sinks have been registered and when.                 *)
(*                                                                          *)
(*   phase   "new"      no successful Execute yet (a failed Execute leaves   *)
(*                      the instance new: it may be executed again)         *)
(*           "running"  Execute succeeded                                    *)
(*           "stopped"  Stop was called after a successful Execute           *)
(*   sinks   sequence of registration records [at |-> step, live |-> BOOL]:  *)
(*           a sink added before Execute is LOST (AddSink is a no-op while   *)
(*           s.stream = nil), one added while running sees every result      *)
(*           produced afterwards, one added after Stop is never invoked.     *)
(*   nres    results produced so far (one per accepted row: the witness      *)
(*           queries produce exactly one result row per input row)           *)
(*                                                                          *)
(* Every behaviour of this machine up to MaxLen calls is printed as a        *)
(* scenario (sequence of calls); the Go driver replays it on a real          *)
(* instance and TraceApi re-runs the machine over the recorded outcomes.     *)
(***************************************************************************)
EXTENDS Integers, Sequences, TLC, Json

CONSTANTS Kind,      \* "direct" | "agg" | "cep": which witness query Execute installs
          MaxLen, Emit

Calls == {"exec_ok", "exec_bad", "emit", "sync", "addsink", "stop", "stats", "upsert", "tochannel", "trigger"}

VARIABLES phase, sinks, nres, hist
vars == <<phase, sinks, nres, hist>>

Init == phase = "new" /\ sinks = <<>> /\ nres = 0 /\ hist = <<>>

\* the outcome class the call reports to its caller
Outcome(c) ==
  CASE c = "exec_ok"   -> IF phase = "new" THEN "ok" ELSE "err"
    [] c = "exec_bad"  -> "err"
    [] c = "emit"      -> "void"
    [] c = "sync"      -> IF phase = "new" THEN "err"
                          ELSE IF Kind # "direct" THEN "err"
                          ELSE IF phase = "running" THEN "row" ELSE "stopped_sync"
    [] c = "addsink"   -> "void"
    [] c = "stop"      -> "void"
    [] c = "stats"     -> IF phase = "new" THEN "empty" ELSE "nonempty"
    [] c = "upsert"    -> "err"        \* no table of that name is ever registered
    [] c = "tochannel" -> IF phase = "new" THEN "nil" ELSE "chan"
    [] c = "trigger"   -> "void"

Produces(c) == phase = "running" /\ (c = "emit" \/ (c = "sync" /\ Kind = "direct"))

Do(c) ==
  /\ Len(hist) < MaxLen
  /\ hist' = Append(hist, c)
  /\ phase' = CASE c = "exec_ok" /\ phase = "new" -> "running"
                [] c = "stop" /\ phase = "running" -> "stopped"
                [] OTHER -> phase
  /\ sinks' = IF c = "addsink" THEN Append(sinks, [at |-> nres, live |-> phase = "running"]) ELSE sinks
  /\ nres' = IF Produces(c) THEN nres + 1 ELSE nres

Next == \E c \in Calls : Do(c)
Spec == Init /\ [][Next]_vars

\* --------------------------------------------------------------- properties
\* rows a sink must have received by now
Owed(i) == IF sinks[i].live THEN nres - sinks[i].at ELSE 0
TypeOK == phase \in {"new", "running", "stopped"} /\ nres >= 0
StoppedIsFinal == [][phase = "stopped" => phase' = "stopped"]_vars
NothingAfterStop == [][phase = "stopped" => nres' = nres]_vars
LostSinksStayLost == \A i \in 1..Len(sinks) : ~sinks[i].live => Owed(i) = 0

EmitScenario == (Emit /\ Len(hist) = MaxLen) => PrintT(<<"SCEN", ToJson(hist)>>)
=============================================================================
