----------------------------- MODULE IngestCount -----------------------------
(***************************************************************************)
(* Counter abstraction of the input path (pipe/Ingest.tla) for UNBOUNDED    *)
(* producers and rows: how many rows have been decided (queued or counted   *)
(* as dropped), how many sit in the current buffer and in the buffer being  *)
(* built by an expansion, how many were processed, how many dropped.        *)
(* C19's counting clauses - conservation, no loss while a buffer is being   *)
(* expanded, the capacity ceiling - are an INDUCTIVE invariant of this       *)
(* machine; Apalache discharges it for all values of the counters           *)
(*   apalache-mc check --init=IndInit --inv=IndInv --length=1               *)
(*   apalache-mc check --init=Init    --inv=IndInv --length=0               *)
(* and TLC checks that Ingest.tla refines it (Ingest.cfg: PROPERTY          *)
(* CountSpec under the mapping given there), which is what lets the          *)
(* unbounded result speak about the code-shaped model.  Order and            *)
(* duplication are not visible at this level (Ingest.tla, TraceIngest).     *)
(***************************************************************************)
EXTENDS Integers

CONSTANT
  \* @type: Int;
  MaxCap
ASSUME MaxCap >= 1
\* for apalache (--cinit): the ceiling is ANY positive integer
CInit == MaxCap \in Nat /\ MaxCap >= 1

VARIABLES
  \* @type: Int;
  decided,    \* rows handed to Emit whose fate is settled: queued or counted as dropped
  \* @type: Int;
  qCur,       \* rows in the buffer producers and consumer currently use
  \* @type: Int;
  capCur,
  \* @type: Bool;
  mig,        \* an expansion holds the write lock: rows move one by one into the new buffer
  \* @type: Int;
  qNew,
  \* @type: Int;
  capNew,
  \* @type: Int;
  processed,
  \* @type: Int;
  dropped
vars == <<decided, qCur, capCur, mig, qNew, capNew, processed, dropped>>

Init == /\ decided = 0 /\ qCur = 0 /\ capCur \in 1..MaxCap /\ mig = FALSE /\ qNew = 0 /\ capNew = 0 /\ processed = 0 /\ dropped = 0

\* a send under the read lock finds room
Send == /\ ~mig /\ qCur < capCur
        /\ qCur' = qCur + 1 /\ decided' = decided + 1
        /\ UNCHANGED <<capCur, mig, qNew, capNew, processed, dropped>>
\* the buffer is full and stays full through the producer's retries (or the strategy is "drop"): the row is COUNTED as dropped
Drop == /\ ~mig /\ qCur >= capCur
        /\ dropped' = dropped + 1 /\ decided' = decided + 1
        /\ UNCHANGED <<qCur, capCur, mig, qNew, capNew, processed>>
\* expandDataChannel takes the write lock with a larger buffer, never beyond the ceiling
StartMig == /\ ~mig /\ capCur < MaxCap
            /\ \E c \in (capCur + 1)..MaxCap : capNew' = c
            /\ mig' = TRUE /\ qNew' = 0
            /\ UNCHANGED <<decided, qCur, capCur, processed, dropped>>
MigItem == /\ mig /\ qCur > 0
           /\ qCur' = qCur - 1 /\ qNew' = qNew + 1
           /\ UNCHANGED <<decided, capCur, mig, capNew, processed, dropped>>
Swap == /\ mig /\ qCur = 0
        /\ qCur' = qNew /\ capCur' = capNew /\ mig' = FALSE /\ qNew' = 0 /\ capNew' = 0
        /\ UNCHANGED <<decided, processed, dropped>>
\* the consumer receives outside any lock - also from the old buffer while it is being emptied by the migration
Recv == /\ qCur > 0
        /\ qCur' = qCur - 1 /\ processed' = processed + 1
        /\ UNCHANGED <<decided, capCur, mig, qNew, capNew, dropped>>

Next == Send \/ Drop \/ StartMig \/ MigItem \/ Swap \/ Recv
CountSpec == Init /\ [][Next]_vars

TypeOK == /\ decided \in Nat /\ qCur \in Nat /\ capCur \in Nat /\ mig \in BOOLEAN /\ qNew \in Nat /\ capNew \in Nat
          /\ processed \in Nat /\ dropped \in Nat
Conservation == decided = qCur + qNew + processed + dropped
Ceiling == capCur >= 1 /\ capCur <= MaxCap /\ (mig => capNew > capCur /\ capNew <= MaxCap)
Fits == qCur <= capCur /\ (mig => qCur + qNew <= capCur) /\ (~mig => qNew = 0)
IndInv == TypeOK /\ Conservation /\ Ceiling /\ Fits
\* for apalache: every variable is bound first, then constrained
IndInit == /\ decided \in Nat /\ qCur \in Nat /\ capCur \in Nat /\ mig \in BOOLEAN /\ qNew \in Nat /\ capNew \in Nat
           /\ processed \in Nat /\ dropped \in Nat
           /\ IndInv
=============================================================================
