--------------------------------- MODULE Iso ---------------------------------
(***************************************************************************)
(* C20: (a) frame condition - no action of an instance writes to the rows   *)
(* handed in by the caller; (b) two instances in one process are the         *)
(* interleaving composition Inst(1) || Inst(2) of deterministic              *)
(* single-instance machines: each instance's deliveries are a function of    *)
(* ITS OWN inputs.  The process-wide state that could couple them - a cache  *)
(* keyed by expression TEXT whose entry is specialised by the first row that *)
(* filled it - is modelled explicitly: SharedEntry = TRUE lets the entry's   *)
(* specialisation leak into the result (the defect class), FALSE is the      *)
(* contract (the entry is a pure function of the text).                      *)
(***************************************************************************)
EXTENDS Integers, Sequences, FiniteSets, TLC
CONSTANTS Insts, MaxRows, Kinds, SharedEntry
VARIABLES inputs,   \* inst -> seq of [kind, v] handed in by the caller (caller-owned: never written)
          caller,   \* inst -> the caller's copies (what the caller still holds)
          outs,     \* inst -> seq of delivered results
          cache     \* text -> kind of the first row evaluated under that text ("" = empty); all instances use the same text
vars == <<inputs, caller, outs, cache>>
Init == inputs = [i \in Insts |-> <<>>] /\ caller = [i \in Insts |-> <<>>] /\ outs = [i \in Insts |-> <<>>] /\ cache = ""
\* result of one row: v + 1 for numbers, v for text - unless a shared specialised cache entry decides
Eval(k, v, c) == IF SharedEntry /\ c # "" /\ c # k THEN <<"mis", v>> ELSE <<k, IF k = "num" THEN v + 1 ELSE v>>
Emit(i, k, v) ==
  /\ Len(inputs[i]) < MaxRows
  /\ LET c == IF cache = "" THEN k ELSE cache IN
     /\ cache' = c
     /\ outs' = [outs EXCEPT ![i] = Append(@, Eval(k, v, cache))]
  /\ inputs' = [inputs EXCEPT ![i] = Append(@, <<k, v>>)]
  /\ caller' = [caller EXCEPT ![i] = Append(@, <<k, v>>)]          \* the engine leaves the caller's row as it was
Next == \E i \in Insts, k \in Kinds, v \in 1..2 : Emit(i, k, v)
Spec == Init /\ [][Next]_vars
\* (a) frame condition
CallerUntouched == caller = inputs
\* (b) each instance's deliveries = its own single-instance spec applied to its own inputs
Alone(i) == [n \in 1..Len(inputs[i]) |-> Eval(inputs[i][n][1], inputs[i][n][2], "")]
Independent == \A i \in Insts : outs[i] = Alone(i)
=============================================================================
