----------------------------- MODULE TraceChan -----------------------------
(***************************************************************************)
(* The result channel next to a synchronous sink (C04 / C07: "each emitted   *)
(* batch"): a consumer that reads the channel LATER than the sink was called *)
(* sees batches the engine emitted - each exactly as it was handed to the    *)
(* sink, in emission order.  A channel that is full may shed whole batches    *)
(* (the configured back-pressure policy); it never merges, splits or alters  *)
(* one.  Events: reset, out (sink batch), chan (channel batch).              *)
(***************************************************************************)
EXTENDS SV, Json, IOUtils
CONSTANT Dev
Trace == ndJsonDeserialize(IOEnv.TRACE_FILE)
VARIABLES l, cfg, outs, cp, dead
vars == <<l, cfg, outs, cp, dead>>
SameRow(a, b) == DOMAIN a = DOMAIN b /\ \A c \in DOMAIN a : Same(a[c], b[c])
SameBatch(a, b) == Len(a) = Len(b) /\ \A i \in 1..Len(a) : SameRow(a[i], b[i])
Reject(code) == PrintT(<<"REJECT", cfg.tr, l, code>>) /\ dead' = TRUE
Init == l = 1 /\ cfg = [tr |-> -1] /\ outs = <<>> /\ cp = 0 /\ dead = FALSE
Next ==
  /\ l <= Len(Trace) /\ l' = l + 1
  /\ LET e == Trace[l] IN
     IF e.e = "reset" THEN cfg' = e /\ outs' = <<>> /\ cp' = 0 /\ dead' = FALSE
     ELSE IF dead THEN UNCHANGED <<cfg, outs, cp, dead>>
     ELSE IF e.e = "out" THEN outs' = Append(outs, e.rows) /\ UNCHANGED <<cfg, cp, dead>>
     ELSE IF e.e = "chan" THEN
        LET C == {i \in (cp + 1)..Len(outs) : SameBatch(outs[i], e.rows)} IN
        IF C = {} THEN Reject("channel_batch_is_no_emitted_batch") /\ UNCHANGED <<cfg, outs, cp>>
        ELSE cp' = (CHOOSE i \in C : \A j \in C : i <= j) /\ UNCHANGED <<cfg, outs, dead>>
     ELSE UNCHANGED <<cfg, outs, cp, dead>>
Spec == Init /\ [][Next]_vars
AllConsumed == TLCGet("stats").diameter - 1 = Len(Trace)
=============================================================================
