----------------------------- MODULE CepPending -----------------------------
(***************************************************************************)
(* Greedy match emission of the MATCH_RECOGNIZE engine (cep/engine.go:       *)
(* step, ingestPending, emitGreedy, emitOne, Flush) with AFTER MATCH SKIP    *)
(* PAST LAST ROW, pattern-agnostic: what a run does on an event (dies,       *)
(* extends, extends into an accepting state, completes) is chosen freely,    *)
(* one run per start position.  The engine must report the leftmost-longest  *)
(* matches for EVERY such environment:                                       *)
(*   best    every (start, length) at which a run was a match as it stood    *)
(*   Ref     the greedy selection over best: smallest allowed start, its     *)
(*           longest length, continue behind its last row                    *)
(* FixOrder   TRUE = emitGreedy since repair f23c005: pending starts are      *)
(*            emitted leftmost first and wait for live runs that started at   *)
(*            or before them; FALSE = every pending start without a live run  *)
(*            of its own is emitted                                           *)
(* KeepPrefix TRUE = step since repair fa2ae81: an accepting run that is      *)
(*            being extended stays the pending candidate of its start         *)
(***************************************************************************)
EXTENDS Integers, Sequences, FiniteSets, TLC

CONSTANTS MaxEv, FixOrder, KeepPrefix
VARIABLES seq, runs, pending, nextStart, emitted, best, flushed
vars == <<seq, runs, pending, nextStart, emitted, best, flushed>>

Outcomes == {"die", "ext", "extacc", "complete"}
Seeds    == {"none", "run", "runacc", "complete"}

Init == seq = 0 /\ runs = {} /\ pending = {} /\ nextStart = 1 /\ emitted = <<>> /\ best = {} /\ flushed = FALSE

\* ingestPending: per start only the longest completion, starts before nextStart are ignored
Longest(P, s) == CHOOSE n \in {p[2] : p \in {q \in P : q[1] = s}} : \A p \in P : p[1] = s => p[2] <= n
Ingest(pend, comps, ns) ==
  LET all == pend \cup {c \in comps : c[1] >= ns}
  IN {<<s, Longest(all, s)>> : s \in {p[1] : p \in all}}

\* emitGreedy + emitOne (SKIP PAST LAST ROW: nextStart = start + length; survivors and pending before it are pruned)
RECURSIVE Emit(_, _, _, _)
Emit(pend, surv, ns, out) ==
  LET cand == {p \in pend : p[1] >= ns /\ (IF FixOrder THEN TRUE ELSE ~\E r \in surv : r.s = p[1])} IN
  IF cand = {} THEN [pend |-> {p \in pend : p[1] >= ns}, surv |-> surv, ns |-> ns, out |-> out]
  ELSE LET p == CHOOSE x \in cand : \A y \in cand : x[1] <= y[1] IN
       IF FixOrder /\ \E r \in surv : r.s >= ns /\ r.s <= p[1]
         THEN [pend |-> {q \in pend : q[1] >= ns}, surv |-> surv, ns |-> ns, out |-> out]      \* blocked: an earlier (or the same) start is still being extended
         ELSE LET ns2 == p[1] + p[2] IN
              Emit({q \in pend : q # p /\ q[1] >= ns2}, {r \in surv : r.s >= ns2}, ns2, Append(out, p))

Step ==
  /\ seq < MaxEv /\ ~flushed
  /\ \E f \in [runs -> Outcomes], sd \in Seeds :
       LET ev    == seq + 1
           succ  == {[s |-> r.s, n |-> r.n + 1, acc |-> (f[r] = "extacc")] : r \in {x \in runs : f[x] \in {"ext", "extacc"}}}
           seed  == IF ev >= nextStart /\ sd \in {"run", "runacc"} THEN {[s |-> ev, n |-> 1, acc |-> (sd = "runacc")]} ELSE {}
           comps == {<<r.s, r.n>> : r \in {x \in runs : f[x] = "die" /\ x.acc}}                                         \* unbounded repetition ends
                    \cup (IF KeepPrefix THEN {<<r.s, r.n>> : r \in {x \in runs : f[x] \in {"ext", "extacc"} /\ x.acc}} ELSE {})
                    \cup {<<r.s, r.n + 1>> : r \in {x \in runs : f[x] = "complete"}}
                    \cup (IF ev >= nextStart /\ sd = "complete" THEN {<<ev, 1>>} ELSE {})
           truth == {<<r.s, r.n + 1>> : r \in {x \in runs : f[x] \in {"extacc", "complete"}}}
                    \cup (IF ev >= nextStart /\ sd \in {"runacc", "complete"} THEN {<<ev, 1>>} ELSE {})
           e     == Emit(Ingest(pending, comps, nextStart), succ \cup seed, nextStart, emitted)
       IN /\ seq' = ev /\ runs' = e.surv /\ pending' = e.pend /\ nextStart' = e.ns /\ emitted' = e.out
          /\ best' = best \cup truth
  /\ UNCHANGED flushed

\* Flush at Stop: every accepting run is a completion, no survivors
Flush ==
  /\ ~flushed /\ flushed' = TRUE
  /\ LET comps == {<<r.s, r.n>> : r \in {x \in runs : x.acc}}
         e     == Emit(Ingest(pending, comps, nextStart), {}, nextStart, emitted)
     IN runs' = {} /\ pending' = e.pend /\ nextStart' = e.ns /\ emitted' = e.out
  /\ UNCHANGED <<seq, best>>

Next == Step \/ Flush
Spec == Init /\ [][Next]_vars

\* ------------------------------------------------------------- contract (C15)
RECURSIVE Ref(_)
Ref(ns) ==
  LET S == {p[1] : p \in {q \in best : q[1] >= ns}} IN
  IF S = {} THEN <<>>
  ELSE LET s == CHOOSE x \in S : \A y \in S : x <= y
           n == Longest(best, s)
       IN <<<<s, n>>>> \o Ref(s + n)
\* after the flush the reported matches are exactly the leftmost-longest ones
LeftmostLongest == flushed => emitted = Ref(1)
\* matches never share a row and come in start order
Disjoint == \A i, j \in 1..Len(emitted) : i < j => emitted[i][1] + emitted[i][2] <= emitted[j][1]
=============================================================================
