---------------------------- MODULE TraceFastPath ----------------------------
(***************************************************************************)
(* Monitor for C12 on traces of the real engine: for every (predicate, row)   *)
(* the decision of the shortcut-eligible text must equal the decision of the  *)
(* general engine on the parenthesised equivalent, and neither may panic;     *)
(* through a query (WHERE) the row must be accepted iff the general decision  *)
(* is true.                                                                   *)
(***************************************************************************)
EXTENDS Integers, Sequences, TLC, Json, IOUtils
CONSTANT Dev
Trace == ndJsonDeserialize(IOEnv.TRACE_FILE)
VARIABLES l, tr, dead, cfg
vars == <<l, tr, dead, cfg>>
Init == l = 1 /\ tr = -1 /\ dead = FALSE /\ cfg = [tr |-> -1]
\* string (in)equality against a text literal has an answer of its own, independent of anything compiled earlier in the process:
\* exact, case- and blank-sensitive comparison; a column the row does not have is NULL for the general engine: equal to no text,
\* different from every text
HasStr == "strq" \in DOMAIN cfg
StrExpect(i) == LET v == cfg.strq.vals[i] IN
                IF v.m = 1 THEN (IF cfg.strq.op = "==" THEN 0 ELSE 1)
                ELSE IF cfg.strq.op = "==" THEN (IF v.s = cfg.strq.lit THEN 1 ELSE 0)
                ELSE (IF v.s # cfg.strq.lit THEN 1 ELSE 0)
Reject(code) == PrintT(<<"REJECT", tr, l, code>>) /\ dead' = TRUE
Next ==
  /\ l <= Len(Trace) /\ l' = l + 1
  /\ LET e == Trace[l] IN
     IF e.e = "reset" THEN tr' = e.tr /\ dead' = FALSE /\ cfg' = e
     ELSE IF dead THEN UNCHANGED <<tr, dead, cfg>>
     ELSE IF e.e = "dec" THEN
        /\ IF e.pf = 1 \/ e.pg = 1 THEN Reject("panic_in_predicate_evaluation")
           ELSE IF e.cf = 1 /\ e.cg = 0 THEN Reject("shortcut_text_does_not_compile")
           ELSE IF e.cf = 0 /\ e.cg = 0 /\ e.fast # e.gen THEN Reject("shortcut_decision_differs_from_general_engine")
           ELSE IF HasStr /\ e.cg = 0 /\ e.gen # StrExpect(e.i) THEN Reject("decision_is_not_the_one_of_this_predicate_text")
           ELSE IF HasStr /\ e.cf = 0 /\ e.fast # StrExpect(e.i) THEN Reject("decision_is_not_the_one_of_this_predicate_text")
           ELSE IF HasStr /\ "q" \in DOMAIN e /\ e.q >= 0 /\ e.q # StrExpect(e.i) THEN Reject("decision_is_not_the_one_of_this_predicate_text")
           ELSE IF "q" \in DOMAIN e /\ e.q >= 0 /\ e.cg = 0 /\ e.q # e.gen THEN Reject("query_decision_differs_from_general_engine")
           \* other spellings of the same predicate (literal OP column with the mirrored operator): 2 = panic, -1 = did not compile
           ELSE IF "alt" \in DOMAIN e /\ e.cg = 0 /\ \E k \in 1..Len(e.alt) : e.alt[k] = 2 THEN Reject("panic_in_predicate_evaluation")
           ELSE IF "alt" \in DOMAIN e /\ e.cg = 0 /\ \E k \in 1..Len(e.alt) : e.alt[k] \in {0, 1} /\ e.alt[k] # e.gen THEN Reject("equivalent_spelling_decides_differently_from_general_engine")
           ELSE UNCHANGED dead
        /\ UNCHANGED <<tr, cfg>>
     ELSE IF e.e = "conc" THEN
        /\ IF e.panics > 0 THEN Reject("panic_in_concurrent_predicate_evaluation")
           ELSE IF e.bad > 0 THEN Reject("decision_changes_under_concurrent_evaluation")
           ELSE UNCHANGED dead
        /\ UNCHANGED <<tr, cfg>>
     ELSE UNCHANGED <<tr, dead, cfg>>
Spec == Init /\ [][Next]_vars
AllConsumed == TLCGet("stats").diameter - 1 = Len(Trace)
=============================================================================
