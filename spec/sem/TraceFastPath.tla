---------------------------- MODULE TraceFastPath ----------------------------
(***************************************************************************)
(* Monitor for C12 on traces of the real engine: for every (predicate, row)   *)
(* the decision of the shortcut-eligible text must equal the decision of the  *)
(* general engine on the parenthesised equivalent, and neither may panic;     *)
(* through a query (WHERE) the row must be accepted iff the general decision  *)
(* is true.                                                                   *)
(***************************************************************************)
EXTENDS Integers, Sequences, TLC, Json, IOUtils
CONSTANT Dev
Trace == ndJsonDeserialize(IOEnv.TRACE_FILE)
VARIABLES l, tr, dead
vars == <<l, tr, dead>>
Init == l = 1 /\ tr = -1 /\ dead = FALSE
Reject(code) == PrintT(<<"REJECT", tr, l, code>>) /\ dead' = TRUE
Next ==
  /\ l <= Len(Trace) /\ l' = l + 1
  /\ LET e == Trace[l] IN
     IF e.e = "reset" THEN tr' = e.tr /\ dead' = FALSE
     ELSE IF dead THEN UNCHANGED <<tr, dead>>
     ELSE IF e.e = "dec" THEN
        /\ IF e.pf = 1 \/ e.pg = 1 THEN Reject("panic_in_predicate_evaluation")
           ELSE IF e.cf = 1 /\ e.cg = 0 THEN Reject("shortcut_text_does_not_compile")
           ELSE IF e.cf = 0 /\ e.cg = 0 /\ e.fast # e.gen THEN Reject("shortcut_decision_differs_from_general_engine")
           ELSE IF "q" \in DOMAIN e /\ e.q >= 0 /\ e.cg = 0 /\ e.q # e.gen THEN Reject("query_decision_differs_from_general_engine")
           \* other spellings of the same predicate (literal OP column with the mirrored operator): 2 = panic, -1 = did not compile
           ELSE IF "alt" \in DOMAIN e /\ e.cg = 0 /\ \E k \in 1..Len(e.alt) : e.alt[k] = 2 THEN Reject("panic_in_predicate_evaluation")
           ELSE IF "alt" \in DOMAIN e /\ e.cg = 0 /\ \E k \in 1..Len(e.alt) : e.alt[k] \in {0, 1} /\ e.alt[k] # e.gen THEN Reject("equivalent_spelling_decides_differently_from_general_engine")
           ELSE UNCHANGED dead
        /\ UNCHANGED tr
     ELSE IF e.e = "conc" THEN
        /\ IF e.panics > 0 THEN Reject("panic_in_concurrent_predicate_evaluation")
           ELSE IF e.bad > 0 THEN Reject("decision_changes_under_concurrent_evaluation")
           ELSE UNCHANGED dead
        /\ UNCHANGED tr
     ELSE UNCHANGED <<tr, dead>>
Spec == Init /\ [][Next]_vars
AllConsumed == TLCGet("stats").diameter - 1 = Len(Trace)
=============================================================================
