--------------------------------- MODULE Join ---------------------------------
(***************************************************************************)
(* Stream-table JOIN as a concurrent object (stream/table_store.go: an index *)
(* under an RWMutex): Upsert / Delete / Lookup are atomic; an updater and     *)
(* processing rows interleave arbitrarily.  Contract: every processed row     *)
(* sees exactly the table produced by the updates that RETURNED before its    *)
(* lookup (linearisability at the lock), INNER drops / LEFT keeps unmatched.  *)
(***************************************************************************)
EXTENDS Integers, Sequences, FiniteSets, TLC
CONSTANTS Keys, Vals, MaxOps, Kind
VARIABLES tbl,     \* key -> value, 0 = absent
          log,     \* history of returned updates as a sequence of tables (ghost)
          results, \* processed rows: [k, seen, tblAt]
          n
vars == <<tbl, log, results, n>>
Init == tbl = [k \in Keys |-> 0] /\ log = <<>> /\ results = <<>> /\ n = 0
Upsert(k, v) == n < MaxOps /\ n' = n + 1 /\ tbl' = [tbl EXCEPT ![k] = v] /\ log' = Append(log, tbl') /\ UNCHANGED results
Delete(k) == n < MaxOps /\ n' = n + 1 /\ tbl' = [tbl EXCEPT ![k] = 0] /\ log' = Append(log, tbl') /\ UNCHANGED results
Process(k) == n < MaxOps /\ n' = n + 1 /\ results' = Append(results, [k |-> k, seen |-> tbl[k], at |-> Len(log)]) /\ UNCHANGED <<tbl, log>>
Next == (\E k \in Keys, v \in Vals : Upsert(k, v)) \/ (\E k \in Keys : Delete(k)) \/ (\E k \in Keys : Process(k))
Spec == Init /\ [][Next]_vars
\* each processed row saw the table as of the last update that returned before it
SeesLatest == \A i \in 1..Len(results) :
   LET r == results[i]  t == IF r.at = 0 THEN [k \in Keys |-> 0] ELSE log[r.at] IN r.seen = t[r.k]
\* delivered iff matched (INNER) / always (LEFT)
Delivered(r) == IF Kind = "inner" THEN r.seen # 0 ELSE TRUE
=============================================================================
