---------------------------- MODULE TracePostAgg ----------------------------
(***************************************************************************)
(* Contract monitor for post-aggregation clauses (C07) on traces of the real *)
(* engine: event-time tumbling batches (rows 1..n closed by a flush row, or  *)
(* several consecutive batches: bounds = cumulative row counts, every batch   *)
(* judged from ITS OWN rows alone - nothing is carried from batch to batch)  *)
(* grouped by column g.  reset line:                                         *)
(*   aggdefs = <<[key, fn, arg]>>   aggregates referenced anywhere           *)
(*   sel     = <<[al, e]>>          select items: ASTs over aggregate keys   *)
(*   gsel    = 1 when the group column g is selected                         *)
(*   having  = AST over aggregate keys and select aliases (optional)         *)
(*   order   = <<[al, desc]>>, limit = n (0: none), distinct = 0 / 1          *)
(* Relational order: project -> DISTINCT -> HAVING -> ORDER BY -> LIMIT.       *)
(***************************************************************************)
EXTENDS Agg, Expr, Json, IOUtils

CONSTANT Dev
Trace == ndJsonDeserialize(IOEnv.TRACE_FILE)
VARIABLES l, cfg, rows, nout, dead      \* nout = number of batches settled so far (delivered, or passed over because HAVING kept nothing)
vars == <<l, cfg, rows, nout, dead>>

GKey(row) == KeyOf(Col(row, "g"))
Bounds == IF "bounds" \in DOMAIN cfg THEN cfg.bounds ELSE <<cfg.n>>
NB == Len(Bounds)
Lo(b) == IF b = 1 THEN 1 ELSE Bounds[b - 1] + 1
Hi(b) == Bounds[b]
Groups(b) == {GKey(rows[i]) : i \in Lo(b)..Hi(b)}
Idx(b, k) == LET S == {i \in Lo(b)..Hi(b) : GKey(rows[i]) = k} IN
             [j \in 1..Cardinality(S) |-> CHOOSE i \in S : Cardinality({m \in S : m < i}) = j - 1]
GVal(b, k) == Col(rows[Idx(b, k)[1]], "g")

\* aggregate value of one definition over the group's rows, as a reference value
AggVal(d, ix) ==
  \* the argument is the column d.arg, or (d.abs = 1) abs() of it: an aggregate over an EXPRESSION of the row
  LET raw(i) == Col(rows[ix[i]], d.arg)
      \* ... or (d.mul = k # 0) the column times a literal: sum(v * 2)
      xs == [i \in 1..Len(ix) |-> IF "abs" \in DOMAIN d /\ d.abs = 1 /\ raw(i).k = "num" /\ raw(i).v < 0 THEN NumV(-raw(i).v)
                                   ELSE IF "mul" \in DOMAIN d /\ d.mul # 0 /\ raw(i).k = "num" THEN NumV(raw(i).v * d.mul) ELSE raw(i)]
      u == Usable(xs) IN
  CASE d.fn = "count_star" -> Rat(Len(ix), 1)
    [] d.fn = "count" -> Rat(Len(NonNull(xs)), 1)
    [] d.fn = "sum"   -> IF u = <<>> THEN NullV ELSE Norm(SumF(u), Scale)
    [] d.fn = "avg"   -> IF u = <<>> THEN NullV ELSE Norm(SumF(u), Scale * Len(u))
    [] d.fn = "min"   -> IF u = <<>> THEN NullV ELSE Norm(MinF(u), Scale)
    [] d.fn = "max"   -> IF u = <<>> THEN NullV ELSE Norm(MaxF(u), Scale)
    \* nth_value(x, n): the n-th non-NULL value of the group in arrival order (d.p = n), NULL when there are fewer
    [] d.fn = "nth_value" -> IF Len(u) >= d.p THEN Norm(u[d.p].v, Scale) ELSE NullV
    \* value of the last row in which the column is present (an explicit NULL counts)
    [] d.fn = "last_value" -> LET ps == SelectSeq(ix, LAMBDA i : Has(rows[i], d.arg)) IN
                              IF ps = <<>> THEN NullV ELSE FromSV(rows[ps[Len(ps)]][d.arg])
Keys == {cfg.aggdefs[i].key : i \in 1..Len(cfg.aggdefs)}
DefOf(key) == cfg.aggdefs[CHOOSE i \in 1..Len(cfg.aggdefs) : cfg.aggdefs[i].key = key]
AggEnv(b, k) == [key \in Keys |-> AggVal(DefOf(key), Idx(b, k))]
Aliases == {cfg.sel[i].al : i \in 1..Len(cfg.sel)}
ItemOf(al) == cfg.sel[CHOOSE i \in 1..Len(cfg.sel) : cfg.sel[i].al = al]
\* projected reference row of group k: alias -> value (evaluated over the aggregate environment)
Proj(b, k) == [al \in Aliases |-> Eval(ItemOf(al).e, AggEnv(b, k))]
\* HAVING sees aggregates and aliases
FullEnv(b, k) == [x \in Keys \cup Aliases |-> IF x \in Keys THEN AggEnv(b, k)[x] ELSE Proj(b, k)[x]]
Keeps(b, k) == "having" \notin DOMAIN cfg \/ IsTrue(Eval(cfg.having, FullEnv(b, k)))
Survivors(b) == {k \in Groups(b) : Keeps(b, k)}
\* the batch a delivery belongs to: the first complete batch not yet settled in which HAVING keeps something (batches are delivered in order)
\* (a tumbling batch is complete once a row beyond it has closed it; cfg.cnt = 1: batches cut by COUNT are complete with their last row)
Closed(b) == IF "cnt" \in DOMAIN cfg /\ cfg.cnt = 1 THEN Len(rows) >= Hi(b) ELSE Len(rows) > Hi(b)
Cand == {b \in (nout + 1)..NB : Closed(b) /\ Survivors(b) # {}}
Cur == CHOOSE b \in Cand : \A c \in Cand : b <= c

\* delivered row r shows group k
RowIs(r, b, k) ==
  /\ (cfg.gsel = 1 => ("g" \in DOMAIN r /\ Same(r.g, GVal(b, k))))
  /\ \A al \in Aliases : Bad(Proj(b, k)[al]) \/ (al \in DOMAIN r /\ Matches(r[al], Proj(b, k)[al]))
\* the engine also reports the GROUP BY column when it is not selected; only HAVING helpers and other extras are "hidden" columns
Visible == Aliases \cup {"g", "window_id"}

\* ORDER BY: consecutive delivered rows respect the key list (compared on the engine's own values)
NumOf(v) == IF v.k = "num" THEN v.v ELSE 0
RECURSIVE Before(_, _, _)
Before(a, b, i) ==     \* a may precede b w.r.t. order keys i..
  IF i > Len(cfg.order) THEN TRUE
  ELSE LET o == cfg.order[i]  x == NumOf(a[o.al])  y == NumOf(b[o.al]) IN
       IF x = y THEN Before(a, b, i + 1) ELSE IF o.desc = 1 THEN x > y ELSE x < y
Sorted(rs) == \A i \in 1..(Len(rs) - 1) : Before(rs[i], rs[i + 1], 1)

OutCode(e) ==
  IF Cand = {} THEN "unexpected_delivery" ELSE
  LET rs == e.rows  b == Cur  S == Survivors(b) IN
  IF \E i \in 1..Len(rs) : \E c \in DOMAIN rs[i] : c \notin Visible THEN "hidden_or_extra_column_delivered"
  ELSE IF \E i \in 1..Len(rs) : ~\E k \in Groups(b) : RowIs(rs[i], b, k) THEN "row_matches_no_group"
  ELSE IF \E i \in 1..Len(rs) : ~\E k \in S : RowIs(rs[i], b, k) THEN "having_kept_a_rejected_group"
  ELSE IF cfg.distinct = 0 /\ cfg.gsel = 1 /\ \E i, j \in 1..Len(rs) : i # j /\ Same(rs[i].g, rs[j].g) THEN "group_delivered_twice"
  ELSE IF cfg.distinct = 1 /\ \E i, j \in 1..Len(rs) : i # j /\ \A c \in DOMAIN rs[i] \ {"window_id"} : c \in DOMAIN rs[j] /\ Same(rs[i][c], rs[j][c]) THEN "duplicate_row_despite_distinct"
  ELSE IF Len(cfg.order) > 0 /\ ~Sorted(rs) THEN "not_sorted_by_order_by"
  ELSE IF cfg.limit > 0 /\ Len(rs) > cfg.limit THEN "more_rows_than_limit"
  ELSE IF cfg.limit = 0 /\ cfg.distinct = 0 /\ Len(rs) # Cardinality(S) THEN "surviving_group_missing"
  ELSE IF cfg.limit > 0 /\ cfg.distinct = 0 /\ Len(rs) # (IF Cardinality(S) < cfg.limit THEN Cardinality(S) ELSE cfg.limit) THEN "wrong_row_count_under_limit"
  \* LIMIT keeps the FIRST n of the order: no surviving group outside the delivery may sort strictly before a delivered one
  ELSE IF cfg.limit > 0 /\ Len(cfg.order) > 0 /\ cfg.distinct = 0 /\ cfg.gsel = 1 /\
          \E k \in S : (~\E i \in 1..Len(rs) : RowIs(rs[i], b, k)) /\
                       \E i \in 1..Len(rs) : LET o == cfg.order[1]  pv == Proj(b, k)[o.al] IN
                            pv.k = "rat" /\ rs[i][o.al].k = "num" /\
                            (IF o.desc = 1 THEN pv.n * Scale > rs[i][o.al].v * pv.d + pv.d ELSE pv.n * Scale + pv.d < rs[i][o.al].v * pv.d)
       THEN "limit_did_not_keep_the_first_rows"
  ELSE IF cfg.distinct = 1 /\ cfg.limit = 0 /\ (\E k \in S : ~(\E i \in 1..Len(rs) : RowIs(rs[i], b, k))) THEN "surviving_group_missing"
  ELSE ""

Reject(code) == /\ PrintT(<<"REJECT", cfg.tr, l, code>>) /\ dead' = TRUE
Init == l = 1 /\ cfg = [tr |-> -1] /\ rows = <<>> /\ nout = 0 /\ dead = FALSE
Next ==
  /\ l <= Len(Trace) /\ l' = l + 1
  /\ LET e == Trace[l] IN
     IF e.e = "reset" THEN cfg' = e /\ rows' = <<>> /\ nout' = 0 /\ dead' = FALSE
     ELSE IF dead THEN UNCHANGED <<cfg, rows, nout, dead>>
     ELSE IF e.e = "in" THEN rows' = Append(rows, e.row) /\ UNCHANGED <<cfg, nout, dead>>
     ELSE IF e.e = "out" THEN
        LET c == IF Len(rows) < Hi(1) THEN "delivery_before_batch_complete" ELSE OutCode(e) IN
        IF c = "" THEN nout' = Cur /\ UNCHANGED <<cfg, rows, dead>>
        ELSE Reject(c) /\ UNCHANGED <<cfg, rows, nout>>
     ELSE IF e.e = "quiesce" THEN
        /\ IF Cand # {} THEN Reject("missing_delivery") ELSE UNCHANGED dead
        /\ UNCHANGED <<cfg, rows, nout>>
     ELSE IF e.e \in {"execerr", "panic"} THEN Reject("engine_" \o e.e) /\ UNCHANGED <<cfg, rows, nout>>
     ELSE UNCHANGED <<cfg, rows, nout, dead>>
Spec == Init /\ [][Next]_vars
AllConsumed == TLCGet("stats").diameter - 1 = Len(Trace)
=============================================================================
