------------------------------ MODULE TraceJoin ------------------------------
(***************************************************************************)
(* Stream-table JOIN (C16) on traces of the real engine.  The table is state *)
(* (key tuple -> row) changed by upsert / delete events; every stream row is *)
(* enriched from the table state at the time it is processed.               *)
(* reset line: kind ("inner" | "left"), on = <<[s, t]>> pairs (stream col,   *)
(* table col), scols = selected stream columns, tcols = <<[al, c]>> selected *)
(* table columns, where = [c, op, lit] on a table column (optional).         *)
(* Keys: numbers match numerically, strings exactly, a number never equals   *)
(* a string; a NULL key component leaves the outcome open.                   *)
(***************************************************************************)
EXTENDS SV, Json, IOUtils
CONSTANT Dev
Trace == ndJsonDeserialize(IOEnv.TRACE_FILE)
VARIABLES l, cfg, tbl, cur, got, dead
vars == <<l, cfg, tbl, cur, got, dead>>

\* cfg.joins = <<[name, kind, on, tcols]>> in SQL order; tbl = one table (sequence of rows) per join
TKey(j, t) == [i \in 1..Len(cfg.joins[j].on) |-> KeyOf(Col(t, cfg.joins[j].on[i][2]))]
\* an ON pair is <<stream column, table column>> or <<text, table column, path>> when the stream side is a nested path
SVal(r, p) == IF Len(p) = 3 THEN ColPath(r, p[3]) ELSE Col(r, p[1])
SKey(j, r) == [i \in 1..Len(cfg.joins[j].on) |-> KeyOf(SVal(r, cfg.joins[j].on[i]))]
HasNullKey(k) == \E i \in 1..Len(k) : k[i] = <<"null">>
JoinOf(name) == CHOOSE j \in 1..Len(cfg.joins) : cfg.joins[j].name = name
UpsertIn(j, t, row) == LET hits == {i \in 1..Len(t) : TKey(j, t[i]) = TKey(j, row)} IN
                       IF hits = {} THEN Append(t, row) ELSE [t EXCEPT ![CHOOSE i \in hits : TRUE] = row]
\* registering rows = upserting them one after the other (a later row with an equal key replaces the earlier)
RECURSIVE Load(_, _, _)
Load(j, t, rs) == IF rs = <<>> THEN t ELSE Load(j, UpsertIn(j, t, Head(rs)), Tail(rs))
DeleteIn(j, t, key) == SelectSeq(t, LAMBDA x : TKey(j, x) # [i \in 1..Len(key) |-> KeyOf(key[i])])
Matches(j, r) == {i \in 1..Len(tbl[j]) : TKey(j, tbl[j][i]) = SKey(j, r)}
NoRow == [x \in {} |-> Null]
\* the table row joined by join j (NoRow when none)
Joined(j, r) == LET m == Matches(j, r) IN IF m = {} THEN NoRow ELSE tbl[j][CHOOSE i \in m : TRUE]

Cmp(op, a, b) == CASE op = ">" -> a > b [] op = ">=" -> a >= b [] op = "<" -> a < b [] op = "<=" -> a <= b [] op = "=" -> a = b
WherePass(r) == "where" \notin DOMAIN cfg \/
                (LET x == Col(Joined(cfg.where.j, r), cfg.where.c) IN x.k = "num" /\ Cmp(cfg.where.op, x.v, cfg.where.lit))
\* produced iff every INNER join matches and the WHERE (on a joined column) is true
Present(r) == (\A j \in 1..Len(cfg.joins) : cfg.joins[j].kind = "left" \/ Matches(j, r) # {}) /\ WherePass(r)
Open(r) == \E j \in 1..Len(cfg.joins) : HasNullKey(SKey(j, r))

RowCode(o, r) ==
  IF \E i \in 1..Len(cfg.scols) : ~(cfg.scols[i] \in DOMAIN o /\ Same(o[cfg.scols[i]], Col(r, cfg.scols[i]))) THEN "stream_column_wrong"
  ELSE IF \E j \in 1..Len(cfg.joins) : \E i \in 1..Len(cfg.joins[j].tcols) :
            LET tc == cfg.joins[j].tcols[i] IN ~(tc.al \in DOMAIN o /\ Same(o[tc.al], Col(Joined(j, r), tc.c))) THEN "table_column_wrong"
  ELSE ""

Reject(code) == /\ PrintT(<<"REJECT", cfg.tr, l, code>>) /\ dead' = TRUE
Init == l = 1 /\ cfg = [tr |-> -1] /\ tbl = <<>> /\ cur = [x \in {} |-> Null] /\ got = TRUE /\ dead = FALSE
Pending == ~got /\ ~Open(cur) /\ Present(cur)

Next ==
  /\ l <= Len(Trace) /\ l' = l + 1
  /\ LET e == Trace[l] IN
     IF e.e = "reset" THEN cfg' = e /\ tbl' = [j \in 1..Len(e.joins) |-> <<>>] /\ cur' = [x \in {} |-> Null] /\ got' = TRUE /\ dead' = FALSE
     ELSE IF dead THEN UNCHANGED <<cfg, tbl, cur, got, dead>>
     ELSE IF e.e = "table" THEN     \* (re-)registration: the rows replace the table; a row processed before must already have its result
        /\ IF Pending THEN Reject("matching_row_dropped") ELSE UNCHANGED dead
        /\ tbl' = [tbl EXCEPT ![JoinOf(e.name)] = Load(JoinOf(e.name), <<>>, e.rows)]
        /\ got' = TRUE /\ UNCHANGED <<cfg, cur>>
     ELSE IF e.e = "in" THEN
        \* lock-step: the previous row has been processed against the table state of ITS time (checked at its out/ret)
        /\ cur' = e.row /\ got' = FALSE /\ UNCHANGED <<cfg, tbl, dead>>
     ELSE IF e.e = "out" THEN
        LET c == IF Len(e.rows) # 1 THEN "batch_not_single_row"
                 ELSE IF got THEN "duplicate_result"
                 ELSE IF Open(cur) THEN ""
                 ELSE IF ~Present(cur) THEN "result_for_row_without_match"
                 ELSE RowCode(e.rows[1], cur) IN
        IF c = "" THEN got' = TRUE /\ UNCHANGED <<cfg, tbl, cur, dead>> ELSE Reject(c) /\ UNCHANGED <<cfg, tbl, cur, got>>
     ELSE IF e.e = "ret" THEN
        /\ IF e.panic = 1 THEN Reject("emitsync_panic")
           ELSE IF Open(cur) THEN UNCHANGED dead
           ELSE IF e.has = 1 /\ ~Present(cur) THEN Reject("result_for_row_without_match")
           ELSE IF e.has = 0 /\ Present(cur) /\ e.err = 0 THEN Reject("matching_row_dropped")
           ELSE IF e.has = 1 /\ RowCode(e.row, cur) # "" THEN Reject(RowCode(e.row, cur))
           ELSE UNCHANGED dead
        /\ got' = TRUE /\ UNCHANGED <<cfg, tbl, cur>>
     ELSE IF e.e \in {"upsert", "delete", "quiesce"} THEN
        \* a row processed BEFORE the change must already have produced its result (lock-step): otherwise it was lost
        /\ IF Pending THEN Reject("matching_row_dropped") ELSE UNCHANGED dead
        /\ tbl' = IF e.e = "upsert" THEN [tbl EXCEPT ![JoinOf(e.table)] = UpsertIn(JoinOf(e.table), @, e.row)]
                  ELSE IF e.e = "delete" THEN [tbl EXCEPT ![JoinOf(e.table)] = DeleteIn(JoinOf(e.table), @, e.key)] ELSE tbl
        /\ got' = TRUE /\ UNCHANGED <<cfg, cur>>
     ELSE IF e.e \in {"execerr", "panic"} THEN Reject("engine_" \o e.e) /\ UNCHANGED <<cfg, tbl, cur, got>>
     ELSE UNCHANGED <<cfg, tbl, cur, got, dead>>
Spec == Init /\ [][Next]_vars
AllConsumed == TLCGet("stats").diameter - 1 = Len(Trace)
=============================================================================
