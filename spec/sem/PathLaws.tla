------------------------------ MODULE PathLaws ------------------------------
(***************************************************************************)
(* Model-checked facts about lib/FieldPath (nested paths of C05) and the     *)
(* generator of the path scenarios: every (document, path) pair with a path  *)
(* of at most MaxLen steps over the step alphabet is an initial state.       *)
(* TLC checks the laws on all of them and prints each path (once) and the    *)
(* documents as JSON; the driver renders the SQL text and the rows, the real *)
(* engine resolves the paths, and TraceDirect judges every projected value   *)
(* with the same FieldPath!PResolve.                                         *)
(***************************************************************************)
EXTENDS FieldPath, Json

CONSTANTS MaxLen, Emit
VARIABLES d, p
vars == <<d, p>>

N(n) == [k |-> "num", v |-> n * Scale]
S(s) == [k |-> "str", v |-> s]
M(f) == [k |-> "map", v |-> f]
L(s) == [k |-> "list", v |-> s]

\* documents: objects in arrays in objects, scalars of every kind, NULL, an empty array, keys with a blank / a keyword / a colon / a dot
Doc1 == M([a |-> N(1),
           b |-> L(<<N(10), N(20), N(30)>>),
           c |-> M(("k" :> S("x")) @@ ("t" :> N(2)) @@ ("a b" :> N(3)) @@ ("as" :> S("kw")) @@ ("x:y" :> N(4)) @@ ("p.q" :> N(6))),
           m |-> L(<<M([t |-> N(5)]), M([t |-> N(6), u |-> L(<<N(7), N(8)>>)])>>),
           n |-> Null,
           e |-> L(<<>>)])
Doc2 == M([a |-> L(<<L(<<N(1), N(2)>>), L(<<N(3)>>)>>),              \* matrix[1][0]
           b |-> L(<<S("p")>>),
           c |-> M([k |-> Null, t |-> M([t |-> N(9)])]),
           m |-> L(<<Null, M([t |-> S("q")])>>),
           t |-> N(11)])
Doc3 == M([b |-> N(5), c |-> S("text"), m |-> M([t |-> L(<<N(1)>>)]), u |-> BoolV(TRUE)])
Docs == <<Doc1, Doc2, Doc3>>

F(n) == [k |-> "f", n |-> n]
K(n) == [k |-> "k", n |-> n]
I(i) == [k |-> "i", i |-> i]
Steps == {F("a"), F("b"), F("c"), F("m"), F("t"), F("u"), F("k"), F("zz"),
          K("k"), K("t"), K("a b"), K("as"), K("x:y"), K("b"), K("p.q"),
          I(0), I(1), I(2), I(-1), I(-2), I(-3), I(-4), I(3)}
Paths == UNION {[1..n -> Steps] : n \in 1..MaxLen}

Init == d \in 1..Len(Docs) /\ p \in Paths
Next == UNCHANGED vars
Spec == Init /\ [][Next]_vars

Doc == Docs[d]
Laws ==
  \* resolution is step-wise: a path is its first step followed by the rest, and a split anywhere gives the same value
  /\ \A i \in 0..Len(p) : PResolve(Doc, p) = PResolve(PResolve(Doc, SubSeq(p, 1, i)), SubSeq(p, i + 1, Len(p)))
  \* NULL is absorbing: once a prefix is NULL the path is NULL
  /\ \A i \in 0..Len(p) : PResolve(Doc, SubSeq(p, 1, i)).k = "null" => PResolve(Doc, p).k = "null"
  \* a negative index names the same element as its positive counterpart; out of range is NULL
  /\ \A i \in 1..Len(p) :
        LET x == PResolve(Doc, SubSeq(p, 1, i - 1)) IN
        (p[i].k = "i" /\ x.k = "list") =>
           /\ (p[i].i < 0 /\ -p[i].i <= Len(x.v) => PStep(x, p[i]) = PStep(x, I(Len(x.v) + p[i].i)))
           /\ (p[i].i >= Len(x.v) \/ -p[i].i > Len(x.v) => PStep(x, p[i]).k = "null")
           /\ (p[i].i = -1 /\ Len(x.v) > 0 => PStep(x, p[i]) = x.v[Len(x.v)])
  \* .name and ['name'] are the same step
  /\ \A i \in 1..Len(p) : p[i].k \in {"f", "k"} =>
        LET x == PResolve(Doc, SubSeq(p, 1, i - 1)) IN PStep(x, F(p[i].n)) = PStep(x, K(p[i].n))
  \* an index never applies to an object or a scalar, a name never to an array or a scalar
  /\ \A i \in 1..Len(p) :
        LET x == PResolve(Doc, SubSeq(p, 1, i - 1)) IN
        /\ (p[i].k = "i" /\ x.k # "list" => PStep(x, p[i]).k = "null")
        /\ (p[i].k # "i" /\ x.k # "map" => PStep(x, p[i]).k = "null")

\* scenario output: each path once (with the number of documents in which it leads to a value), the documents once
Kinds == [i \in 1..Len(Docs) |-> PResolve(Docs[i], p).k]
EmitPath == (Emit /\ d = 1) => PrintT(<<"PATH", ToJson(p), ToJson(Kinds)>>)
ASSUME Emit => PrintT(<<"DOCS", ToJson(Docs)>>)
=============================================================================
