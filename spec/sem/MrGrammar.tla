----------------------------- MODULE MrGrammar -----------------------------
(***************************************************************************)
(* Statement builder for the MATCH_RECOGNIZE clause (C11): one option per   *)
(* sub-clause; the state space is the set of all clause combinations, which *)
(* TLC enumerates.  Each option name stands for a fixed text AND the part   *)
(* of types.MatchRecognizeSpec it must produce (tabulated side by side in   *)
(* checks/C11.py).  WITHIN is written in every documented form: quoted Go   *)
(* duration, integer + unit word, FRACTIONAL amount + unit word, short unit *)
(* names.                                                                   *)
(***************************************************************************)
EXTENDS Integers, Sequences, TLC, Json

Parts    == {"none", "one", "two"}
Rows     == {"default", "one", "all"}
Skips    == {"default", "past", "next", "first", "last"}
Withins  == {"none", "quoted", "quotedfrac", "intsec", "fracsec", "fracmin", "ms", "fracms", "hours", "fracshort"}
Patterns == {"seq", "quant", "alt", "reluct"}      \* reluct: reluctant quantifiers *? +? ?? {n,m}? (the ? is a token of its own: blanks before it are layout)
Subsets  == {"none", "one"}

VARIABLES part, rows, skip, within, pat, subset
vars == <<part, rows, skip, within, pat, subset>>
WellFormed == (skip \in {"first", "last"} => TRUE)
Init == /\ part \in Parts /\ rows \in Rows /\ skip \in Skips /\ within \in Withins /\ pat \in Patterns /\ subset \in Subsets /\ WellFormed
Next == UNCHANGED vars
Spec == Init /\ [][Next]_vars
Emit == PrintT(<<"SCEN", ToJson([part |-> part, rows |-> rows, skip |-> skip, within |-> within, pat |-> pat, subset |-> subset])>>)
=============================================================================
