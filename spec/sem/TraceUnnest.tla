----------------------------- MODULE TraceUnnest -----------------------------
(***************************************************************************)
(* Multi-row projection: SELECT <cols>, unnest(a) AS r FROM stream [WHERE]. *)
(* Reference semantics (docs/FUNCTIONS_USAGE_GUIDE: "expands an array into  *)
(* several rows"; element handling as implemented):                          *)
(*   a NULL / missing / empty   -> no result row                             *)
(*   a = <<e1, ..., en>>        -> n result rows in element order; row i is  *)
(*        the plain select columns of the input row plus                     *)
(*          r = ei              when ei is not an object                     *)
(*          the fields of ei    when ei is an object (the alias is dropped)  *)
(* Each input row's results are delivered (as one batch) before the next     *)
(* row's: the stateless, ordered discipline of C05 for a 1 : n projection.   *)
(*  reset: cols (plain select columns), arr (array column), al (alias),      *)
(*         where = [c, op, lit] or absent (comparison of a column with a     *)
(*         number)                                                           *)
(***************************************************************************)
EXTENDS SV, Json, IOUtils
CONSTANT Dev
Trace == ndJsonDeserialize(IOEnv.TRACE_FILE)
VARIABLES l, cfg, pend, has, dead
vars == <<l, cfg, pend, has, dead>>

Reject(code) == PrintT(<<"REJECT", cfg.tr, l, code>>) /\ dead' = TRUE
Init == l = 1 /\ cfg = [tr |-> -1] /\ pend = <<>> /\ has = FALSE /\ dead = FALSE

Base(row) == [c \in {c \in {cfg.cols[i] : i \in 1..Len(cfg.cols)} : Has(row, c)} |-> row[c]]
Merge(f, g) == [k \in DOMAIN f \cup DOMAIN g |-> IF k \in DOMAIN g THEN g[k] ELSE f[k]]
Passes(row) ==
  "where" \notin DOMAIN cfg \/
  LET x == Col(row, cfg.where.c) IN
  x.k = "num" /\ (CASE cfg.where.op = ">" -> x.v > cfg.where.lit [] cfg.where.op = "<" -> x.v < cfg.where.lit [] cfg.where.op = ">=" -> x.v >= cfg.where.lit)
Expand(row) ==
  IF ~Passes(row) THEN <<>>
  ELSE LET a == Col(row, cfg.arr) IN
       IF a.k # "list" THEN <<>>
       ELSE [i \in 1..Len(a.v) |-> IF a.v[i].k = "map" THEN Merge(Base(row), a.v[i].v) ELSE Merge(Base(row), [x \in {cfg.al} |-> a.v[i]])]

\* engine row r against reference row x: same columns (a NULL column may be absent), same values
RowOK(r, x) == /\ \A k \in DOMAIN x : IF k \in DOMAIN r THEN Same(r[k], x[k]) ELSE IsNull(x[k])
               /\ \A k \in DOMAIN r : k \in DOMAIN x \/ IsNull(r[k])

Next ==
  /\ l <= Len(Trace) /\ l' = l + 1
  /\ LET e == Trace[l] IN
     IF e.e = "reset" THEN cfg' = e /\ pend' = <<>> /\ has' = FALSE /\ dead' = FALSE
     ELSE IF dead THEN UNCHANGED <<cfg, pend, has, dead>>
     ELSE IF e.e = "in" THEN
        /\ IF has /\ pend # <<>> THEN Reject("results_of_previous_row_missing") ELSE UNCHANGED dead
        /\ pend' = Expand(e.row) /\ has' = TRUE /\ UNCHANGED cfg
     ELSE IF e.e = "out" THEN
        IF Len(e.rows) = 0 THEN UNCHANGED <<cfg, pend, has, dead>>          \* an empty batch says nothing
        ELSE IF ~has \/ pend = <<>> THEN Reject("result_rows_for_a_row_that_yields_none") /\ UNCHANGED <<cfg, pend, has>>
        ELSE IF Len(e.rows) # Len(pend) THEN Reject("number_of_result_rows_differs_from_number_of_elements") /\ UNCHANGED <<cfg, pend, has>>
        ELSE IF \E i \in 1..Len(pend) : ~RowOK(e.rows[i], pend[i]) THEN Reject("result_row_differs_from_element_in_order") /\ UNCHANGED <<cfg, pend, has>>
        ELSE pend' = <<>> /\ UNCHANGED <<cfg, has, dead>>
     ELSE IF e.e = "quiesce" THEN
        /\ IF pend # <<>> THEN Reject("results_of_last_row_missing") ELSE UNCHANGED dead
        /\ UNCHANGED <<cfg, pend, has>>
     ELSE IF e.e \in {"execerr", "panic"} THEN Reject("engine_" \o e.e) /\ UNCHANGED <<cfg, pend, has>>
     ELSE UNCHANGED <<cfg, pend, has, dead>>
Spec == Init /\ [][Next]_vars
AllConsumed == TLCGet("stats").diameter - 1 = Len(Trace)
=============================================================================
