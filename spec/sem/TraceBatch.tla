----------------------------- MODULE TraceBatch -----------------------------
(***************************************************************************)
(* Contract monitor for windowed aggregation batches, evaluated by TLC on    *)
(* traces of the real engine (C09 counting-window batching, C03 aggregate    *)
(* semantics, C04 GROUP BY partitioning).                                    *)
(*  reset line: carrier ("counting" | "tumbling"), n (rows per batch /       *)
(*  rows before the flush row), gcols (grouping columns), gout (their output *)
(*  names), aggs = <<[al, fn, arg, p]>>.                                     *)
(*  counting carrier: the window buffers per key tuple; the i-th delivery of *)
(*  a key aggregates that key's rows (i-1)n+1..in, deliveries happen in the  *)
(*  order in which keys complete a batch (lock-step replay).                 *)
(*  tumbling carrier: the first n rows form ONE batch holding several        *)
(*  groups; exactly one result row per distinct key tuple.                   *)
(***************************************************************************)
EXTENDS Agg, Expr, Json, IOUtils

CONSTANT Dev
Trace == ndJsonDeserialize(IOEnv.TRACE_FILE)

VARIABLES l, cfg, rows, buf, exp, nout, dead, used
vars == <<l, cfg, rows, buf, exp, nout, dead, used>>

\* grouping value of column i: the column itself, or (scalar-function key, e.g. upper(d)) its image under the
\* function's value table cfg.gmap[i] = <<<<in, out>>, ...>> supplied with the scenario
GVal(row, i) ==
  LET x == Col(row, cfg.gcols[i]) IN
  IF "gmap" \notin DOMAIN cfg \/ cfg.gmap[i] = <<>> \/ x.k # "str" THEN x
  ELSE LET hits == {j \in 1..Len(cfg.gmap[i]) : cfg.gmap[i][j][1] = x.v} IN
       IF hits = {} THEN x ELSE StrV(cfg.gmap[i][CHOOSE j \in hits : TRUE][2])
KeyTuple(row) == [i \in 1..Len(cfg.gcols) |-> KeyOf(GVal(row, i))]
KeyVals(row)  == [i \in 1..Len(cfg.gcols) |-> IF IsNull(GVal(row, i)) THEN Null ELSE GVal(row, i)]

RECURSIVE HasPath(_, _)
HasPath(x, p) == IF p = <<>> THEN TRUE ELSE x.k = "map" /\ Head(p) \in DOMAIN x.v /\ HasPath(x.v[Head(p)], Tail(p))
ArgVal(arg, row) ==
  CASE arg.k = "col"  -> IF Has(row, arg.c) THEN row[arg.c] ELSE Missing
    [] arg.k = "path" -> IF Has(row, Head(arg.p)) /\ HasPath(row[Head(arg.p)], Tail(arg.p)) THEN ColPath(row, arg.p) ELSE Missing
    [] arg.k = "lin"  -> IF ~Has(row, arg.c) THEN Missing
                         \* a NULL operand: the engine reports NULL for v*2 but skips the row for v*2+1; both are accepted
                         ELSE LET x == row[arg.c] IN IF IsNum(x) THEN NumV(x.v * arg.a + arg.b * Scale) ELSE Missing
    [] arg.k = "add2" -> IF ~Has(row, arg.c) \/ ~Has(row, arg.d) THEN Missing
                         ELSE LET x == row[arg.c]  y == row[arg.d] IN IF IsNum(x) /\ IsNum(y) THEN NumV(x.v + y.v) ELSE Missing
    \* affine expression over a column or nested path: base * an / ad + b   (o.v*2, o.v+100, v*1.5, o.v*2+1)
    [] arg.k = "aff"  -> LET x == IF "p" \in DOMAIN arg
                                    THEN (IF Has(row, Head(arg.p)) /\ HasPath(row[Head(arg.p)], Tail(arg.p)) THEN ColPath(row, arg.p) ELSE Missing)
                                    ELSE (IF Has(row, arg.c) THEN row[arg.c] ELSE Missing) IN
                         IF IsNum(x) THEN NumV((x.v * arg.an) \div arg.ad + arg.b * Scale) ELSE Missing
    \* shift-invariant aggregates (var, stddev) over LARGE values: the engine aggregates column v = offset + vs, the
    \* reference aggregates the small shadow column vs of the same row (var(v) = var(vs))
    [] arg.k = "shadow" -> IF Has(row, arg.c) THEN row[arg.c] ELSE Missing
    \* column handed through the user function vboom, which panics on cfg.poison.v: that row is skipped by this aggregate only
    [] arg.k = "boomcol" -> IF ~Has(row, arg.c) THEN Missing
                            ELSE IF IsNum(row[arg.c]) /\ row[arg.c].v = cfg.poison.v THEN Missing ELSE row[arg.c]
    \* CASE WHEN <condition> THEN 1 ELSE 0 END as an aggregate argument (C13's carrier "CASE conditions" inside an aggregate): the
    \* condition (LIKE, IS [NOT] NULL over columns the row may lack) is judged by lib/Expr on this row
    [] arg.k = "cond" -> IF IsTrue(Eval(arg.e, row)) THEN NumV(Scale) ELSE NumV(0)
    [] arg.k = "star" -> Null

\* parameter handed to Agg!Ok: for first/last value 1 = "an absent input may also count as NULL" (expression / path arguments)
ParamOf(a) == IF a.fn \in {"first_value", "last_value"} THEN (IF a.arg.k = "col" THEN 0 ELSE 1) ELSE a.p
NullsKept(xs) == [i \in 1..Len(xs) |-> IF IsMissing(xs[i]) THEN Null ELSE xs[i]]
\* name of the recorded deviation (KNOWN_FINDINGS.json) that explains engine value e, "" if none does
DevOf(a, e, xs, n) ==
  IF a.fn = "stddev" /\ Ok("stddevs", e, xs, a.p, n) THEN "StddevIsSample"
  ELSE IF a.fn \in {"percentile", "nth_value"} /\ a.arg.k \in {"lin", "add2"} /\ (IsNull(e) \/ (e.k = "num" /\ e.v = 0)) THEN "ParamAggExprArgIgnored"
  ELSE IF a.fn = "collect" /\ a.arg.k # "col" /\ Same(e, [k |-> "list", v |-> NullsKept(xs)]) THEN "CollectKeepsNullOfExprArg"
  ELSE IF a.fn = "deduplicate" /\ a.arg.k # "col" /\ Same(e, [k |-> "list", v |-> Dedup(NullsKept(xs), {})]) THEN "CollectKeepsNullOfExprArg"
  ELSE ""

PoisonVal(row) == "poison" \in DOMAIN cfg /\ Has(row, cfg.poison.c) /\ IsNum(row[cfg.poison.c]) /\ row[cfg.poison.c].v = cfg.poison.v
SoftPoison == "poison" \in DOMAIN cfg /\ cfg.poison.drop = 0
\* <<code, devs>>: first violated clause of result row r against the group's input rows (indices idxs), "" when fine
RECURSIVE AggCode(_, _, _, _)
AggCode(r, idxs, k, dv) ==
  IF k > Len(cfg.aggs) THEN <<"", dv>>
  ELSE LET a == cfg.aggs[k]
           xs == [i \in 1..Len(idxs) |-> ArgVal(a.arg, rows[idxs[i]])]
       IN IF a.al \notin DOMAIN r THEN <<"missing_column_" \o a.al, dv>>
          ELSE IF Ok(a.fn, r[a.al], xs, ParamOf(a), Len(idxs)) THEN AggCode(r, idxs, k + 1, dv)
          \* a row on which a user function of the statement panicked while the row was being added is skipped from that point on:
          \* each aggregate has either counted it or not (the statement of C03 is silent about such rows)
          ELSE IF SoftPoison /\ LET id2 == SelectSeq(idxs, LAMBDA i : ~PoisonVal(rows[i]))
                                    xs2 == [i \in 1..Len(id2) |-> ArgVal(a.arg, rows[id2[i]])]
                                IN Len(id2) < Len(idxs) /\ Ok(a.fn, r[a.al], xs2, ParamOf(a), Len(id2)) THEN AggCode(r, idxs, k + 1, dv)
          ELSE LET d == DevOf(a, r[a.al], xs, Len(idxs)) IN
               IF d # "" /\ d \in Dev THEN AggCode(r, idxs, k + 1, dv \cup {d})
               ELSE <<"wrong_" \o a.fn \o "_" \o a.al, dv>>

\* does row r report key values kv under the output names
KeyMatches(r, kv) == \A i \in 1..Len(cfg.gout) :
   IF cfg.gout[i] = "" THEN TRUE         \* a grouping key that the statement does not select
   ELSE IF cfg.gout[i] \in DOMAIN r THEN Same(r[cfg.gout[i]], kv[i]) ELSE IsNull(kv[i])

\* ---- global carrier: TRIGGER WHEN predicate over the aggregates of the group's rows since it last fired ----
\* aggregate as a rational <<has, num, den>> (fixed point numerator)
\* (evaluated while the row of the current "in" line is being appended: it is row Len(rows)+1)
RowAt(i) == IF i = Len(rows) + 1 THEN Trace[l].row ELSE rows[i]
AggRat(fn, arg, idxs) ==
  LET xs == [i \in 1..Len(idxs) |-> ArgVal(arg, RowAt(idxs[i]))]  u == Usable(xs) IN
  CASE fn = "count_star" -> <<TRUE, Len(idxs) * Scale, 1>>
    [] fn = "count" -> <<TRUE, Len(NonNull(xs)) * Scale, 1>>
    [] fn = "sum"   -> IF u = <<>> THEN <<FALSE, 0, 1>> ELSE <<TRUE, SumF(u), 1>>
    [] fn = "avg"   -> IF u = <<>> THEN <<FALSE, 0, 1>> ELSE <<TRUE, SumF(u), Len(u)>>
    [] fn = "min"   -> IF u = <<>> THEN <<FALSE, 0, 1>> ELSE <<TRUE, MinF(u), 1>>
    [] fn = "max"   -> IF u = <<>> THEN <<FALSE, 0, 1>> ELSE <<TRUE, MaxF(u), 1>>
    \* the median of the usable values whatever order they arrived in
    [] fn = "median" -> IF u = <<>> THEN <<FALSE, 0, 1>>
                        ELSE LET s == SortF(u)  n == Len(u) IN
                             IF n % 2 = 1 THEN <<TRUE, s[(n + 1) \div 2], 1>> ELSE <<TRUE, s[n \div 2] + s[n \div 2 + 1], 2>>
Cmp(op, a, b) == CASE op = ">" -> a > b [] op = ">=" -> a >= b [] op = "<" -> a < b [] op = "<=" -> a <= b
                   [] op = "==" -> a = b [] op = "!=" -> a # b
RECURSIVE PHolds(_, _)
PHolds(p, idxs) ==
  CASE p.o = "cmp" -> LET r == AggRat(p.fn, p.arg, idxs) IN r[1] /\ Cmp(p.op, r[2], p.lit * r[3])     \* NULL aggregate: not true
    [] p.o = "and" -> PHolds(p.a, idxs) /\ PHolds(p.b, idxs)
    [] p.o = "or"  -> PHolds(p.a, idxs) \/ PHolds(p.b, idxs)
Fires(ix) == IF cfg.carrier = "counting" THEN Len(ix) = cfg.n ELSE PHolds(cfg.pred, ix)
\* poison (optional): a value of column cfg.poison.c on which user code of the statement panics. With cfg.poison.drop = 1 the statement
\* has a user AGGREGATE whose Result panics: the batch holding such a row is dropped as a whole (nothing is delivered for it) and leaves
\* nothing behind: the key's next batch is aggregated over its own rows only
Poisoned(i) == "poison" \in DOMAIN cfg /\ cfg.poison.drop = 1 /\ LET r == RowAt(i) IN Has(r, cfg.poison.c) /\ IsNum(r[cfg.poison.c]) /\ r[cfg.poison.c].v = cfg.poison.v
Dropped(ix) == \E k \in 1..Len(ix) : Poisoned(ix[k])
\* HAVING (optional, counting carrier): a complete batch is delivered only if the predicate holds over ITS rows; a rejected
\* batch is consumed all the same and leaves nothing behind for the key's next batch
Delivers(ix) == ~Dropped(ix) /\ ("having" \notin DOMAIN cfg \/ PHolds(cfg.having, ix))

\* ---- counting carrier ----
BufIdx(kt) == {i \in 1..Len(buf) : buf[i].key = kt}
CountOutCode(e) ==
  IF exp = <<>> THEN <<"unexpected_delivery", {}>>
  ELSE IF Len(e.rows) # 1 THEN <<"batch_not_one_group", {}>>
  ELSE LET x == Head(exp)  r == e.rows[1] IN
       IF ~KeyMatches(r, x.kv) THEN <<"delivery_for_wrong_key_or_order", {}>>
       ELSE AggCode(r, x.idxs, 1, {})

\* ---- tumbling carrier: one batch = rows 1..n, groups by key tuple ----
Groups == {KeyTuple(rows[i]) : i \in 1..cfg.n}
GroupIdx(kt) == LET S == {i \in 1..cfg.n : KeyTuple(rows[i]) = kt} IN
                 [j \in 1..Cardinality(S) |-> CHOOSE i \in S : Cardinality({m \in S : m < i}) = j - 1]
\* LIMIT k (no ORDER BY): any k of the groups, each of them whole - a group that is delivered aggregates ALL rows of its tuple
Lim == IF "limit" \in DOMAIN cfg THEN cfg.limit ELSE 0
TumbOutCode(e) ==
  IF nout > 0 THEN <<"unexpected_delivery", {}>>
  ELSE IF Len(rows) < cfg.n THEN <<"delivery_before_batch_complete", {}>>
  ELSE IF Len(e.rows) # (IF Lim > 0 /\ Lim < Cardinality(Groups) THEN Lim ELSE Cardinality(Groups)) THEN <<"group_count_mismatch", {}>>
  ELSE LET match(kt) == {j \in 1..Len(e.rows) : KeyMatches(e.rows[j], KeyVals(rows[GroupIdx(kt)[1]]))}
           shown == {kt \in Groups : match(kt) # {}} IN
       IF \E kt \in Groups : Cardinality(match(kt)) > 1 \/ (Lim = 0 /\ Cardinality(match(kt)) # 1) THEN <<"group_missing_or_split", {}>>
       ELSE IF \E j \in 1..Len(e.rows) : ~\E kt \in Groups : j \in match(kt) THEN <<"row_matches_no_group", {}>>
       ELSE LET res == {AggCode(e.rows[CHOOSE j \in match(kt) : TRUE], GroupIdx(kt), 1, {}) : kt \in shown}
                bad == {x \in res : x[1] # ""} IN
            IF bad = {} THEN <<"", UNION {x[2] : x \in res}>> ELSE <<(CHOOSE x \in bad : TRUE)[1], {}>>

Reject(code) == /\ PrintT(<<"REJECT", cfg.tr, l, code>>) /\ dead' = TRUE

Init == /\ l = 1 /\ cfg = [tr |-> -1] /\ rows = <<>> /\ buf = <<>> /\ exp = <<>> /\ nout = 0 /\ dead = FALSE /\ used = {}

Next ==
  /\ l <= Len(Trace)
  /\ l' = l + 1
  /\ LET e == Trace[l] IN
     IF e.e = "reset" THEN
        /\ cfg' = e /\ rows' = <<>> /\ buf' = <<>> /\ exp' = <<>> /\ nout' = 0 /\ dead' = FALSE /\ used' = {}
     ELSE IF dead THEN UNCHANGED <<cfg, rows, buf, exp, nout, dead, used>>
     ELSE IF e.e = "in" THEN
        /\ rows' = Append(rows, e.row)
        /\ IF cfg.carrier \in {"counting", "global"} THEN
              LET kt == KeyTuple(e.row)  bi == BufIdx(kt)  i == Len(rows) + 1 IN
              IF bi = {} THEN
                   IF Fires(<<i>>) THEN /\ exp' = (IF Delivers(<<i>>) THEN Append(exp, [kv |-> KeyVals(e.row), idxs |-> <<i>>]) ELSE exp) /\ buf' = buf
                   ELSE /\ buf' = Append(buf, [key |-> kt, kv |-> KeyVals(e.row), idxs |-> <<i>>]) /\ exp' = exp
              ELSE LET b == CHOOSE j \in bi : TRUE  ix == Append(buf[b].idxs, i) IN
                   IF Fires(ix) THEN
                        /\ exp' = (IF Delivers(ix) THEN Append(exp, [kv |-> buf[b].kv, idxs |-> ix]) ELSE exp)
                        /\ buf' = [buf EXCEPT ![b].idxs = <<>>]
                   ELSE /\ buf' = [buf EXCEPT ![b].idxs = ix] /\ exp' = exp
           ELSE UNCHANGED <<buf, exp>>
        /\ UNCHANGED <<cfg, nout, dead, used>>
     ELSE IF e.e = "out" THEN
        LET c == IF cfg.carrier \in {"counting", "global"} THEN CountOutCode(e) ELSE TumbOutCode(e) IN
        IF c[1] = "" THEN
           /\ nout' = nout + 1
           /\ exp' = IF cfg.carrier \in {"counting", "global"} THEN Tail(exp) ELSE exp
           /\ \A d \in c[2] : PrintT(<<"DEV", cfg.tr, l, d>>)
           /\ UNCHANGED <<cfg, rows, buf, dead, used>>
        ELSE Reject(c[1]) /\ UNCHANGED <<cfg, rows, buf, exp, nout, used>>
     ELSE IF e.e = "quiesce" THEN
        /\ IF cfg.carrier \in {"counting", "global"} /\ exp # <<>> THEN Reject("missing_delivery")
           ELSE IF cfg.carrier = "tumbling" /\ nout = 0 /\ Len(rows) > cfg.n THEN Reject("missing_delivery")
           ELSE UNCHANGED dead
        /\ UNCHANGED <<cfg, rows, buf, exp, nout, used>>
     ELSE IF e.e = "void" THEN      \* the driver could not keep its own real-time schedule: this trace decides nothing
        /\ dead' = TRUE /\ UNCHANGED <<cfg, rows, buf, exp, nout, used>>
     ELSE IF e.e = "panic" /\ "poison" \in DOMAIN cfg THEN      \* the injected panic of the user function, recovered and logged by the engine
        UNCHANGED <<cfg, rows, buf, exp, nout, dead, used>>
     ELSE IF e.e \in {"execerr", "panic"} THEN
        Reject("engine_" \o e.e) /\ UNCHANGED <<cfg, rows, buf, exp, nout, used>>
     ELSE UNCHANGED <<cfg, rows, buf, exp, nout, dead, used>>

Spec == Init /\ [][Next]_vars
AllConsumed == TLCGet("stats").diameter - 1 = Len(Trace)
=============================================================================
