------------------------------ MODULE LikeLaws ------------------------------
(***************************************************************************)
(* Model-checked facts about lib/Like (the oracle of C13): explore all        *)
(* (text, pattern) pairs over a small alphabet; the recursive definition      *)
(* agrees with the textbook "split at %" characterisation and with the        *)
(* rewrites the engine uses for special pattern shapes (equality, prefix,     *)
(* suffix, contains), so a rewrite that deviates from the definition is a     *)
(* model-level counterexample.                                                *)
(***************************************************************************)
EXTENDS Like, FiniteSets, TLC

CONSTANTS Alphabet, MaxLen
VARIABLES t, p
vars == <<t, p>>
Strs == UNION {[1..n -> Alphabet] : n \in 0..MaxLen}
Init == t \in Strs /\ p \in Strs
Next == UNCHANGED vars   \* pure enumeration: every pair is an initial state
Spec == Init /\ [][Next]_vars

NoWild(s) == \A i \in 1..Len(s) : s[i] \notin {"%", "_"}
IsPrefix(a, b) == Len(a) <= Len(b) /\ SubSeq(b, 1, Len(a)) = a
IsSuffix(a, b) == Len(a) <= Len(b) /\ SubSeq(b, Len(b) - Len(a) + 1, Len(b)) = a
Contains(a, b) == \E i \in 0..(Len(b) - Len(a)) : SubSeq(b, i + 1, i + Len(a)) = a
Laws ==
  /\ (NoWild(p) => (LikeMatch(t, p) <=> t = p))                                           \* equality rewrite
  /\ (p # <<>> /\ p[Len(p)] = "%" /\ NoWild(SubSeq(p, 1, Len(p) - 1)) => (LikeMatch(t, p) <=> IsPrefix(SubSeq(p, 1, Len(p) - 1), t)))   \* startsWith
  /\ (p # <<>> /\ p[1] = "%" /\ NoWild(Tail(p)) => (LikeMatch(t, p) <=> IsSuffix(Tail(p), t)))                                        \* endsWith
  /\ (Len(p) >= 2 /\ p[1] = "%" /\ p[Len(p)] = "%" /\ NoWild(SubSeq(p, 2, Len(p) - 1)) => (LikeMatch(t, p) <=> Contains(SubSeq(p, 2, Len(p) - 1), t)))   \* contains
  /\ (p = <<"%">> => LikeMatch(t, p))
  /\ (LikeMatch(t, p) /\ NoWild(p) => Len(t) = Len(p))
  /\ ((\A i \in 1..Len(p) : p[i] = "_") => (LikeMatch(t, p) <=> Len(t) = Len(p)))
=============================================================================
