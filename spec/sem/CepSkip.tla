------------------------------- MODULE CepSkip -------------------------------
(***************************************************************************)
(* The match bookkeeping of the MATCH_RECOGNIZE engine (cep/engine.go) for    *)
(* PATTERN (A+) with greedy emission and AFTER MATCH SKIP PAST LAST ROW,      *)
(* over interleaved partitions.  Every qualifying event extends all live     *)
(* runs of its partition and seeds a new run if its sequence number is not    *)
(* below nextStart; when the runs end (a non-qualifying event, or Stop) the   *)
(* completed runs are emitted in start order, each setting                    *)
(*     nextStart = startSeq + nrows        (= last row + 1)                   *)
(* which presumes that a match's rows carry CONSECUTIVE sequence numbers.     *)
(* GlobalSeq = TRUE numbers events with one counter for all partitions (the   *)
(* historical engine), FALSE with one counter per partition.                  *)
(* Contract (C15): under SKIP PAST LAST ROW no two matches share a row, and   *)
(* every maximal run of qualifying events of a partition is reported once.    *)
(***************************************************************************)
EXTENDS Integers, Sequences, FiniteSets, TLC
CONSTANTS Parts, MaxEv, GlobalSeq
VARIABLES n, gseq, pseq, runs, nxt, out, hist
vars == <<n, gseq, pseq, runs, nxt, out, hist>>
Init == n = 0 /\ gseq = 0 /\ pseq = [p \in Parts |-> 0] /\ runs = [p \in Parts |-> {}] /\ nxt = [p \in Parts |-> 0] /\ out = <<>> /\ hist = <<>>

\* emit the completed runs of partition p in start order, honouring nextStart; returns <<matches, nextStart>>
RECURSIVE EmitAll(_, _, _)
EmitAll(rs, nx, acc) ==
  IF rs = {} THEN <<acc, nx>>
  ELSE LET r == CHOOSE x \in rs : \A y \in rs : x.start <= y.start IN
       IF r.start >= nx THEN EmitAll(rs \ {r}, r.start + Len(r.rows), Append(acc, r.rows))
       ELSE EmitAll(rs \ {r}, nx, acc)
Event(p, ok) ==
  /\ n < MaxEv /\ n' = n + 1 /\ gseq' = gseq + 1 /\ pseq' = [pseq EXCEPT ![p] = @ + 1]
  /\ hist' = Append(hist, <<p, ok>>)
  /\ LET s == IF GlobalSeq THEN gseq + 1 ELSE pseq[p] + 1 IN
     IF ok THEN
        /\ runs' = [runs EXCEPT ![p] = {[start |-> r.start, rows |-> Append(r.rows, n + 1)] : r \in runs[p]}
                                        \cup (IF s >= nxt[p] THEN {[start |-> s, rows |-> <<n + 1>>]} ELSE {})]
        /\ UNCHANGED <<nxt, out>>
     ELSE LET e == EmitAll(runs[p], nxt[p], <<>>) IN
        /\ out' = out \o e[1] /\ nxt' = [nxt EXCEPT ![p] = e[2]] /\ runs' = [runs EXCEPT ![p] = {}]
Next == \E p \in Parts, ok \in BOOLEAN : Event(p, ok)
Spec == Init /\ [][Next]_vars
RowsOf(m) == {m[i] : i \in 1..Len(m)}
NoSharedRows == \A i, j \in 1..Len(out) : i # j => RowsOf(out[i]) \cap RowsOf(out[j]) = {}
=============================================================================
