----------------------------- MODULE TraceDirect -----------------------------
(***************************************************************************)
(* Contract monitor for non-aggregate queries (C05) and scalar expression    *)
(* semantics (C06, C13 carriers WHERE / SELECT / CASE), evaluated by TLC on  *)
(* traces of the real engine.  The query is described on the reset line by    *)
(* ASTs: sel = <<[al, e]>> (or star), where = AST (optional).  Statelessness  *)
(* is the FORM of the contract: the expected result of a row is a function of *)
(* (row, query) only; the monitor's state is just the queue positions.        *)
(***************************************************************************)
EXTENDS Expr, Json, IOUtils

CONSTANT Dev
Trace == ndJsonDeserialize(IOEnv.TRACE_FILE)
VARIABLES l, cfg, rows, got, pendS, pendC, dead
vars == <<l, cfg, rows, got, pendS, pendC, dead>>

HasWhere == "where" \in DOMAIN cfg
\* WHERE: produced iff the predicate is true; a predicate whose evaluation fails rejects the row
Passes(row) == ~HasWhere \/ IsTrue(Eval(cfg.where, row))
\* a WHERE outcome the statement leaves open: evaluation outside the decided domain (mixed kinds) - either decision accepted
WhereOpen(row) == HasWhere /\ Eval(cfg.where, row).k = "err"

\* first violated clause for delivered row r against input row, "" if fine
RECURSIVE SelCode(_, _, _)
SelCode(r, row, k) ==
  IF k > Len(cfg.sel) THEN ""
  ELSE LET it == cfg.sel[k]  x == Eval(it.e, row) IN
       IF Bad(x) THEN SelCode(r, row, k + 1)                       \* outside the decided domain: any value / NULL / absent
       \* col != literal over a column the row LACKS is true on the unchanged tree (recorded family NullNotEqualIsTrue); scenarios that use
       \* such rows only to disturb the evaluator's history leave that row's own value open
       ELSE IF "neqmissing_open" \in DOMAIN cfg /\ it.e.t = "cmp" /\ it.e.op = "!=" /\ it.e.a.t = "col" /\ ~Has(row, it.e.a.c) THEN SelCode(r, row, k + 1)
       ELSE IF it.al \notin DOMAIN r THEN (IF x.k = "null" /\ "AbsentForNull" \in Dev THEN SelCode(r, row, k + 1) ELSE "column_missing_" \o it.al)
       ELSE IF ~Matches(r[it.al], x) THEN
              IF x.k = "bool" /\ r[it.al].k = "null" /\ ~x.v THEN SelCode(r, row, k + 1)   \* a not-true comparison may surface as NULL
              ELSE IF x.k = "null" /\ it.e.t \in {"cmp", "and", "or", "like"} /\ r[it.al].k = "bool" /\ ~r[it.al].v THEN SelCode(r, row, k + 1)   \* ... or as false
              ELSE "wrong_value_" \o it.al
       ELSE SelCode(r, row, k + 1)
RowCode(r, row) ==
  IF cfg.star = 1 THEN
       IF DOMAIN r # DOMAIN row THEN "star_columns_differ"
       ELSE IF \E c \in DOMAIN row : ~Same(r[c], row[c]) THEN "star_value_differs" ELSE ""
  ELSE IF \E c \in DOMAIN r : c \notin {cfg.sel[k].al : k \in 1..Len(cfg.sel)} THEN "extra_column"
  ELSE SelCode(r, row, 1)

Reject(code) == /\ PrintT(<<"REJECT", cfg.tr, l, code>>) /\ dead' = TRUE
\* diagnostics for a rejected delivery: what the reference computes for the row
Detail(i) == IF cfg.star = 1 THEN "star" ELSE ToString([k \in 1..Len(cfg.sel) |-> Eval(cfg.sel[k].e, rows[i])]) \o " where=" \o (IF HasWhere THEN ToString(Eval(cfg.where, rows[i])) ELSE "-")

Init == l = 1 /\ cfg = [tr |-> -1] /\ rows = <<>> /\ got = FALSE /\ pendS = <<>> /\ pendC = <<>> /\ dead = FALSE

\* Lock-step replay: a sink delivery belongs to the row handed in last (the driver waits until a row is fully
\* processed before the next one).  got = the last row already produced its result.
\* The channel must carry the same results as the sink, in the same order (it may lag behind).
Burst == "burst" \in DOMAIN cfg /\ cfg.burst = 1      \* rows handed in without waiting: results must come in emission order
\* known deviation ExpansionReordersRows (KNOWN_FINDINGS.json): only in unthrottled bursts under the expand strategy
ReorderDev == Burst /\ "expand" \in DOMAIN cfg /\ cfg.expand = 1 /\ "ExpansionReordersRows" \in Dev
Later(q, r) == {j \in 2..Len(q) : RowCode(r, rows[q[j]]) = ""}
Without(q, j) == SubSeq(q, 1, j - 1) \o SubSeq(q, j + 1, Len(q))
SinkMissing == rows # <<>> /\ ~got /\ Passes(rows[Len(rows)]) /\ ~WhereOpen(rows[Len(rows)])

Next ==
  /\ l <= Len(Trace)
  /\ l' = l + 1
  /\ LET e == Trace[l] IN
     IF e.e = "reset" THEN
        /\ cfg' = e /\ rows' = <<>> /\ got' = FALSE /\ pendS' = <<>> /\ pendC' = <<>> /\ dead' = FALSE
     ELSE IF dead THEN UNCHANGED <<cfg, rows, got, pendS, pendC, dead>>
     ELSE IF e.e = "in" THEN
        /\ IF ~Burst /\ SinkMissing THEN Reject("sink_result_missing") ELSE UNCHANGED dead
        /\ rows' = Append(rows, e.row) /\ got' = FALSE
        /\ pendS' = IF Burst /\ Passes(e.row) THEN Append(pendS, Len(rows) + 1) ELSE pendS
        \* the channel receives the result before the sinks are called: its order w.r.t. sink events is open, so its
        \* expectation is fixed when the row goes in (scenarios with a channel have no open WHERE outcomes)
        /\ pendC' = IF cfg.chan = 1 /\ e.op = "emit" /\ Passes(e.row) THEN Append(pendC, Len(rows) + 1) ELSE pendC
        /\ UNCHANGED cfg
     ELSE IF e.e = "out" /\ Burst THEN
        LET c == IF Len(e.rows) # 1 THEN "batch_not_single_row"
                 ELSE IF pendS = <<>> THEN "unexpected_result"
                 ELSE IF RowCode(e.rows[1], rows[Head(pendS)]) # "" THEN "out_of_order_or_" \o RowCode(e.rows[1], rows[Head(pendS)])
                 ELSE "" IN
        IF c = "" THEN
           /\ pendS' = Tail(pendS)
           /\ UNCHANGED <<cfg, rows, got, pendC, dead>>
        ELSE IF ReorderDev /\ Len(e.rows) = 1 /\ Later(pendS, e.rows[1]) # {} THEN
           \* known defect: a buffer expansion lets the consumer overtake migrated rows; the result is that of a LATER pending row
           /\ PrintT(<<"DEV", cfg.tr, l, "ExpansionReordersRows">>)
           /\ pendS' = Without(pendS, CHOOSE j \in Later(pendS, e.rows[1]) : \A k \in Later(pendS, e.rows[1]) : j <= k)
           /\ UNCHANGED <<cfg, rows, got, pendC, dead>>
        ELSE Reject("sink_" \o c) /\ UNCHANGED <<cfg, rows, got, pendS, pendC>>
     ELSE IF e.e = "out" THEN
        LET row == rows[Len(rows)]
            c == IF rows = <<>> THEN "unexpected_result"
                 ELSE IF Len(e.rows) # 1 THEN "batch_not_single_row"
                 ELSE IF got THEN "duplicate_result"
                 ELSE IF ~Passes(row) /\ ~WhereOpen(row) THEN "result_for_rejected_row"
                 ELSE RowCode(e.rows[1], row) IN
        IF c = "" THEN
           /\ got' = TRUE
           /\ UNCHANGED <<cfg, rows, pendS, pendC, dead>>
        ELSE Reject("sink_" \o c) /\ PrintT(<<"DETAIL", cfg.tr, l, IF rows = <<>> THEN "-" ELSE Detail(Len(rows))>>) /\ UNCHANGED <<cfg, rows, got, pendS, pendC>>
     ELSE IF e.e = "chan" THEN
        LET c == IF Len(e.rows) # 1 THEN "batch_not_single_row"
                 ELSE IF pendC = <<>> THEN "unexpected_result"
                 ELSE RowCode(e.rows[1], rows[Head(pendC)]) IN
        IF c = "" THEN pendC' = Tail(pendC) /\ UNCHANGED <<cfg, rows, got, pendS, dead>>
        ELSE IF ReorderDev /\ Len(e.rows) = 1 /\ Later(pendC, e.rows[1]) # {} THEN
           /\ PrintT(<<"DEV", cfg.tr, l, "ExpansionReordersRows">>)
           /\ pendC' = Without(pendC, CHOOSE j \in Later(pendC, e.rows[1]) : \A k \in Later(pendC, e.rows[1]) : j <= k)
           /\ UNCHANGED <<cfg, rows, got, pendS, dead>>
        ELSE Reject("channel_" \o c) /\ UNCHANGED <<cfg, rows, got, pendS, pendC>>
     ELSE IF e.e = "ret" THEN
        \* EmitSync returned: the result (or nil) for the row just handed in; the sink saw it first
        LET row == rows[e.i]  p == Passes(row)  o == WhereOpen(row) IN
        /\ IF e.panic = 1 THEN Reject("emitsync_panic")
           ELSE IF e.has = 1 /\ ~p /\ ~o THEN Reject("emitsync_result_for_rejected_row")
           ELSE IF e.has = 0 /\ p /\ e.err = 0 THEN Reject("emitsync_no_result_for_accepted_row")
           ELSE IF e.has = 1 /\ RowCode(e.row, row) # "" THEN Reject("emitsync_" \o RowCode(e.row, row))
           ELSE IF e.has = 1 /\ ~got THEN Reject("emitsync_result_not_delivered_to_sink")
           ELSE UNCHANGED dead
        /\ UNCHANGED <<cfg, rows, got, pendS, pendC>>
     \* concurrent EmitSync callers: every returned row is judged against the row that went in, on its own
     ELSE IF e.e = "cret" THEN
        LET row == e.in  p == Passes(row)  o == WhereOpen(row) IN
        /\ IF e.panic = 1 THEN Reject("emitsync_panic")
           ELSE IF e.has = 1 /\ ~p /\ ~o THEN Reject("emitsync_result_for_rejected_row")
           ELSE IF e.has = 0 /\ p /\ e.err = 0 THEN Reject("emitsync_no_result_for_accepted_row")
           ELSE IF e.has = 0 /\ p /\ e.err = 1 /\ ~o THEN Reject("emitsync_error_for_accepted_row")
           ELSE IF e.has = 1 /\ RowCode(e.row, row) # "" THEN Reject("emitsync_" \o RowCode(e.row, row))
           ELSE UNCHANGED dead
        /\ UNCHANGED <<cfg, rows, got, pendS, pendC>>
     ELSE IF e.e = "quiesce" THEN
        /\ IF ~Burst /\ SinkMissing THEN Reject("sink_result_missing")
           ELSE IF Burst /\ pendS # <<>> THEN Reject("sink_result_missing")
           ELSE IF pendC # <<>> THEN Reject("channel_result_missing")
           ELSE UNCHANGED dead
        /\ UNCHANGED <<cfg, rows, got, pendS, pendC>>
     \* a result handed to a sink changed afterwards (e.g. when the producer re-used its input map for the next row): the
     \* result of a row depends on that row only
     ELSE IF e.e = "sinkmut" THEN Reject("result_changed_after_delivery") /\ UNCHANGED <<cfg, rows, got, pendS, pendC>>
     ELSE IF e.e \in {"execerr", "panic"} THEN Reject("engine_" \o e.e) /\ UNCHANGED <<cfg, rows, got, pendS, pendC>>
     ELSE UNCHANGED <<cfg, rows, got, pendS, pendC, dead>>

Spec == Init /\ [][Next]_vars
AllConsumed == TLCGet("stats").diameter - 1 = Len(Trace)
=============================================================================
