------------------------------ MODULE FastPath ------------------------------
(***************************************************************************)
(* The predicate shortcuts of condition/condition.go as a decision table:    *)
(* which 'column OP literal' comparisons (and flat && / || chains of them)   *)
(* the compiled fast path answers itself and for which it declines (falls    *)
(* back to the general engine).  Property C12 is differential by its own     *)
(* wording - the decision must equal the general engine's - so the space is  *)
(* ENUMERATED here (TLC prints every point as a scenario) and the decisions  *)
(* are compared on the real code; value kinds whose arithmetic TLA+ cannot   *)
(* express (NaN, Inf, > 2^53) are symbolic tokens.                           *)
(***************************************************************************)
EXTENDS Integers, Sequences, FiniteSets, TLC, Json

Ops == {">", ">=", "<", "<=", "==", "!="}
NumLits == {"int", "neg", "frac", "big"}
StrLits == {"str", "strnum"}
Lits == NumLits \cup StrLits
FastNumKinds == {"f64", "f64int", "f32", "int", "i64", "i32", "u", "u64", "u32", "nan", "pinf", "ninf", "p53", "p53p1", "maxi64", "maxu64"}
SlowNumKinds == {"i8", "i16", "u8", "u16"}
OtherKinds == {"numstr", "text", "boolt", "null", "missing"}
Kinds == FastNumKinds \cup SlowNumKinds \cup OtherKinds

VARIABLES op, lit, kind
vars == <<op, lit, kind>>
Init == op \in Ops /\ lit \in Lits /\ kind \in Kinds
Next == UNCHANGED vars   \* pure enumeration: every combination is an initial state
Spec == Init /\ [][Next]_vars

\* fastCompare.eval: handles the value itself (TRUE) or declines (FALSE)
Handles(l, k) == IF l \in NumLits THEN k \in FastNumKinds ELSE k \in {"numstr", "text"}
\* both outcomes are in the explored space for every operator and literal kind (the enumeration is not vacuous)
CoversBoth == \A o \in Ops, l \in Lits : (\E k \in Kinds : Handles(l, k)) /\ (\E k \in Kinds : ~Handles(l, k))
Emit == PrintT(<<"SCEN", ToJson([op |-> op, lit |-> lit, kind |-> kind, handled |-> Handles(lit, kind)])>>)
=============================================================================
