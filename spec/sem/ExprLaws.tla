------------------------------ MODULE ExprLaws ------------------------------
(***************************************************************************)
(* Model-checked facts about the reference interpreter lib/Expr (so that the *)
(* oracle of C06 is itself checked): enumerate all rows over a small value   *)
(* set and all operator pairs; precedence, NULL propagation, two-valued      *)
(* logic and CASE laws must hold in every state.                             *)
(***************************************************************************)
EXTENDS Expr

VARIABLES x, y, op1, op2, cop
vars == <<x, y, op1, op2, cop>>
ValSet == {Null, NumV(-10000), NumV(0), NumV(20000), NumV(25000)}
Ops == {"+", "-", "*"}
Cops == {"<", "<=", ">", ">=", "=", "!="}
Init == x \in ValSet /\ y \in ValSet /\ op1 \in Ops /\ op2 \in Ops /\ cop \in Cops
Next == UNCHANGED vars   \* pure enumeration: every combination is an initial state
Spec == Init /\ [][Next]_vars

Row == [x |-> x, y |-> y]
C(c) == [t |-> "col", c |-> c]
N(n) == [t |-> "num", n |-> n, d |-> 1]
Bin(o, a, b) == [t |-> "bin", op |-> o, a |-> a, b |-> b]
Cmp(o, a, b) == [t |-> "cmp", op |-> o, a |-> a, b |-> b]
E(e) == Eval(e, Row)
Laws ==
  \* a NULL operand makes arithmetic NULL and a comparison not true
  /\ (IsNull(x) \/ IsNull(y)) => (E(Bin(op1, C("x"), C("y"))).k = "null" /\ ~IsTrue(E(Cmp(cop, C("x"), C("y")))))
  \* explicit parentheses never change an already-parenthesised tree
  /\ E(Bin(op1, [t |-> "par", a |-> Bin(op2, C("x"), C("y"))], N(2))) = E(Bin(op1, Bin(op2, C("x"), C("y")), N(2)))
  \* commutativity of + and *
  /\ E(Bin("+", C("x"), C("y"))) = E(Bin("+", C("y"), C("x"))) /\ E(Bin("*", C("x"), C("y"))) = E(Bin("*", C("y"), C("x")))
  \* comparison duality on non-NULL operands; logic is two-valued on "true / not true"
  /\ (~IsNull(x) /\ ~IsNull(y)) => (IsTrue(E(Cmp("<", C("x"), C("y")))) = ~IsTrue(E(Cmp(">=", C("x"), C("y")))))
  /\ IsTrue(E([t |-> "not", a |-> Cmp(cop, C("x"), C("y"))])) = ~IsTrue(E(Cmp(cop, C("x"), C("y"))))
  /\ IsTrue(E([t |-> "or", a |-> Cmp(cop, C("x"), N(1)), b |-> Cmp("=", N(2), N(2))]))
  /\ ~IsTrue(E([t |-> "and", a |-> Cmp(cop, C("x"), N(1)), b |-> Cmp("=", N(2), N(3))]))
  \* CASE: first true branch, else ELSE, else NULL
  /\ E([t |-> "case", whens |-> <<[c |-> Cmp(cop, C("x"), C("y")), r |-> N(1)]>>, else |-> N(0)])
       = (IF IsTrue(E(Cmp(cop, C("x"), C("y")))) THEN Norm(1, 1) ELSE Norm(0, 1))
  /\ (~IsTrue(E(Cmp(cop, C("x"), C("y"))))) => E([t |-> "case", whens |-> <<[c |-> Cmp(cop, C("x"), C("y")), r |-> N(1)]>>]).k = "null"
=============================================================================
