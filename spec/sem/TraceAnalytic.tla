---------------------------- MODULE TraceAnalytic ----------------------------
(***************************************************************************)
(* Reference semantics of the analytic functions (C14) as per-partition      *)
(* state machines, evaluated by TLC on traces of the real engine.            *)
(* reset line: calls = <<[al, fn, col, off, hasdef, def, ign, start, reset]>>,*)
(*   part = partition column ("" = none), when = gating predicate AST (or     *)
(*   absent), where = AST of an analytic-free WHERE (or absent), wmode =      *)
(*   "plain" | "analytic" (WHERE itself uses the first call: compared with     *)
(*   wop / wlit, analytic functions are then evaluated before filtering).      *)
(* Values are abstract SV values; numbers fixed point.                        *)
(*   lag(v, off[, def[, ignoreNull]]) : value off usable rows back             *)
(*   latest(v[, def])                 : last non-NULL value so far             *)
(*   had_changed(ign, v)              : true on the first row and when v       *)
(*                                      differs from the previous one          *)
(*   changed_col(ign, v)              : v when it differs from the previous,   *)
(*                                      else NULL                              *)
(*   acc_sum/count/avg/min/max(v[, start[, reset]])                            *)
(***************************************************************************)
EXTENDS Expr, Json, IOUtils

CONSTANT Dev
Trace == ndJsonDeserialize(IOEnv.TRACE_FILE)
VARIABLES l, cfg, st, lastres, nrows, pend, dead
vars == <<l, cfg, st, lastres, nrows, pend, dead>>
\* st, lastres: sequences (one entry per call) of functions partitionKey -> state / last result, kept as seq of [k, s]

NoState == [hist |-> <<>>, has |-> FALSE, val |-> Null, sum |-> 0, cnt |-> 0, num |-> 0, hasnum |-> FALSE, started |-> FALSE, first |-> TRUE,
            base |-> [x \in {} |-> Null]]      \* base: had_changed(ign, *) - the row (column name -> value) the next row is compared with
Lookup(tab, k, dflt) == LET hits == {i \in 1..Len(tab) : tab[i].k = k} IN IF hits = {} THEN dflt ELSE tab[CHOOSE i \in hits : TRUE].s
Store(tab, k, s) == LET hits == {i \in 1..Len(tab) : tab[i].k = k} IN
                    IF hits = {} THEN Append(tab, [k |-> k, s |-> s]) ELSE [tab EXCEPT ![CHOOSE i \in hits : TRUE].s = s]

NumEq(a, b) == IF IsNull(a) \/ IsNull(b) THEN IsNull(a) /\ IsNull(b)
               ELSE IF a.k = "num" /\ b.k = "num" THEN a.v = b.v ELSE a.k = b.k /\ a.v = b.v
TruthOf(e, row) == IsTrue(Eval(e, row))

\* one step of call c on value v in state s: <<new state, result>>
Step(c, s, row) ==
  LET v == Col(row, c.col) IN
  CASE c.fn = "lag" ->
         \* the default is an argument like any other: a literal (hasdef = 1) or a column of the CURRENT row (hasdef = 2: lag(v, 2, w))
         LET res == IF Len(s.hist) >= c.off THEN s.hist[Len(s.hist) - c.off + 1] ELSE IF c.hasdef = 1 THEN c.def ELSE IF c.hasdef = 2 THEN Col(row, c.defcol) ELSE Null
             h1 == IF c.ign = 1 /\ IsNull(v) THEN s.hist ELSE Append(s.hist, v)
             h2 == IF Len(h1) > c.off THEN SubSeq(h1, Len(h1) - c.off + 1, Len(h1)) ELSE h1
         IN <<[s EXCEPT !.hist = h2], res>>
    [] c.fn = "latest" ->
         LET s1 == IF ~IsNull(v) THEN [s EXCEPT !.val = v, !.has = TRUE] ELSE s IN
         <<s1, IF s1.has THEN s1.val ELSE IF c.hasdef = 1 THEN c.def ELSE Null>>
    [] c.fn = "had_changed" ->
         IF s.first THEN <<[s EXCEPT !.first = FALSE, !.val = v], BoolV(TRUE)>>
         ELSE IF c.ign = 1 /\ IsNull(v) THEN <<s, BoolV(FALSE)>>
         ELSE <<[s EXCEPT !.val = v], BoolV(~NumEq(s.val, v))>>
    \* had_changed(ign, *): the whole row compared by column name with the baseline: a column that is new, changed or gone is a
    \* change; with ign a NULL column neither counts as changed nor replaces its baseline value (the first row is a change)
    [] c.fn = "had_changed_star" ->
         LET skip(k) == c.ign = 1 /\ IsNull(row[k])
             nb == [k \in {k \in DOMAIN row : ~skip(k) \/ k \in DOMAIN s.base} |-> IF skip(k) THEN s.base[k] ELSE row[k]]
         IN IF s.first THEN <<[s EXCEPT !.first = FALSE, !.base = [k \in {k \in DOMAIN row : ~skip(k)} |-> row[k]]], BoolV(TRUE)>>
            ELSE <<[s EXCEPT !.base = nb],
                   BoolV((\E k \in DOMAIN row : ~skip(k) /\ (k \notin DOMAIN s.base \/ ~NumEq(s.base[k], row[k])))
                         \/ (\E k \in DOMAIN s.base : k \notin DOMAIN row /\ ~(c.ign = 1 /\ IsNull(s.base[k]))))>>
    \* had_changed(ign, c1, c2, ...): the listed columns compared one by one with their baselines; with ign a NULL column neither
    \* counts as changed nor replaces its baseline value, WHEREVER it stands in the list (the first row is a change and is the baseline as it is)
    [] c.fn = "had_changed_cols" ->
         LET K == {c.cols[i] : i \in 1..Len(c.cols)}
             skip(k) == c.ign = 1 /\ IsNull(Col(row, k))
         IN IF s.first THEN <<[s EXCEPT !.first = FALSE, !.base = [k \in K |-> Col(row, k)]], BoolV(TRUE)>>
            ELSE <<[s EXCEPT !.base = [k \in K |-> IF skip(k) THEN s.base[k] ELSE Col(row, k)]],
                   BoolV(\E k \in K : ~skip(k) /\ ~NumEq(s.base[k], Col(row, k)))>>
    [] c.fn = "changed_col" ->
         IF c.ign = 1 /\ IsNull(v) THEN <<s, Null>>
         ELSE <<[s EXCEPT !.val = v, !.has = TRUE], IF ~s.has \/ ~NumEq(s.val, v) THEN v ELSE Null>>
    [] OTHER ->      \* acc_*
         LET rs == c.reset # 0 /\ TruthOf(cfg.conds[c.reset], row)
             st0 == IF rs THEN [s EXCEPT !.sum = 0, !.cnt = 0, !.num = 0, !.hasnum = FALSE, !.started = FALSE] ELSE s
             on == c.start = 0 \/ st0.started \/ TruthOf(cfg.conds[c.start], row)
             st1 == IF rs \/ ~on THEN st0
                    ELSE LET b == [st0 EXCEPT !.started = (c.start # 0)] IN
                         IF v.k = "num" THEN [b EXCEPT !.cnt = @ + 1, !.sum = @ + v.v, !.hasnum = TRUE,
                                                      !.num = IF c.fn = "acc_max" THEN (IF ~b.hasnum \/ v.v > b.num THEN v.v ELSE b.num)
                                                              ELSE IF c.fn = "acc_min" THEN (IF ~b.hasnum \/ v.v < b.num THEN v.v ELSE b.num) ELSE b.num]
                         ELSE IF c.fn = "acc_count" /\ ~IsNull(v) THEN [b EXCEPT !.cnt = @ + 1] ELSE b
             res == CASE c.fn = "acc_sum" -> [k |-> "num", v |-> st1.sum]
                      [] c.fn = "acc_count" -> [k |-> "num", v |-> st1.cnt * Scale]
                      [] c.fn = "acc_avg" -> IF st1.cnt = 0 THEN Null ELSE [k |-> "avg", n |-> st1.sum, d |-> st1.cnt]
                      [] c.fn = "acc_max" -> IF st1.hasnum THEN [k |-> "num", v |-> st1.num] ELSE Null
                      [] c.fn = "acc_min" -> IF st1.hasnum THEN [k |-> "num", v |-> st1.num] ELSE Null
         IN <<st1, res>>

PartKey(row) == IF cfg.part = "" THEN <<"all">>
                ELSE IF "partpath" \in DOMAIN cfg THEN KeyOf(ColPath(row, cfg.partpath))      \* nested partition column
                ELSE KeyOf(Col(row, cfg.part))
\* a call may carry an OVER clause of its own (WHERE with the same call text under two different OVER clauses): "part" of the call
PartKeyC(c, row) == IF "part" \in DOMAIN c THEN (IF c.part = "" THEN <<"all">> ELSE KeyOf(Col(row, c.part))) ELSE PartKey(row)
Gate(row) == "when" \notin DOMAIN cfg \/ TruthOf(cfg.when, row)

ResOK(e, x) == IF x.k = "avg" THEN e.k = "num" /\ Within(e.v * x.d, x.n, x.d) ELSE Same(e, x)

\* the analytic results of the current input row (index into calls), given states before the row
Results(row) == [i \in 1..Len(cfg.calls) |->
    LET k == PartKeyC(cfg.calls[i], row)  s == Lookup(st[i], k, NoState) IN
    IF Gate(row) THEN Step(cfg.calls[i], s, row) ELSE <<s, Lookup(lastres[i], k, Null)>>]

\* does the row count for the analytic state / is it produced
PlainPass(row) == "where" \notin DOMAIN cfg \/ TruthOf(cfg.where, row)
\* (a NULL analytic result makes the comparison not true)
AnNum(res) == IF res.k = "avg" THEN <<res.n, res.d>> ELSE <<res.v, 1>>
AnPass(res) == res.k \in {"num", "avg"} /\
               LET x == AnNum(res) IN
               CASE cfg.wop = ">" -> x[1] > cfg.wlit * x[2]
                 [] cfg.wop = "<" -> x[1] < cfg.wlit * x[2]
                 [] cfg.wop = "=" -> x[1] = cfg.wlit * x[2]
\* WHERE call1 OP call2 (wmode "analytic2"): both results numeric, compared exactly (denominators are positive)
AnPass2(r1, r2) == r1.k \in {"num", "avg"} /\ r2.k \in {"num", "avg"} /\
               LET x == AnNum(r1)  y == AnNum(r2) IN
               CASE cfg.wop = ">" -> x[1] * y[2] > y[1] * x[2]
                 [] cfg.wop = "<" -> x[1] * y[2] < y[1] * x[2]
                 [] cfg.wop = "=" -> x[1] * y[2] = y[1] * x[2]
                 [] cfg.wop = ">=" -> x[1] * y[2] >= y[1] * x[2]
                 [] cfg.wop = "<=" -> x[1] * y[2] <= y[1] * x[2]

Reject(code) == /\ PrintT(<<"REJECT", cfg.tr, l, code>>) /\ dead' = TRUE
Init == l = 1 /\ cfg = [tr |-> -1] /\ st = <<>> /\ lastres = <<>> /\ nrows = 0 /\ pend = <<>> /\ dead = FALSE

\* wrapper expressions over several calls (lag(v) - acc_avg(v)): arithmetic on the calls' results of this row, NULL propagating
ToRef(res) == IF res.k = "avg" THEN Norm(res.n, res.d * Scale) ELSE FromSV(res)
RECURSIVE WrapCode(_, _, _)
WrapCode(r, exp, i) ==
  IF "wraps" \notin DOMAIN cfg \/ i > Len(cfg.wraps) THEN ""
  \* (w.op = "case01": CASE WHEN <call a> THEN 1 ELSE 0 END over a boolean call - 1 where the call is true, 0 where it is false or NULL)
  ELSE LET w == cfg.wraps[i]
           x == IF w.op = "case01" THEN (IF IsTrue(exp[w.a]) THEN Norm(1, 1) ELSE Norm(0, 1)) ELSE Arith(w.op, ToRef(exp[w.a]), ToRef(exp[w.b])) IN
       IF Bad(x) THEN WrapCode(r, exp, i + 1)
       ELSE IF w.al \notin DOMAIN r THEN (IF x.k = "null" THEN WrapCode(r, exp, i + 1) ELSE "missing_column_" \o w.al)
       ELSE IF ~Matches(r[w.al], x) THEN "wrong_wrapper_" \o w.al
       ELSE WrapCode(r, exp, i + 1)

RECURSIVE RowCode(_, _, _)
RowCode(r, exp, i) ==
  IF i > Len(cfg.calls) THEN ""
  ELSE LET al == cfg.calls[i].al IN
       IF cfg.calls[i].show = 0 THEN RowCode(r, exp, i + 1)
       ELSE IF al \notin DOMAIN r THEN (IF IsNull(exp[i]) THEN RowCode(r, exp, i + 1) ELSE "missing_column_" \o al)
       ELSE IF ~ResOK(r[al], exp[i]) THEN "wrong_" \o cfg.calls[i].fn \o "_" \o al
       ELSE RowCode(r, exp, i + 1)

Next ==
  /\ l <= Len(Trace) /\ l' = l + 1
  /\ LET e == Trace[l] IN
     IF e.e = "reset" THEN
        /\ cfg' = e /\ st' = [i \in 1..Len(e.calls) |-> <<>>] /\ lastres' = [i \in 1..Len(e.calls) |-> <<>>]
        /\ nrows' = 0 /\ pend' = <<>> /\ dead' = FALSE
     ELSE IF dead THEN UNCHANGED <<cfg, st, lastres, nrows, pend, dead>>
     ELSE IF e.e = "in" THEN
        LET row == e.row
            counts == IF cfg.wmode = "plain" THEN PlainPass(row) ELSE TRUE       \* analytic WHERE: evaluated before filtering, every row counts
            rs == Results(row)
            kc(i) == PartKeyC(cfg.calls[i], row)
            produced == IF cfg.wmode = "plain" THEN PlainPass(row)
                        ELSE IF cfg.wmode = "analytic2" THEN AnPass2(rs[1][2], rs[2][2]) ELSE AnPass(rs[1][2]) IN
        /\ nrows' = nrows + 1
        /\ IF counts THEN
              /\ st' = [i \in 1..Len(cfg.calls) |-> Store(st[i], kc(i), rs[i][1])]
              /\ lastres' = [i \in 1..Len(cfg.calls) |-> Store(lastres[i], kc(i), rs[i][2])]
           ELSE UNCHANGED <<st, lastres>>
        /\ pend' = IF produced THEN <<[i \in 1..Len(cfg.calls) |-> rs[i][2]]>> ELSE <<>>
        /\ IF pend # <<>> THEN Reject("result_missing_for_previous_row") ELSE UNCHANGED dead
        /\ UNCHANGED cfg
     ELSE IF e.e = "out" THEN
        LET c == IF Len(e.rows) # 1 THEN "batch_not_single_row"
                 ELSE IF pend = <<>> THEN "unexpected_result"
                 ELSE IF RowCode(e.rows[1], pend[1], 1) # "" THEN RowCode(e.rows[1], pend[1], 1)
                 ELSE WrapCode(e.rows[1], pend[1], 1) IN
        IF c = "" THEN pend' = <<>> /\ UNCHANGED <<cfg, st, lastres, nrows, dead>>
        ELSE Reject(c) /\ UNCHANGED <<cfg, st, lastres, nrows, pend>>
     ELSE IF e.e = "ret" THEN
        /\ IF e.panic = 1 THEN Reject("emitsync_panic")
           ELSE IF e.has = 0 /\ pend # <<>> /\ e.err = 0 THEN Reject("emitsync_no_result")
           ELSE UNCHANGED dead
        /\ pend' = IF e.has = 0 THEN <<>> ELSE pend
        /\ UNCHANGED <<cfg, st, lastres, nrows>>
     ELSE IF e.e = "quiesce" THEN
        /\ IF pend # <<>> THEN Reject("result_missing_for_last_row") ELSE UNCHANGED dead
        /\ UNCHANGED <<cfg, st, lastres, nrows, pend>>
     ELSE IF e.e \in {"execerr", "panic"} THEN Reject("engine_" \o e.e) /\ UNCHANGED <<cfg, st, lastres, nrows, pend>>
     ELSE UNCHANGED <<cfg, st, lastres, nrows, pend, dead>>
Spec == Init /\ [][Next]_vars
AllConsumed == TLCGet("stats").diameter - 1 = Len(Trace)
=============================================================================
