------------------------------ MODULE GroupBy ------------------------------
(***************************************************************************)
(* GROUP BY inside one batch (aggregator/group_aggregator.go): rows are put *)
(* into groups indexed by an ENCODED key string built from the grouping     *)
(* values.  Contract (C04): groups = distinct key tuples, every row in the  *)
(* group of its own tuple.  Components are sequences of symbols: "a", "b"   *)
(* ordinary characters, "S" the separator character used by the encoder,    *)
(* "Z" the first character of its NULL marker; NIL is NULL/missing.         *)
(***************************************************************************)
EXTENDS Integers, Sequences, FiniteSets, TLC

CONSTANTS Encoder,   \* "sepjoin": value ++ S (NULL -> Z N ++ S);  "lenprefix": len ++ ":" ++ value ++ S
          MaxRows, NCols, MaxLen
VARIABLES batch, groups    \* rows (key tuples); encoded key -> seq of row numbers
vars == <<batch, groups>>

NIL == <<"NIL">>
Alphabet == {"a", "S", "Z", "N"}
Comps == {NIL} \cup UNION {[1..n -> Alphabet] : n \in 0..MaxLen}
Tuples == [1..NCols -> Comps]

EncComp(c) ==
  IF c = NIL THEN <<"Z", "N", "S">>
  ELSE IF Encoder = "sepjoin" THEN c \o <<"S">>
  ELSE <<ToString(Len(c)), ":">> \o c \o <<"S">>
RECURSIVE EncT(_, _)
EncT(t, i) == IF i > NCols THEN <<>> ELSE EncComp(t[i]) \o EncT(t, i + 1)
Enc(t) == EncT(t, 1)

Init == batch = <<>> /\ groups = [k \in {} |-> <<>>]
Add(t) ==
  /\ Len(batch) < MaxRows
  /\ batch' = Append(batch, t)
  /\ LET k == Enc(t)  i == Len(batch) + 1 IN
     groups' = IF k \in DOMAIN groups THEN [groups EXCEPT ![k] = Append(@, i)]
               ELSE [x \in DOMAIN groups \cup {k} |-> IF x = k THEN <<i>> ELSE groups[x]]
Next == \E t \in Tuples : Add(t)
Spec == Init /\ [][Next]_vars

\* one group per distinct tuple; rows of a group all carry the same tuple
Partition ==
  /\ Cardinality(DOMAIN groups) = Cardinality({batch[i] : i \in 1..Len(batch)})
  /\ \A k \in DOMAIN groups : \A i \in 1..Len(groups[k]) : batch[groups[k][i]] = batch[groups[k][1]]
=============================================================================
