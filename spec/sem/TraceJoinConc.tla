---------------------------- MODULE TraceJoinConc ----------------------------
(***************************************************************************)
(* Stream-table JOIN (C16) under CONCURRENT updates: one goroutine applies   *)
(* UpsertTable / Delete one after the other while other goroutines push      *)
(* rows through EmitSync.  Every call is bracketed in the trace (ucall/uret, *)
(* rcall/rret; a global sequence number taken before the call and after its  *)
(* return orders the lines).  The table store is a linearisable object       *)
(* (Join.tla): a row must have been enriched from the table as it was after  *)
(* SOME prefix of the updates that contains every update that had returned   *)
(* before the row's call began and no update that was called after the row's *)
(* call returned.                                                            *)
(***************************************************************************)
EXTENDS SV, Json, IOUtils
CONSTANT Dev
Trace == ndJsonDeserialize(IOEnv.TRACE_FILE)
VARIABLES l, cfg, tabs, retd, pend, dead
vars == <<l, cfg, tabs, retd, pend, dead>>
\* tabs = sequence of table states: tabs[m+1] = tables after the first m updates (each state: one row sequence per join)

TKey(j, t) == [i \in 1..Len(cfg.joins[j].on) |-> KeyOf(Col(t, cfg.joins[j].on[i][2]))]
SVal(r, p) == IF Len(p) = 3 THEN ColPath(r, p[3]) ELSE Col(r, p[1])
SKey(j, r) == [i \in 1..Len(cfg.joins[j].on) |-> KeyOf(SVal(r, cfg.joins[j].on[i]))]
HasNullKey(k) == \E i \in 1..Len(k) : k[i] = <<"null">>
JoinOf(name) == CHOOSE j \in 1..Len(cfg.joins) : cfg.joins[j].name = name
UpsertIn(j, t, row) == LET hits == {i \in 1..Len(t) : TKey(j, t[i]) = TKey(j, row)} IN
                       IF hits = {} THEN Append(t, row) ELSE [t EXCEPT ![CHOOSE i \in hits : TRUE] = row]
RECURSIVE Load(_, _, _)
Load(j, t, rs) == IF rs = <<>> THEN t ELSE Load(j, UpsertIn(j, t, Head(rs)), Tail(rs))
DeleteIn(j, t, key) == SelectSeq(t, LAMBDA x : TKey(j, x) # [i \in 1..Len(key) |-> KeyOf(key[i])])
NoRow == [x \in {} |-> Null]
MatchesIn(T, j, r) == {i \in 1..Len(T[j]) : TKey(j, T[j][i]) = SKey(j, r)}
JoinedIn(T, j, r) == LET m == MatchesIn(T, j, r) IN IF m = {} THEN NoRow ELSE T[j][CHOOSE i \in m : TRUE]
PresentIn(T, r) == \A j \in 1..Len(cfg.joins) : cfg.joins[j].kind = "left" \/ MatchesIn(T, j, r) # {}
Open(r) == \E j \in 1..Len(cfg.joins) : HasNullKey(SKey(j, r))
RowOK(T, o, r) ==
  /\ \A i \in 1..Len(cfg.scols) : cfg.scols[i] \in DOMAIN o /\ Same(o[cfg.scols[i]], Col(r, cfg.scols[i]))
  /\ \A j \in 1..Len(cfg.joins) : \A i \in 1..Len(cfg.joins[j].tcols) :
        LET tc == cfg.joins[j].tcols[i] IN tc.al \in DOMAIN o /\ Same(o[tc.al], Col(JoinedIn(T, j, r), tc.c))
\* the answer e (has / row) to stream row r is what table state T prescribes
Explains(T, e, r) == IF e.has = 1 THEN PresentIn(T, r) /\ RowOK(T, e.row, r) ELSE ~PresentIn(T, r)

Reject(code) == /\ PrintT(<<"REJECT", cfg.tr, l, code>>) /\ dead' = TRUE
Init == l = 1 /\ cfg = [tr |-> -1] /\ tabs = <<>> /\ retd = 0 /\ pend = <<>> /\ dead = FALSE
Last == tabs[Len(tabs)]
PendIdx(id) == {i \in 1..Len(pend) : pend[i].id = id}

Next ==
  /\ l <= Len(Trace) /\ l' = l + 1
  /\ LET e == Trace[l] IN
     IF e.e = "reset" THEN cfg' = e /\ tabs' = << [j \in 1..Len(e.joins) |-> <<>>] >> /\ retd' = 0 /\ pend' = <<>> /\ dead' = FALSE
     ELSE IF dead THEN UNCHANGED <<cfg, tabs, retd, pend, dead>>
     ELSE IF e.e = "table" THEN    \* initial contents, before any concurrency
        /\ tabs' = << [Last EXCEPT ![JoinOf(e.name)] = Load(JoinOf(e.name), <<>>, e.rows)] >> /\ UNCHANGED <<cfg, retd, pend, dead>>
     ELSE IF e.e = "ucall" THEN
        /\ tabs' = Append(tabs, IF e.op = "upsert" THEN [Last EXCEPT ![JoinOf(e.table)] = UpsertIn(JoinOf(e.table), @, e.row)]
                                ELSE [Last EXCEPT ![JoinOf(e.table)] = DeleteIn(JoinOf(e.table), @, e.key)])
        /\ UNCHANGED <<cfg, retd, pend, dead>>
     ELSE IF e.e = "uret" THEN retd' = retd + 1 /\ UNCHANGED <<cfg, tabs, pend, dead>>
     ELSE IF e.e = "rcall" THEN pend' = Append(pend, [id |-> e.id, row |-> e.row, a |-> retd]) /\ UNCHANGED <<cfg, tabs, retd, dead>>
     ELSE IF e.e = "rret" THEN
        LET P == PendIdx(e.id) IN
        IF P = {} THEN Reject("harness_return_without_call") /\ UNCHANGED <<cfg, tabs, retd, pend>>
        ELSE LET p == pend[CHOOSE i \in P : TRUE]  b == Len(tabs) - 1 IN
             /\ IF e.panic = 1 THEN Reject("emitsync_panic")
                ELSE IF Open(p.row) \/ e.err = 1 THEN UNCHANGED dead
                ELSE IF \E m \in p.a..b : Explains(tabs[m + 1], e, p.row) THEN UNCHANGED dead
                ELSE IF e.has = 1 THEN Reject("row_enriched_from_no_admissible_table_state")
                ELSE Reject("row_dropped_although_every_admissible_table_state_matches")
             /\ UNCHANGED <<cfg, tabs, retd, pend>>
     ELSE IF e.e \in {"execerr", "panic"} THEN Reject("engine_" \o e.e) /\ UNCHANGED <<cfg, tabs, retd, pend>>
     ELSE UNCHANGED <<cfg, tabs, retd, pend, dead>>
Spec == Init /\ [][Next]_vars
AllConsumed == TLCGet("stats").diameter - 1 = Len(Trace)
=============================================================================
