------------------------------ MODULE AggBatch ------------------------------
(***************************************************************************)
(* The stream-side aggregation of one query instance across consecutive      *)
(* batches (aggregator/group_aggregator.go + functions_aggregation.go):      *)
(* per group, incremental accumulators are created on the first row of the   *)
(* group (New), fed row by row (Add), read at the end of the batch           *)
(* (GetResults) and dropped (Reset).  Abs = lib/Agg applied to the batch's   *)
(* rows of the group alone: nothing is carried between batches or groups.    *)
(* Values: integers or NULL (Nul); accumulators as in the Go code (sum +     *)
(* hasValues, count, min/max + first flag, first/last value, Welford is      *)
(* represented by its invariant (n, sum, sumsq)).                            *)
(***************************************************************************)
EXTENDS Integers, Sequences, FiniteSets, TLC

CONSTANTS RawVals, Off, Groups, MaxLen, MaxBatches, ResetOnBatchEnd
Vals == {x - Off : x \in RawVals}     \* cfg files cannot hold negative numbers
Nul == -999
VARIABLES acc,      \* group -> accumulator record, or absent (function over the groups seen in this batch)
          seen,     \* groups with an accumulator
          batch,    \* rows of the current batch: seq of [g, v]
          nb,       \* batches completed
          ok        \* every GetResults so far agreed with the definition
vars == <<acc, seen, batch, nb, ok>>

New == [n |-> 0, cnt |-> 0, sum |-> 0, has |-> FALSE, mn |-> 0, mx |-> 0, first |-> TRUE, fv |-> Nul, fvset |-> FALSE, lv |-> Nul, sq |-> 0]
AddTo(a, v) ==
  LET a1 == [a EXCEPT !.n = @ + 1, !.fv = IF a.fvset THEN @ ELSE v, !.fvset = TRUE, !.lv = v] IN
  IF v = Nul THEN a1
  ELSE [a1 EXCEPT !.cnt = @ + 1, !.sum = @ + v, !.has = TRUE, !.sq = @ + v * v,
                  !.mn = IF a.first \/ v < a.mn THEN v ELSE a.mn,
                  !.mx = IF a.first \/ v > a.mx THEN v ELSE a.mx,
                  !.first = FALSE]

Init == acc = [g \in Groups |-> New] /\ seen = {} /\ batch = <<>> /\ nb = 0 /\ ok = TRUE

AddRow(g, v) ==
  /\ Len(batch) < MaxLen /\ nb < MaxBatches
  /\ acc' = [acc EXCEPT ![g] = AddTo(IF g \in seen THEN acc[g] ELSE New, v)]
  /\ seen' = seen \cup {g}
  /\ batch' = Append(batch, [g |-> g, v |-> v])
  /\ UNCHANGED <<nb, ok>>

\* ---- definition (Abs): over the rows of the group in this batch only ----
RowsOf(g) == SelectSeq(batch, LAMBDA r : r.g = g)
Usable(g) == SelectSeq(RowsOf(g), LAMBDA r : r.v # Nul)
RECURSIVE SumOf(_)
SumOf(s) == IF s = <<>> THEN 0 ELSE Head(s).v + SumOf(Tail(s))
MinOf(s) == CHOOSE m \in {s[i].v : i \in 1..Len(s)} : \A i \in 1..Len(s) : m <= s[i].v
MaxOf(s) == CHOOSE m \in {s[i].v : i \in 1..Len(s)} : \A i \in 1..Len(s) : m >= s[i].v
Agrees(g) ==
  LET a == acc[g]  r == RowsOf(g)  u == Usable(g) IN
  /\ a.n = Len(r) /\ a.cnt = Len(u)
  /\ (IF u = <<>> THEN ~a.has /\ a.first ELSE a.has /\ a.sum = SumOf(u) /\ ~a.first /\ a.mn = MinOf(u) /\ a.mx = MaxOf(u))
  /\ a.fv = r[1].v /\ a.lv = r[Len(r)].v

\* GetResults + Reset: groups of the batch are reported, then all state is dropped
EndBatch ==
  /\ batch # <<>> /\ nb < MaxBatches
  /\ ok' = (ok /\ \A g \in seen : Agrees(g))
  /\ nb' = nb + 1 /\ batch' = <<>>
  /\ IF ResetOnBatchEnd THEN acc' = [g \in Groups |-> New] /\ seen' = {}
     ELSE UNCHANGED <<acc, seen>>          \* the defect "state leaks into the next batch", kept to show the invariant is not vacuous

Next == (\E g \in Groups, v \in Vals \cup {Nul} : AddRow(g, v)) \/ EndBatch
Spec == Init /\ [][Next]_vars

DefinitionHolds == ok
\* between batches nothing survives
NoLeak == batch = <<>> => (seen = {} /\ \A g \in Groups : acc[g] = New)
=============================================================================
