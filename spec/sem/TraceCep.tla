------------------------------ MODULE TraceCep ------------------------------
(***************************************************************************)
(* Declarative reference for MATCH_RECOGNIZE (C15), evaluated by TLC on      *)
(* traces of the real engine.  Per partition the events are a sequence; a    *)
(* match is a run ev[i..j] that spells a word of PATTERN with every event    *)
(* satisfying the DEFINE of its variable; for a start i the LONGEST run is   *)
(* reported (greedy quantifiers); starts are taken leftmost-first under the  *)
(* AFTER MATCH SKIP rule; MATCH_NUMBER counts 1,2,.. per partition;          *)
(* unfinished accepting runs are flushed at Stop.  reset line: pat (AST),    *)
(* defs = <<[v, k, c]>>, skip ("past" | "next" | "first" | "last" with skback), part (partition column). *)
(*   pattern AST: [t |-> "var", v] | "seq" ps | "alt" ps | "q" p lo hi (hi=-1: unbounded) *)
(*   (PERMUTE(A, B, ..) reaches the monitor as the alternation of all its orders) *)
(*   DEFINE kinds: "gt" c | "lt" c | "eq" c | "up" (v > PREV(v)) | "down" | "true"    *)
(*                 | "up2" (v > PREV(v, 2)) | "down2"                         *)
(***************************************************************************)
EXTENDS SV, Json, IOUtils, FiniteSets
CONSTANT Dev
Trace == ndJsonDeserialize(IOEnv.TRACE_FILE)
VARIABLES l, cfg, evs, got, dead
vars == <<l, cfg, evs, got, dead>>

PKey(row) == IF cfg.part = "" THEN <<"all">> ELSE KeyOf(Col(row, cfg.part))
Parts == {PKey(evs[i]) : i \in 1..Len(evs)}
\* the partition's events in arrival order (indices into evs)
PIdx(k) == LET S == {i \in 1..Len(evs) : PKey(evs[i]) = k} IN
           [j \in 1..Cardinality(S) |-> CHOOSE i \in S : Cardinality({m \in S : m < i}) = j - 1]
V(ix, i) == Col(evs[ix[i]], "v")
DefOf(v) == LET hits == {i \in 1..Len(cfg.defs) : cfg.defs[i].v = v} IN
            IF hits = {} THEN [v |-> v, k |-> "true", c |-> 0] ELSE cfg.defs[CHOOSE i \in hits : TRUE]
\* running SUM(v) over the match so far (rows st..i, NULL skipped)
RECURSIVE RunSum(_, _, _)
RunSum(ix, st, i) == IF i < st THEN 0 ELSE (IF V(ix, i).k = "num" THEN V(ix, i).v ELSE 0) + RunSum(ix, st, i - 1)
\* DEFINE of variable v on row i of a match that started at row st
Holds(v, ix, i, st) ==
  LET d == DefOf(v)  x == V(ix, i) IN
  CASE d.k = "true" -> TRUE
    [] d.k = "sumle" -> RunSum(ix, st, i) <= d.c
    [] d.k = "cntle" -> (i - st + 1) * Scale <= d.c
    [] d.k = "gt" -> x.k = "num" /\ x.v > d.c
    [] d.k = "lt" -> x.k = "num" /\ x.v < d.c
    [] d.k = "eq" -> x.k = "num" /\ x.v = d.c
    [] d.k = "up" -> i > 1 /\ x.k = "num" /\ V(ix, i - 1).k = "num" /\ x.v > V(ix, i - 1).v
    [] d.k = "down" -> i > 1 /\ x.k = "num" /\ V(ix, i - 1).k = "num" /\ x.v < V(ix, i - 1).v
    \* PREV(v, 2): two rows back WITHIN the match so far (navigation never leaves the match: before its start there is nothing, the comparison is not true)
    [] d.k = "up2" -> i - 2 >= st /\ x.k = "num" /\ V(ix, i - 2).k = "num" /\ x.v > V(ix, i - 2).v
    [] d.k = "down2" -> i - 2 >= st /\ x.k = "num" /\ V(ix, i - 2).k = "num" /\ x.v < V(ix, i - 2).v

\* Ends(p, ix, i): positions j (exclusive end) such that ix[i..j-1] matches p
\* (st = first row of the match: DEFINE conditions with running aggregates depend on it)
\* lab = <<>>: any classification; otherwise lab[i] is the variable row i of the partition must be classified as (ALL ROWS PER MATCH
\* with CLASSIFIER(): the reported classification itself must spell a word of the pattern, every row satisfying ITS variable's DEFINE)
NoLab == <<>>
RECURSIVE Ends(_, _, _, _, _), SeqEnds(_, _, _, _, _, _), Rep(_, _, _, _, _, _, _)
Ends(p, ix, i, st, lab) ==
  CASE p.t = "var" -> IF i <= Len(ix) /\ (lab = NoLab \/ (i \in DOMAIN lab /\ lab[i] = p.v)) /\ Holds(p.v, ix, i, st) THEN {i + 1} ELSE {}
    [] p.t = "seq" -> SeqEnds(p.ps, ix, {i}, 1, st, lab)
    [] p.t = "alt" -> UNION {Ends(p.ps[k], ix, i, st, lab) : k \in 1..Len(p.ps)}
    [] p.t = "q"   -> Rep(p, ix, {i}, 0, IF p.lo = 0 THEN {i} ELSE {}, st, lab)
SeqEnds(ps, ix, S, k, st, lab) == IF k > Len(ps) THEN S ELSE SeqEnds(ps, ix, UNION {Ends(ps[k], ix, x, st, lab) : x \in S}, k + 1, st, lab)
\* c repetitions done, reaching positions S; acc = ends collected for counts within [lo, hi]
Rep(p, ix, S, c, acc, st, lab) ==
  IF S = {} \/ (p.hi # -1 /\ c >= p.hi) \/ c > Len(ix) THEN acc
  ELSE LET S1 == UNION {{y \in Ends(p.p, ix, x, st, lab) : y > x} : x \in S} IN      \* progress required: no empty iterations
       Rep(p, ix, S1, c + 1, IF c + 1 >= p.lo THEN acc \cup S1 ELSE acc, st, lab)
\* WITHIN w (cfg.within, 0 = none; in the unit of the rows' relative event time rt): a match fits when its last event is at most w after its first
Rt(ix, i) == Col(evs[ix[i]], "rt").v
Fits(ix, i, j) == "within" \notin DOMAIN cfg \/ cfg.within = 0 \/ Rt(ix, j - 1) - Rt(ix, i) <= cfg.within * Scale
\* the longest word of the pattern from position i that fits in WITHIN
Longest(ix, i) == LET E == {j \in Ends(cfg.pat, ix, i, i, NoLab) : j > i /\ Fits(ix, i, j)} IN IF E = {} THEN 0 ELSE CHOOSE j \in E : \A k \in E : k <= j

\* left-to-right scan with the AFTER MATCH SKIP rule: sequence of <<first, last>> (positions in the partition)
RECURSIVE Scan(_, _)
Scan(ix, i) ==
  IF i > Len(ix) THEN <<>>
  ELSE LET j == Longest(ix, i) IN
       IF j = 0 THEN Scan(ix, i + 1)
       ELSE <<<<i, j - 1>>>> \o Scan(ix, CASE cfg.skip = "past" -> j
                                               [] cfg.skip = "next" -> i + 1
                                               \* SKIP TO FIRST / LAST <var> for the pattern shapes A B+ [C]: the rows of B are positional
                                               \* (first B = second row of the match; last B = last or last-but-one row)
                                               \* (the engine's rule, cep/engine.go skipTo: the next match may start AFTER that row)
                                               [] cfg.skip = "first" -> i + 2
                                               [] cfg.skip = "last" -> (j - 1) - cfg.skback + 1)
Expected(k) == LET ix == PIdx(k)  ms == Scan(ix, 1) IN
               [m \in 1..Len(ms) |-> [f |-> Col(evs[ix[ms[m][1]]], "id"), l |-> Col(evs[ix[ms[m][2]]], "id"), n |-> ms[m][2] - ms[m][1] + 1, mn |-> m]]
\* matches delivered for partition k, in delivery order
GotOf(k) == SelectSeq(got, LAMBDA r : (IF cfg.part = "" THEN <<"all">> ELSE KeyOf(Col(r, cfg.part))) = k)
RowIs(r, x) == /\ "f" \in DOMAIN r /\ Same(r.f, x.f) /\ "l" \in DOMAIN r /\ Same(r.l, x.l)
               /\ "n" \in DOMAIN r /\ SameNum(r.n, NumV(x.n * Scale), 0) /\ "mn" \in DOMAIN r /\ SameNum(r.mn, NumV(x.mn * Scale), 0)
PartCode(k) ==
  LET ex == Expected(k)  g == GotOf(k) IN
  IF Len(g) < Len(ex) THEN "valid_match_omitted"
  ELSE IF Len(g) > Len(ex) THEN "extra_or_invalid_match_reported"
  ELSE IF \E m \in 1..Len(ex) : ~RowIs(g[m], ex[m]) THEN "match_differs_from_leftmost_longest"
  ELSE ""
QuiesceCode == LET bad == {k \in Parts : PartCode(k) # ""} IN
               IF \E i \in 1..Len(got) : (IF cfg.part = "" THEN <<"all">> ELSE KeyOf(Col(got[i], cfg.part))) \notin Parts THEN "match_for_unknown_partition"
               ELSE IF bad = {} THEN "" ELSE PartCode(CHOOSE k \in bad : TRUE)

\* ---- ALL ROWS PER MATCH (cfg.allrows = 1): one delivery = one match, one result row per event, with id, CLASSIFIER() AS cls,
\* MATCH_NUMBER() AS mn and (cfg.cntvar) the running COUNT(<var>.v) AS nb
AllRows == "allrows" \in DOMAIN cfg /\ cfg.allrows = 1
IdOf(r) == r.id.v \div Scale
LabelCode(rows) ==
  LET n == Len(rows)
      k == IF cfg.part = "" THEN <<"all">> ELSE KeyOf(Col(rows[1], cfg.part))
      ix == PIdx(k)
      posS(j) == {i \in 1..Len(ix) : ix[i] = IdOf(rows[j])} IN
  IF \E j \in 1..n : "cls" \notin DOMAIN rows[j] \/ rows[j].cls.k # "str" \/ "id" \notin DOMAIN rows[j] \/ rows[j].id.k # "num" THEN "classifier_or_id_missing"
  ELSE IF \E j \in 1..n : posS(j) = {} THEN "row_of_another_partition_in_match"
  ELSE LET pos(j) == CHOOSE i \in posS(j) : TRUE
           st == pos(1)
           lab == [i \in st..(st + n - 1) |-> rows[i - st + 1].cls.v] IN
       IF \E j \in 1..(n - 1) : pos(j + 1) # pos(j) + 1 THEN "match_rows_not_consecutive"
       ELSE IF (st + n) \notin Ends(cfg.pat, ix, st, st, lab) THEN "classification_is_no_word_of_the_pattern_or_breaks_its_define"
       ELSE IF \E j \in 1..n : "mn" \notin DOMAIN rows[j] \/ ~Same(rows[j].mn, rows[1].mn) THEN "match_number_differs_within_match"
       ELSE IF "cntvar" \in DOMAIN cfg /\ \E j \in 1..n : "nb" \notin DOMAIN rows[j] \/
               ~SameNum(rows[j].nb, NumV(Scale * Cardinality({m \in 1..j : rows[m].cls.v = cfg.cntvar /\ Col(evs[IdOf(rows[m])], "v").k = "num"})), 0)
            THEN "running_count_of_a_variable_wrong"
       \* FIRST(<var>.v) AS fb / LAST(<var>.v) AS lb (running): the value of the first / last row so far that is classified as <var>, NULL when none is
       ELSE IF "navvar" \in DOMAIN cfg /\ \E j \in 1..n :
               LET Bs == {m \in 1..j : rows[m].cls.v = cfg.navvar}
                   fst == IF Bs = {} THEN Null ELSE Col(evs[IdOf(rows[CHOOSE m \in Bs : \A x \in Bs : m <= x])], "v")
                   lst == IF Bs = {} THEN Null ELSE Col(evs[IdOf(rows[CHOOSE m \in Bs : \A x \in Bs : m >= x])], "v") IN
               ~Same(Col(rows[j], "fb"), fst) \/ ~Same(Col(rows[j], "lb"), lst)
            THEN "first_or_last_of_a_variable_wrong"
       ELSE ""
\* one delivery may hold several matches one after the other (the flush at Stop): a match = a maximal run of rows with one
\* partition key and one MATCH_NUMBER
SameM(a, b) == PKey(a) = PKey(b) /\ "mn" \in DOMAIN a /\ "mn" \in DOMAIN b /\ Same(a.mn, b.mn)
RECURSIVE Segs(_)
Segs(rows) ==
  IF rows = <<>> THEN <<>>
  ELSE LET k == CHOOSE m \in 1..Len(rows) : (\A j \in 1..m : SameM(rows[1], rows[j])) /\ (m = Len(rows) \/ ~SameM(rows[1], rows[m + 1])) IN
       <<SubSeq(rows, 1, k)>> \o Segs(SubSeq(rows, k + 1, Len(rows)))
Summary(rows) == LET base == [f |-> rows[1].id, l |-> rows[Len(rows)].id, n |-> NumV(Len(rows) * Scale), mn |-> rows[1].mn] IN
                 IF cfg.part = "" THEN base ELSE (cfg.part :> Col(rows[1], cfg.part)) @@ base

Reject(code) == /\ PrintT(<<"REJECT", cfg.tr, l, code>>) /\ dead' = TRUE
Init == l = 1 /\ cfg = [tr |-> -1] /\ evs = <<>> /\ got = <<>> /\ dead = FALSE
Next ==
  /\ l <= Len(Trace) /\ l' = l + 1
  /\ LET e == Trace[l] IN
     IF e.e = "reset" THEN cfg' = e /\ evs' = <<>> /\ got' = <<>> /\ dead' = FALSE
     ELSE IF dead THEN UNCHANGED <<cfg, evs, got, dead>>
     ELSE IF e.e = "in" THEN evs' = Append(evs, e.row) /\ UNCHANGED <<cfg, got, dead>>
     ELSE IF e.e = "out" /\ AllRows THEN
        LET sg == Segs(e.rows)
            bad == {i \in 1..Len(sg) : LabelCode(sg[i]) # ""} IN
        IF Len(e.rows) = 0 THEN Reject("empty_match") /\ UNCHANGED <<cfg, evs, got>>
        ELSE IF bad = {} THEN got' = got \o [i \in 1..Len(sg) |-> Summary(sg[i])] /\ UNCHANGED <<cfg, evs, dead>>
        ELSE Reject(LabelCode(sg[CHOOSE i \in bad : TRUE])) /\ UNCHANGED <<cfg, evs, got>>
     ELSE IF e.e = "out" THEN got' = got \o e.rows /\ UNCHANGED <<cfg, evs, dead>>
     ELSE IF e.e = "quiesce" THEN
        /\ IF QuiesceCode = "" THEN UNCHANGED dead ELSE Reject(QuiesceCode)
        /\ UNCHANGED <<cfg, evs, got>>
     ELSE IF e.e = "void" THEN dead' = TRUE /\ UNCHANGED <<cfg, evs, got>>      \* the driver could not keep its real-time schedule: no verdict
     ELSE IF e.e \in {"execerr", "panic"} THEN Reject("engine_" \o e.e) /\ UNCHANGED <<cfg, evs, got>>
     ELSE UNCHANGED <<cfg, evs, got, dead>>
Spec == Init /\ [][Next]_vars
AllConsumed == TLCGet("stats").diameter - 1 = Len(Trace)
=============================================================================
