------------------------------ MODULE TraceCep ------------------------------
(***************************************************************************)
(* Declarative reference for MATCH_RECOGNIZE (C15), evaluated by TLC on      *)
(* traces of the real engine.  Per partition the events are a sequence; a    *)
(* match is a run ev[i..j] that spells a word of PATTERN with every event    *)
(* satisfying the DEFINE of its variable; for a start i the LONGEST run is   *)
(* reported (greedy quantifiers); starts are taken leftmost-first under the  *)
(* AFTER MATCH SKIP rule; MATCH_NUMBER counts 1,2,.. per partition;          *)
(* unfinished accepting runs are flushed at Stop.  reset line: pat (AST),    *)
(* defs = <<[v, k, c]>>, skip ("past" | "next" | "first" | "last" with skback), part (partition column). *)
(*   pattern AST: [t |-> "var", v] | "seq" ps | "alt" ps | "q" p lo hi (hi=-1: unbounded) *)
(*   DEFINE kinds: "gt" c | "lt" c | "up" (v > PREV(v)) | "down" | "true"    *)
(*                 | "up2" (v > PREV(v, 2)) | "down2"                         *)
(***************************************************************************)
EXTENDS SV, Json, IOUtils
CONSTANT Dev
Trace == ndJsonDeserialize(IOEnv.TRACE_FILE)
VARIABLES l, cfg, evs, got, dead
vars == <<l, cfg, evs, got, dead>>

PKey(row) == IF cfg.part = "" THEN <<"all">> ELSE KeyOf(Col(row, cfg.part))
Parts == {PKey(evs[i]) : i \in 1..Len(evs)}
\* the partition's events in arrival order (indices into evs)
PIdx(k) == LET S == {i \in 1..Len(evs) : PKey(evs[i]) = k} IN
           [j \in 1..Cardinality(S) |-> CHOOSE i \in S : Cardinality({m \in S : m < i}) = j - 1]
V(ix, i) == Col(evs[ix[i]], "v")
DefOf(v) == LET hits == {i \in 1..Len(cfg.defs) : cfg.defs[i].v = v} IN
            IF hits = {} THEN [v |-> v, k |-> "true", c |-> 0] ELSE cfg.defs[CHOOSE i \in hits : TRUE]
\* running SUM(v) over the match so far (rows st..i, NULL skipped)
RECURSIVE RunSum(_, _, _)
RunSum(ix, st, i) == IF i < st THEN 0 ELSE (IF V(ix, i).k = "num" THEN V(ix, i).v ELSE 0) + RunSum(ix, st, i - 1)
\* DEFINE of variable v on row i of a match that started at row st
Holds(v, ix, i, st) ==
  LET d == DefOf(v)  x == V(ix, i) IN
  CASE d.k = "true" -> TRUE
    [] d.k = "sumle" -> RunSum(ix, st, i) <= d.c
    [] d.k = "cntle" -> (i - st + 1) * Scale <= d.c
    [] d.k = "gt" -> x.k = "num" /\ x.v > d.c
    [] d.k = "lt" -> x.k = "num" /\ x.v < d.c
    [] d.k = "up" -> i > 1 /\ x.k = "num" /\ V(ix, i - 1).k = "num" /\ x.v > V(ix, i - 1).v
    [] d.k = "down" -> i > 1 /\ x.k = "num" /\ V(ix, i - 1).k = "num" /\ x.v < V(ix, i - 1).v
    \* PREV(v, 2): two rows back WITHIN the match so far (navigation never leaves the match: before its start there is nothing, the comparison is not true)
    [] d.k = "up2" -> i - 2 >= st /\ x.k = "num" /\ V(ix, i - 2).k = "num" /\ x.v > V(ix, i - 2).v
    [] d.k = "down2" -> i - 2 >= st /\ x.k = "num" /\ V(ix, i - 2).k = "num" /\ x.v < V(ix, i - 2).v

\* Ends(p, ix, i): positions j (exclusive end) such that ix[i..j-1] matches p
\* (st = first row of the match: DEFINE conditions with running aggregates depend on it)
RECURSIVE Ends(_, _, _, _), SeqEnds(_, _, _, _, _), Rep(_, _, _, _, _, _)
Ends(p, ix, i, st) ==
  CASE p.t = "var" -> IF i <= Len(ix) /\ Holds(p.v, ix, i, st) THEN {i + 1} ELSE {}
    [] p.t = "seq" -> SeqEnds(p.ps, ix, {i}, 1, st)
    [] p.t = "alt" -> UNION {Ends(p.ps[k], ix, i, st) : k \in 1..Len(p.ps)}
    [] p.t = "q"   -> Rep(p, ix, {i}, 0, IF p.lo = 0 THEN {i} ELSE {}, st)
SeqEnds(ps, ix, S, k, st) == IF k > Len(ps) THEN S ELSE SeqEnds(ps, ix, UNION {Ends(ps[k], ix, x, st) : x \in S}, k + 1, st)
\* c repetitions done, reaching positions S; acc = ends collected for counts within [lo, hi]
Rep(p, ix, S, c, acc, st) ==
  IF S = {} \/ (p.hi # -1 /\ c >= p.hi) \/ c > Len(ix) THEN acc
  ELSE LET S1 == UNION {{y \in Ends(p.p, ix, x, st) : y > x} : x \in S} IN      \* progress required: no empty iterations
       Rep(p, ix, S1, c + 1, IF c + 1 >= p.lo THEN acc \cup S1 ELSE acc, st)
Longest(ix, i) == LET E == {j \in Ends(cfg.pat, ix, i, i) : j > i} IN IF E = {} THEN 0 ELSE CHOOSE j \in E : \A k \in E : k <= j

\* left-to-right scan with the AFTER MATCH SKIP rule: sequence of <<first, last>> (positions in the partition)
RECURSIVE Scan(_, _)
Scan(ix, i) ==
  IF i > Len(ix) THEN <<>>
  ELSE LET j == Longest(ix, i) IN
       IF j = 0 THEN Scan(ix, i + 1)
       ELSE <<<<i, j - 1>>>> \o Scan(ix, CASE cfg.skip = "past" -> j
                                               [] cfg.skip = "next" -> i + 1
                                               \* SKIP TO FIRST / LAST <var> for the pattern shapes A B+ [C]: the rows of B are positional
                                               \* (first B = second row of the match; last B = last or last-but-one row)
                                               \* (the engine's rule, cep/engine.go skipTo: the next match may start AFTER that row)
                                               [] cfg.skip = "first" -> i + 2
                                               [] cfg.skip = "last" -> (j - 1) - cfg.skback + 1)
Expected(k) == LET ix == PIdx(k)  ms == Scan(ix, 1) IN
               [m \in 1..Len(ms) |-> [f |-> Col(evs[ix[ms[m][1]]], "id"), l |-> Col(evs[ix[ms[m][2]]], "id"), n |-> ms[m][2] - ms[m][1] + 1, mn |-> m]]
\* matches delivered for partition k, in delivery order
GotOf(k) == SelectSeq(got, LAMBDA r : (IF cfg.part = "" THEN <<"all">> ELSE KeyOf(Col(r, cfg.part))) = k)
RowIs(r, x) == /\ "f" \in DOMAIN r /\ Same(r.f, x.f) /\ "l" \in DOMAIN r /\ Same(r.l, x.l)
               /\ "n" \in DOMAIN r /\ SameNum(r.n, NumV(x.n * Scale), 0) /\ "mn" \in DOMAIN r /\ SameNum(r.mn, NumV(x.mn * Scale), 0)
PartCode(k) ==
  LET ex == Expected(k)  g == GotOf(k) IN
  IF Len(g) < Len(ex) THEN "valid_match_omitted"
  ELSE IF Len(g) > Len(ex) THEN "extra_or_invalid_match_reported"
  ELSE IF \E m \in 1..Len(ex) : ~RowIs(g[m], ex[m]) THEN "match_differs_from_leftmost_longest"
  ELSE ""
QuiesceCode == LET bad == {k \in Parts : PartCode(k) # ""} IN
               IF \E i \in 1..Len(got) : (IF cfg.part = "" THEN <<"all">> ELSE KeyOf(Col(got[i], cfg.part))) \notin Parts THEN "match_for_unknown_partition"
               ELSE IF bad = {} THEN "" ELSE PartCode(CHOOSE k \in bad : TRUE)

Reject(code) == /\ PrintT(<<"REJECT", cfg.tr, l, code>>) /\ dead' = TRUE
Init == l = 1 /\ cfg = [tr |-> -1] /\ evs = <<>> /\ got = <<>> /\ dead = FALSE
Next ==
  /\ l <= Len(Trace) /\ l' = l + 1
  /\ LET e == Trace[l] IN
     IF e.e = "reset" THEN cfg' = e /\ evs' = <<>> /\ got' = <<>> /\ dead' = FALSE
     ELSE IF dead THEN UNCHANGED <<cfg, evs, got, dead>>
     ELSE IF e.e = "in" THEN evs' = Append(evs, e.row) /\ UNCHANGED <<cfg, got, dead>>
     ELSE IF e.e = "out" THEN got' = got \o e.rows /\ UNCHANGED <<cfg, evs, dead>>
     ELSE IF e.e = "quiesce" THEN
        /\ IF QuiesceCode = "" THEN UNCHANGED dead ELSE Reject(QuiesceCode)
        /\ UNCHANGED <<cfg, evs, got>>
     ELSE IF e.e = "void" THEN dead' = TRUE /\ UNCHANGED <<cfg, evs, got>>      \* the driver could not keep its real-time schedule: no verdict
     ELSE IF e.e \in {"execerr", "panic"} THEN Reject("engine_" \o e.e) /\ UNCHANGED <<cfg, evs, got>>
     ELSE UNCHANGED <<cfg, evs, got, dead>>
Spec == Init /\ [][Next]_vars
AllConsumed == TLCGet("stats").diameter - 1 = Len(Trace)
=============================================================================
