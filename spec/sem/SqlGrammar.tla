----------------------------- MODULE SqlGrammar -----------------------------
(***************************************************************************)
(* Statement builder for the documented SQL grammar (C11): a statement is a  *)
(* choice of one option per clause; the state space is the set of all        *)
(* statements, which TLC enumerates as scenarios.  Each option name stands   *)
(* for a fixed clause text AND the configuration it must produce (both are   *)
(* tabulated in checks/C11.py next to each other); identifiers and literals  *)
(* deliberately contain keyword-like text (limit_x, order1, 'a LIMIT 3',      *)
(* 'ORDER BY x', 'WHERE').  Well-formedness rules of the grammar are the      *)
(* constraints below (HAVING / ORDER BY need an aggregate query, WITH needs a *)
(* time window, JOIN excludes nothing).                                      *)
(***************************************************************************)
EXTENDS Integers, Sequences, TLC, Json

Sels     == {"cols", "aliases", "aggs", "aggs2", "index", "longitem", "indexkw"}      \* indexkw: path segments spelled like keywords after a subscript (rows[0].limit)      \* index: chained subscripts / map keys / nested paths as select items
Wheres   == {"none", "cmp", "kwlit", "andor", "long", "pathkw"}      \* long: a conjunction of 45 comparisons (far more than 100 tokens)
Windows  == {"none", "tumbling", "sliding", "counting", "session", "global"}
Havings  == {"none", "alias", "agg"}
Withs    == {"none", "ts", "tsmoo", "uss", "us_s", "uus", "umi", "uhh"}      \* u*: the other TIMEUNIT names (ss, s, us, mi, hh)
Orders   == {"none", "one", "two", "descbare", "barefirst"}    \* descbare: a key without direction after a DESC key (defaults to ASC)
GbLayouts == {"kw", "wk"}                                         \* GROUP BY key, Window(...)  |  GROUP BY Window(...), key
Limits   == {0, 3}
Joins    == {"none", "inner", "left", "aliasnested", "aliasflat", "noalias", "reversed", "reversedbare"}   \* alias*: the stream under an alias, ON keys qualified (and nested)

VARIABLES sel, distinct, where, win, having, with, order, limit, join, gbl
vars == <<sel, distinct, where, win, having, with, order, limit, join, gbl>>
Agg(s) == s \in {"aggs", "aggs2"}
WellFormed ==
  /\ (win # "none") = Agg(sel)                       \* aggregates need a window and a window query selects aggregates
  /\ (having # "none" => Agg(sel))
  /\ (with # "none" => win \in {"tumbling", "sliding", "session"})
  /\ (order # "none" => Agg(sel))
  /\ (join # "none" => sel \in {"cols", "aliases", "index", "indexkw"})
  /\ (sel = "longitem" => join = "none" /\ ~distinct)          \* longitem: one select item of far more than 100 tokens (a CASE with 24 branches)
  /\ (distinct => sel # "aggs2")
  /\ (win = "global" => having = "none" /\ order = "none")
  /\ (win \in {"none", "global"} => gbl = "kw")
Init == /\ sel \in Sels /\ distinct \in BOOLEAN /\ where \in Wheres /\ win \in Windows /\ having \in Havings
        /\ with \in Withs /\ order \in Orders /\ limit \in Limits /\ join \in Joins /\ gbl \in GbLayouts /\ WellFormed
Next == UNCHANGED vars
Spec == Init /\ [][Next]_vars
Emit == PrintT(<<"SCEN", ToJson([sel |-> sel, distinct |-> distinct, where |-> where, win |-> win, having |-> having,
                                 with |-> with, order |-> order, limit |-> limit, join |-> join, gbl |-> gbl])>>)
=============================================================================
