------------------------------- MODULE TraceSql -------------------------------
(***************************************************************************)
(* C11 on traces of the real parser.  reset line: mode = "grammar" with the  *)
(* expected configuration 'exp' (only the listed keys are compared), or       *)
(* mode = "total" (arbitrary token sequences: the only rejections are a       *)
(* panic or a watchdog expiry).  Every text of a grammar scenario is a layout *)
(* variant of ONE statement: all must parse, to the same configuration, which *)
(* must equal the expectation.                                                *)
(***************************************************************************)
EXTENDS Integers, Sequences, TLC, Json, IOUtils
CONSTANT Dev
Trace == ndJsonDeserialize(IOEnv.TRACE_FILE)
VARIABLES l, cfg, first, dead
vars == <<l, cfg, first, dead>>
Reject(code) == PrintT(<<"REJECT", cfg.tr, l, code>>) /\ dead' = TRUE
Init == l = 1 /\ cfg = [tr |-> -1] /\ first = <<>> /\ dead = FALSE
Differs(c) == {k \in DOMAIN cfg.exp : k \notin DOMAIN c \/ c[k] # cfg.exp[k]}
Next ==
  /\ l <= Len(Trace) /\ l' = l + 1
  /\ LET e == Trace[l] IN
     IF e.e = "reset" THEN cfg' = e /\ first' = <<>> /\ dead' = FALSE
     ELSE IF dead THEN UNCHANGED <<cfg, first, dead>>
     ELSE IF e.e = "parse" THEN
        IF e.panic = 1 THEN Reject("parser_panicked") /\ UNCHANGED <<cfg, first>>
        ELSE IF e.timeout = 1 THEN Reject("parser_did_not_terminate") /\ UNCHANGED <<cfg, first>>
        ELSE IF cfg.mode = "total" THEN UNCHANGED <<cfg, first, dead>>
        ELSE IF e.err = 1 THEN Reject("documented_statement_rejected") /\ UNCHANGED <<cfg, first>>
        ELSE IF first # <<>> /\ e.cfg # first[1] THEN Reject("layout_or_keyword_case_changed_the_configuration") /\ UNCHANGED <<cfg, first>>
        ELSE IF Differs(e.cfg) # {} THEN Reject("configuration_differs_from_written_clauses_" \o (CHOOSE k \in Differs(e.cfg) : TRUE)) /\ UNCHANGED <<cfg, first>>
        ELSE first' = <<e.cfg>> /\ UNCHANGED <<cfg, dead>>
     ELSE UNCHANGED <<cfg, first, dead>>
Spec == Init /\ [][Next]_vars
AllConsumed == TLCGet("stats").diameter - 1 = Len(Trace)
=============================================================================
