#!/usr/bin/env python3
"""Binding self-test: record real traces, check that the monitors accept them, then corrupt ONE recorded field (or drop one
event) and check that the monitor rejects. Shows that the trace monitors are not vacuous. usage: selftest.py"""
import copy, json, os, sys
sys.path.insert(0, os.path.join(os.path.dirname(os.path.abspath(__file__)), "..", "lib"))
sys.path.insert(0, os.path.join(os.path.dirname(os.path.abspath(__file__)), "..", "checks"))
import vlib, win, seqfam

def run(sub, scen):
    vh = vlib.build_vh()
    sp = os.path.join(vlib.scratch(), "st_%s.scen" % sub); tp = sp + ".trace"
    open(sp, "w").write(json.dumps(scen) + "\n")
    rc, out = vlib.sh([vh, sub, "-scen", sp, "-out", tp], 120)
    assert rc == 0, out
    return [json.loads(l) for l in open(tp)]

def verdict(spec_dir, mon, events):
    tp = os.path.join(vlib.scratch(), "st_%s.ndjson" % mon)
    open(tp, "w").write("\n".join(json.dumps(e) for e in events) + "\n")
    rej, _, _ = vlib.validate(spec_dir, mon, tp, set())
    return [r[2] for r in rej]

ok = True
def expect(name, got, want_reject):
    global ok
    good = bool(got) == want_reject
    ok &= good
    print("%-78s %s %s" % (name, "rejected: %s" % got[0] if got else "accepted", "" if good else "   <-- UNEXPECTED"))

# 1. tumbling window trace (TraceWin)
sc = {"tr": 1, "cfg": {"kind": "tumbling", "size": 2, "slide": 0, "moo": 1, "al": 0, "unit": 1000, "groups": 1, "base": 0, "ahead": False},
      "steps": [{"a": "add", "id": 1, "ts": 0}, {"a": "add", "id": 2, "ts": 1}, {"a": "add", "id": 3, "ts": 4}, {"a": "trig"}, {"a": "send"}, {"a": "trig"}, {"a": "send"}, {"a": "trig"}, {"a": "send"}], "free": True}
sc["steps"] = [s for s in sc["steps"] if s["a"] == "add"]
ev = run("win", sc)
expect("TraceWin: recorded trace", verdict(win.SPEC, "TraceWin", ev), False)
e2 = copy.deepcopy(ev)
for e in e2:
    if e["e"] == "deliver": e["rows"][0]["ids"] = e["rows"][0]["ids"][:-1]; e["rows"][0]["c"] -= 1; break
expect("TraceWin: one row removed from the delivered result", verdict(win.SPEC, "TraceWin", e2), True)
e3 = copy.deepcopy(ev)
for e in e3:
    if e["e"] == "deliver": e["rows"][0]["we"] += 1; break
expect("TraceWin: window_end shifted by one tick", verdict(win.SPEC, "TraceWin", e3), True)
e4 = [e for e in ev if e["e"] != "deliver"]
expect("TraceWin: delivery event dropped", verdict(win.SPEC, "TraceWin", e4), True)
e5 = copy.deepcopy(ev); i = [k for k, e in enumerate(e5) if e["e"] == "deliver"][0]; e5.insert(2, e5.pop(i))
expect("TraceWin: delivery moved before the row that advances the watermark", verdict(win.SPEC, "TraceWin", e5), True)

# 1b. state binding of the code-shaped model (TraceTumblingImpl): a forced replay binds; one corrupted hook field, one removed hook
# event followed by a wrong delivery, and the model run with another constant (Reanchor = FALSE where the replay re-anchors) drift
def impl(events, consts="Size = 2 MOO = 1 AL = 0 MaxTs = 99 MaxEv = 12 ChanCap = 100 Reanchor = TRUE Emit = FALSE Dev = {}"):
    tp = os.path.join(vlib.scratch(), "st_impl.ndjson")
    open(tp, "w").write("\n".join(json.dumps(e) for e in events) + "\n")
    cfg = "SPECIFICATION Spec0\nCONSTANTS %s\nPOSTCONDITION AllConsumed\nCHECK_DEADLOCK FALSE\n" % consts
    r = vlib.tlc(win.SPEC, "TraceTumblingImpl", cfg, env={"TRACE_FILE": tp}, workers=1, timeout=300)
    assert r["ok"], r["out"][-1500:]
    return [x[3] for x in vlib.prints(r["out"], "DRIFT")], len(vlib.prints(r["out"], "BOUND"))
sc = {"tr": 1, "cfg": {"kind": "tumbling", "size": 2, "slide": 0, "moo": 1, "al": 0, "unit": 1000, "groups": 1, "base": 0, "ahead": False},
      "steps": [{"a": "add", "id": 1, "ts": 4}, {"a": "add", "id": 2, "ts": 3}, {"a": "add", "id": 3, "ts": 7}, {"a": "trig"}, {"a": "trig"}, {"a": "send"}, {"a": "send"}], "free": False}
ev = run("win", sc)
d, b = impl(ev)
expect("TraceTumblingImpl: forced replay (state after every step = the model's)", d if b == 1 else ["not bound"], False)
e2 = copy.deepcopy(ev)
for e in e2:
    if e["e"] == "h.add" and e["n"] > 1: e["n"] -= 1; break
expect("TraceTumblingImpl: buffered-row count of one hook event off by one", impl(e2)[0], True)
e3 = copy.deepcopy(ev)
for e in e3:
    if e["e"] == "deliver": e["rows"][0]["ids"] = e["rows"][0]["ids"][:-1]; break
expect("TraceTumblingImpl: a delivered batch lacks a row of the model's batch", impl(e3)[0], True)
expect("TraceTumblingImpl: model without re-anchoring (Reanchor = FALSE) against the engine's replay", impl(ev, "Size = 2 MOO = 1 AL = 0 MaxTs = 99 MaxEv = 12 ChanCap = 100 Reanchor = FALSE Emit = FALSE Dev = {}")[0], True)

# 2. counting batches (TraceBatch)
aggs = [{"al": "c", "fn": "count_star", "arg": {"k": "star"}, "p": 0}, {"al": "s", "fn": "sum", "arg": {"k": "col", "c": "v"}, "p": 0}]
sc = {"tr": 1, "meta": {"fam": "batch", "carrier": "counting", "n": 2, "gcols": ["g"], "gout": ["g"], "aggs": aggs},
      "sql": "SELECT g, count(*) AS c, sum(v) AS s FROM stream GROUP BY g, CountingWindow(2)", "rows": [{"id": 1, "g": "a", "v": 1}, {"id": 2, "g": "b", "v": 2}, {"id": 3, "g": "a", "v": 3}, {"id": 4, "g": "b", "v": 5}]}
ev = run("seq", sc)
expect("TraceBatch: recorded trace", verdict(seqfam.SEM, "TraceBatch", ev), False)
e2 = copy.deepcopy(ev)
for e in e2:
    if e["e"] == "out": e["rows"][0]["s"]["v"] += 10000; break
expect("TraceBatch: sum of one result off by one", verdict(seqfam.SEM, "TraceBatch", e2), True)
e3 = copy.deepcopy(ev); outs = [k for k, e in enumerate(e3) if e["e"] == "out"]; e3[outs[0]], e3[outs[1]] = e3[outs[1]], e3[outs[0]]
expect("TraceBatch: the two deliveries swapped", verdict(seqfam.SEM, "TraceBatch", e3), True)

# 3. direct query (TraceDirect)
from exprgen import col, num
sel = [{"al": "id", "e": col("id")}, {"al": "d", "e": {"t": "bin", "op": "*", "a": col("x"), "b": num(2)}}]
where = {"t": "cmp", "op": ">", "a": col("x"), "b": num(1)}
sc = {"tr": 1, "meta": {"fam": "direct", "star": 0, "chan": 0, "sel": sel, "where": where}, "sql": "SELECT id, x * 2 AS d FROM stream WHERE x > 1",
      "rows": [{"id": 1, "x": 1}, {"id": 2, "x": 3}], "mode": "sync"}
ev = run("seq", sc)
expect("TraceDirect: recorded trace", verdict(seqfam.SEM, "TraceDirect", ev), False)
e2 = copy.deepcopy(ev)
for e in e2:
    if e["e"] == "out": e["rows"][0]["d"]["v"] += 10000
    if e["e"] == "ret" and e.get("has"): e["row"]["d"]["v"] += 10000
expect("TraceDirect: projected value off by one", verdict(seqfam.SEM, "TraceDirect", e2), True)
e3 = [e for e in ev if e["e"] != "out"]
expect("TraceDirect: sink delivery dropped", verdict(seqfam.SEM, "TraceDirect", e3), True)
# 4. input path (TraceIngest): counters + intervals instead of sets - the same clauses must still fire
PIPE = os.path.join(vlib.VERIF, "spec", "pipe")
sc = {"tr": 1, "strategy": "block", "data": 4, "max": 64, "mininc": 2, "producers": 2, "rows": 30, "slowsink": 0, "seed": 5, "perturb": True}
ev = run("ingest", sc)
expect("TraceIngest: recorded trace", verdict(PIPE, "TraceIngest", ev), False)
procs = [i for i, e in enumerate(ev) if e["e"] == "proc"]
e2 = copy.deepcopy(ev); e2.insert(procs[5] + 1, copy.deepcopy(ev[procs[5]]))
expect("TraceIngest: one processed row reported twice", verdict(PIPE, "TraceIngest", e2), True)
e3 = copy.deepcopy(ev); del e3[procs[7]]
expect("TraceIngest: one processed row missing", verdict(PIPE, "TraceIngest", e3), True)
same = [i for i in procs if ev[i]["p"] == ev[procs[0]]["p"]]
e4 = copy.deepcopy(ev); e4[same[2]], e4[same[3]] = e4[same[3]], e4[same[2]]
expect("TraceIngest: two rows of one producer swapped", verdict(PIPE, "TraceIngest", e4), True)
e5 = copy.deepcopy(ev)
for e in e5:
    if e["e"] == "proc": e["i"] = 1000; break
expect("TraceIngest: a processed row that was never emitted", verdict(PIPE, "TraceIngest", e5), True)
# the admitted reorder deviation has an exact shape: one early row per installed buffer - two early rows after ONE swap are rejected
dev = [{"tr": 1, "e": "reset", "strategy": "expand", "data": 4, "max": 16, "producers": 1, "rows": 6, "directed": 1, "strict": 0, "empties": 0}]
dev += [{"tr": 1, "e": "emit", "p": 1, "i": i} for i in range(1, 7)] + [{"tr": 1, "e": "swap", "cap": 8, "migrated": 4}]
one = dev + [{"tr": 1, "e": "proc", "p": 1, "i": i} for i in (3, 1, 2, 4, 5, 6)]
two = dev + [{"tr": 1, "e": "proc", "p": 1, "i": i} for i in (3, 5, 1, 2, 4, 6)]
stats = [{"tr": 1, "e": "stats", "dropped": 0, "cap": 8, "len": 0, "quiet": 1, "items": 6, "input": 6, "output": 6, "outdrop": 0}, {"tr": 1, "e": "quiesce"}]
def verdict_dev(events):
    tp = os.path.join(vlib.scratch(), "st_ingest_dev.ndjson")
    open(tp, "w").write("\n".join(json.dumps(e) for e in events) + "\n")
    rej, _, _ = vlib.validate(PIPE, "TraceIngest", tp, {"ExpansionReordersRows"})
    return [r[2] for r in rej]
expect("TraceIngest: ONE early row after one swap (the recorded deviation's shape)", verdict_dev(one + stats), False)
expect("TraceIngest: TWO early rows after one swap", verdict_dev(two + stats), True)
# 5. the code-shaped models' design alternatives: the OLD order of the engine's steps fails an invariant in the model (TLC), the repaired one holds
import win
def model_violates(c):
    invs = "OneFirstFiring DeliveriesOKDev NoOnTimeLoss WmOK ImplOK NotBeforeS0 LateRedelivered"
    cfg = "SPECIFICATION Spec\nCONSTANTS %s\nINVARIANTS %s\nVIEW View\nCHECK_DEADLOCK FALSE\n" % (win.consts("sliding", c, False, "C02"), invs)
    r = vlib.tlc(win.SPEC, "Sliding", cfg, workers=8, timeout=600)
    return [r["violated"]] if r.get("violated") else []
late2 = dict(size=2, slide=1, moo=0, al=4, maxts=4, maxev=4)
expect("Sliding.tla: late re-deliveries computed one by one with the lock released in between (old code)", model_violates(dict(late2, late_one_by_one=True)), True)
expect("Sliding.tla: all snapshots updated before the first late re-delivery (repaired code)", model_violates(late2), False)
expect("Sliding.tla: fired window registered for late rows only after its delivery (old code)", model_violates(dict(size=4, slide=2, moo=1, al=1, maxts=5, maxev=4, register_late=True)), True)
print("SELFTEST", "passed" if ok else "FAILED")
sys.exit(0 if ok else 1)
