#!/bin/bash
# usage: detect.sh <mutdir> [check-id] : run the quick check of the property against a scratch worktree with the patch applied
d=$1; pid=$(python3 -c "import json;print(json.load(open('$d/meta.json'))['property'])"); chk=${2:-$pid}
tag=$(echo $d | tr '/' '_')
WT=/tmp/mutdet_wt$tag; EV=/tmp/mutdet_ev$tag
git -C /repo worktree remove --force $WT 2>/dev/null; git -C /repo worktree add -q --detach $WT HEAD || exit 3
pf=$d/patch.diff; [ -f $d/patch_ported.diff ] && pf=$d/patch_ported.diff
if ! git -C $WT apply $pf 2>/tmp/mutdet_err$tag; then echo "$d PATCH DOES NOT APPLY: $(head -c 300 /tmp/mutdet_err$tag)"; git -C /repo worktree remove --force $WT; exit 4; fi
rm -rf $EV; mkdir -p $EV
cd /verif && VERIF_REPO=$WT VERIF_EVIDENCE=$EV VERIF_SEED=${VERIF_SEED:-1} bin/check $chk quick > /tmp/mutdet_out$tag 2>&1; rc=$?
echo "$d exit=$rc $(grep -m1 '^VIOLATION' /tmp/mutdet_out$tag | cut -c1-220) $(tail -1 /tmp/mutdet_out$tag | cut -c1-120)"
git -C /repo worktree remove --force $WT; rm -rf $EV
