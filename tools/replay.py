#!/usr/bin/env python3
"""Re-run one recorded violation (evidence/replay/<id>/violation_N.json) on the real engine and validate its trace."""
import json, os, sys
sys.path.insert(0, os.path.join(os.path.dirname(os.path.abspath(__file__)), "..", "lib"))
sys.path.insert(0, os.path.join(os.path.dirname(os.path.abspath(__file__)), "..", "checks"))
import vlib

def main():
    prop, path = sys.argv[1], sys.argv[2]
    v = json.load(open(path))
    fam = v.get("family", "win")
    sc = v.get("replay") or {}
    import re
    mon = re.search(r"\((Trace\w+)\)", v.get("what", ""))
    if isinstance(sc, dict) and mon and ("sql" in sc or "texts" in sc or "ops" in sc) and "cfg" not in sc:
        # sequential families: one scenario through the seq / parse driver, validated by the monitor named in the violation
        monitor = mon.group(1)
        sub = "parse" if "texts" in sc else "seq"
        spec_dir = os.path.join(vlib.VERIF, "spec", "pipe" if monitor in ("TraceIso", "TraceIngest", "TraceLifecycle", "TraceApi") else "sem")
        vh = vlib.build_vh()
        sp = os.path.join(vlib.scratch(), "one.scen"); tp = os.path.join(vlib.scratch(), "one.trace")
        open(sp, "w").write(json.dumps(dict(sc, tr=1)) + "\n")
        rc, out = vlib.sh([vh, sub, "-scen", sp, "-out", tp], 300)
        print(out.strip())
        kd = set(vlib.known_devs(prop))
        rej, _, _ = vlib.validate(spec_dir, monitor, tp, kd)
        for r in rej:
            print("REJECT", r)
        print("VIOLATION property=%s replay=%s" % (prop, path) if rej else "scenario accepted (not reproduced)")
        sys.exit(1 if rej else 0)
    import importlib
    mod = importlib.import_module({"win": "win"}.get(fam, fam))
    import inspect
    rej = mod.replay_one(v["replay"], prop) if "prop" in inspect.signature(mod.replay_one).parameters else mod.replay_one(v["replay"])
    for r in rej:
        print("REJECT", r)
    print("VIOLATION property=%s replay=%s" % (prop, path) if rej else "scenario accepted (not reproduced)")
    sys.exit(1 if rej else 0)

try:
    main()
except vlib.Inconclusive as e:
    print("INCONCLUSIVE:", e, file=sys.stderr); sys.exit(2)
