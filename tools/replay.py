#!/usr/bin/env python3
"""Re-run one recorded violation (evidence/replay/<id>/violation_N.json) on the real engine and validate its trace."""
import json, os, sys
sys.path.insert(0, os.path.join(os.path.dirname(os.path.abspath(__file__)), "..", "lib"))
sys.path.insert(0, os.path.join(os.path.dirname(os.path.abspath(__file__)), "..", "checks"))
import vlib

def main():
    prop, path = sys.argv[1], sys.argv[2]
    v = json.load(open(path))
    fam = v.get("family", "win")
    import importlib
    mod = importlib.import_module({"win": "win"}.get(fam, fam))
    import inspect
    rej = mod.replay_one(v["replay"], prop) if "prop" in inspect.signature(mod.replay_one).parameters else mod.replay_one(v["replay"])
    for r in rej:
        print("REJECT", r)
    print("VIOLATION property=%s replay=%s" % (prop, path) if rej else "scenario accepted (not reproduced)")
    sys.exit(1 if rej else 0)

try:
    main()
except vlib.Inconclusive as e:
    print("INCONCLUSIVE:", e, file=sys.stderr); sys.exit(2)
