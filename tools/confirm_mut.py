#!/usr/bin/env python3
"""Confirm seeded changes in a scratch worktree of /repo HEAD: demo passes clean, fails with the patch,
the full unedited suite passes with the patch. usage: confirm_mut.py <mutdir>...  (mutdir has patch.diff, demo_test.go|demo.go, meta.json)"""
import json, os, re, shutil, subprocess, sys, time
ENV = dict(os.environ, GOFLAGS="-mod=mod", GOPROXY="off", GOSUMDB="off", GOTOOLCHAIN="local")
WT = os.environ.get("CONFIRM_WT", "/tmp/mutconfirm_wt")

def sh(cmd, cwd, timeout=1800):
    p = subprocess.run(cmd, shell=True, cwd=cwd, env=ENV, stdout=subprocess.PIPE, stderr=subprocess.STDOUT, text=True, timeout=timeout)
    return p.returncode, p.stdout

def main():
    if os.path.isdir(WT):
        sh("git -C /repo worktree remove --force " + WT, "/")
    rc, o = sh("git -C /repo worktree add -q --detach %s HEAD" % WT, "/")
    assert rc == 0, o
    try:
        for d in sys.argv[1:]:
            res = {"dir": d, "at": time.strftime("%F %T"), "repo_head": sh("git rev-parse --short HEAD", WT)[1].strip()}
            meta = json.load(open(os.path.join(d, "meta.json")))
            cmd = meta.get("demo_cmd", "")
            m = re.search(r"-run\s+'?\"?([^'\" ]+)", cmd)
            pk = re.findall(r"(\./[\w/\.]*|\s\.)(?=\s|$)", cmd)
            pkg = pk[-1].strip() if pk else None
            if not m or not pkg:
                res["error"] = "cannot parse demo_cmd: " + cmd
                json.dump(res, open(os.path.join(d, "confirm.json"), "w"), indent=1); print(res); continue
            run = m.group(1)
            demo = os.path.join(d, "demo_test.go")
            dst = os.path.join(WT, pkg, "zz_seeded_demo_test.go")
            sh("git checkout -q -- . && git clean -fdq", WT)
            shutil.copy(demo, dst)
            democmd = "go test -vet=off -count=1 -run '%s' %s" % (run, pkg)
            rc, o = sh(democmd, WT, 900)
            res["demo_clean_pass"] = (rc == 0); res["demo_clean_tail"] = o[-400:]
            pf = os.path.join(d, "patch_ported.diff") if os.path.exists(os.path.join(d, "patch_ported.diff")) else os.path.join(d, "patch.diff")
            res["patch_file"] = os.path.basename(pf)
            rc, o = sh("git apply " + pf, WT)
            res["patch_applies"] = (rc == 0)
            if rc != 0:
                res["apply_err"] = o[-500:]
            else:
                rc, o = sh("go build ./...", WT, 600)
                res["builds"] = (rc == 0)
                rc, o = sh(democmd, WT, 900)
                res["demo_patched_fails"] = (rc != 0); res["demo_patched_tail"] = o[-600:]
                os.remove(dst)
                rc, o = sh("go test -vet=off -count=1 -timeout 25m ./... 2>&1 | grep -v '^ok\\|no test files' | tail -20", WT, 2400)
                res["suite_passes_with_patch"] = (o.strip() == ""); res["suite_tail"] = o[-600:]
            sh("git checkout -q -- . && git clean -fdq", WT)
            res["confirmed"] = bool(res.get("demo_clean_pass") and res.get("patch_applies") and res.get("builds") and res.get("demo_patched_fails") and res.get("suite_passes_with_patch"))
            json.dump(res, open(os.path.join(d, "confirm.json"), "w"), indent=1)
            print(d, "confirmed" if res["confirmed"] else "NOT CONFIRMED", {k: v for k, v in res.items() if isinstance(v, bool)}, flush=True)
    finally:
        sh("git -C /repo worktree remove --force " + WT, "/")

main()
