#!/usr/bin/env python3
"""Regenerate /verif/MANIFEST.json from the table below (claimed checks) + properties.jsonl."""
import json, os
V = os.path.dirname(os.path.dirname(os.path.abspath(__file__)))
props = [json.loads(l) for l in open(os.path.join(V, "properties.jsonl"))]
MC = "model_checking"
WIN_NOTE = ("Trusted: TLC + Json/IOUtils community modules; the Go driver (scenario interpreter, trace writer: decides nothing); the verif hooks "
            "(add-only). Assumes the window output buffer never overflows, a single producer, IDLETIMEOUT unset; event-time only "
            "(processing-time windows depend on the wall clock and are not replayed).")
SEQ_NOTE = ("Trusted: TLC + Json/IOUtils modules; the Go driver (typed-value decoder, lock-step feeder, value projection to fixed point x10^4: decides nothing); "
            "the scenario/SQL renderer in checks/*.py (the monitor trusts that the meta line describes the SQL); verif hooks. Single producer, rows fed in lock-step, results observed at a synchronous sink.")
CLAIMS = {
 "C04": dict(tech="TLA+ model of GROUP BY inside a batch with the aggregator's key encoder over symbol sequences (GroupBy.tla: separator-join violates the partition contract, length-prefix satisfies it) model-checked by TLC; batches over separator-like / NULL-marker / NULL / missing / >2^53 values and scalar-function keys executed on the real engine and validated by TLC against TraceBatch (one result row per distinct key tuple, each row aggregated in its own tuple's group)",
             text="TLC checks the partition contract on the model for every pair of key tuples over an alphabet containing the encoder's own separator and NULL-marker characters; on the real engine every enumerated/seeded batch is validated by TLC: exactly one result row per distinct tuple (NULL and missing collapsing), reported under the selected names, with collect(id)/count/sum equal to the rows of that tuple only. Bounded and sampled for 2-3 columns.",
             ref="DESIGN.md §4 C04", note=SEQ_NOTE + " One scalar type per grouping column; function keys via upper()/lower() on present strings."),
 "C17": dict(tech="TLA+ model of the global window (GlobalWin.tla: rows of a group since it last fired, predicate menu, fire-and-purge) model-checked by TLC (fires exactly when the predicate first holds, conservation, no firing while false); every row sequence of the model at small bounds replayed in lock-step on the real engine; traces validated by TLC against TraceBatch (global carrier: predicate AST evaluated with lib/Agg on the rows since the last firing)",
             text="TLC enumerates every row sequence (2 groups, values incl. NULL) up to the stated length for 8 predicates (comparisons of count/sum/avg/min/max, AND, OR, OR-of-AND precedence), 3 SELECT shapes; each runs on the real engine and TLC checks: a result exactly at the rows where the predicate holds over the rows since the group's previous result, carrying the aggregates over precisely those rows and the group column, nothing at quiescence missing. Bounded.",
             ref="DESIGN.md §4 C17", note=SEQ_NOTE + " STATETTL unset; numeric literals; small integer / NULL / missing values."),
 "C05": dict(tech="TLA+ model of the non-aggregate pipeline (Direct.tla: bounded input FIFO, one processor, inline synchronous sink, non-blocking result channel with drop-oldest) model-checked by TLC for order/at-most-once/accounting; queries generated from expression ASTs executed on the real engine through Emit (sink + channel), EmitSync, and unthrottled bursts (also across input-buffer expansion); traces validated by TLC against TraceDirect, whose expected result is lib/Expr applied to (row, query) alone",
             text="TLC validates every recorded execution against a contract whose FORM is statelessness: the expected result of a row is Project/Filter of that row under the query ASTs (evaluated by the TLA+ interpreter lib/Expr), nothing else; results must be exactly the selected columns, EmitSync must return what the sink received, and in bursts sink and channel must see the results in emission order, each once. The pipeline model is checked exhaustively at small sizes. Seeded, not exhaustive, on the real engine.",
             ref="DESIGN.md §4 C05", note=SEQ_NOTE + " Predicates/expressions are drawn from the envelope in which the engine follows SQL semantics; deviations outside it are pinned findings (C06)."),
 "C06": dict(tech="TLA+ reference interpreter for scalar SQL expressions (lib/Expr.tla: exact rationals, NULL propagation, two-valued logic, CASE, functions) whose laws are model-checked by TLC (ExprLaws.tla); seeded expression ASTs in SELECT / WHERE / CASE positions executed on the real engine (one process: shared compiled-program and preprocess caches; Emit and EmitSync) and every recorded value/decision validated by TLC against the interpreter (TraceDirect); recorded deviations are pinned by their exact input",
             text="The oracle is a definition (TLA+ interpreter), not a second run of the code. Seven profiles cover the envelope in which the engine follows SQL semantics (arithmetic with NULL/missing/nested paths, top-level CASE, string functions, comparisons, full WHERE predicates incl. flat AND/OR chains that take the fast path, WHERE over NULL data); eleven genuine deviations outside it are recorded as known findings, each pinned by input and re-checked on every run. Functions not definable over small rationals/strings are not decided.",
             ref="DESIGN.md §4 C06", note=SEQ_NOTE + " Division only by non-zero literals; small integers and halves; function values decided only for abs/floor/ceil/upper/lower/concat/coalesce."),
 "C09": dict(tech="TLA+ model of CountingWindow(N) with the key encoder (Counting.tla + lib/KeyEnc.tla) model-checked by TLC (contract per key TUPLE, encoder injectivity); every key sequence of the model at small bounds replayed in lock-step on the real engine; traces validated by TLC against the batch monitor TraceBatch",
             text="TLC enumerates all key sequences of the model (plain keys, separator-like keys, NULL/missing/empty, two-column keys) up to the stated length; each is executed on the real engine and the recorded trace is validated by TLC: i-th delivery of a key = that key's rows (i-1)N+1..iN, nothing extra, nothing missing at quiescence. Bounded; goroutine schedules beyond lock-step are not explored (one goroutine owns the state, Add blocks on a channel).",
             ref="DESIGN.md §4 C09", note=SEQ_NOTE + " STATETTL unset."),
 "C03": dict(tech="TLA+ reference semantics of the 17 aggregate functions (lib/Agg.tla) evaluated by TLC on traces of real batches (TraceBatch), plus the TLA+ model AggBatch (incremental accumulators vs definition, reset between batches) model-checked by TLC",
             text="Every value sequence up to the stated length over {NULL, missing, -3, 0, 2, 2, 7} (hence every permutation), 4 argument shapes, 1-2 groups, three consecutive batches per instance, is executed on the real engine; TLC checks each delivered value against the definition with exact integer arithmetic (fixed point), so NULL handling, leakage between batches/groups and per-row expression evaluation are decided on real outputs. Three known findings are admitted in their exact shape.",
             ref="DESIGN.md §4 C03", note=SEQ_NOTE + " Small integer / half inputs; percentile accepted within its bracketing order statistics; merge_agg and 2-argument deduplicate not decided."),
 "C01": dict(tech="TLA+ model of the event-time tumbling window (Add/Trig/Send, one action per critical section) model-checked by TLC with the contract as invariants; every behaviour of the model at small bounds is forced onto the real engine through gates and the recorded traces are validated by TLC against the contract monitor TraceWin",
             text="TLC explores every interleaving of ingest and trigger goroutine of the code-shaped model within the stated constants and checks exactly-once / right-interval / no-loss as invariants; all enumerated behaviours plus seeded free-running inputs are executed on the real engine and every recorded trace is validated by TLC against the contract automaton, so the verdict is formed on real executions. Bounded (<=5 rows per scenario in lock-step, <=80 free-running), not a proof.",
             ref="DESIGN.md §4 C01", note=WIN_NOTE),
 "C02": dict(tech="TLA+ models of tumbling/sliding windows with watermark, allowed lateness and late updates model-checked by TLC; behaviours replayed with forced schedules on the real engine; traces validated by TLC against TraceWin (no early firing, late-only discard, re-delivery superset, closure after allowance, far-future guard)",
             text="As C01, for the watermark clauses: no-early-firing and re-delivery rules are invariants of the model and guards of the trace monitor; the processed-watermark rule uses the trigger-pass events recorded through hooks. One known finding (LateUpdateOvertakes) is admitted by a narrowly shaped deviation.",
             ref="DESIGN.md §4 C02", note=WIN_NOTE + " A late row's re-delivery is required only when the first delivery was logged before the row was emitted; closure is judged by completed trigger passes."),
 "C10": dict(tech="TLA+ model of the event-time session window (one live session per key, Add extends without gap test, collect-under-lock / send-after-unlock) model-checked by TLC with the C10 contract as invariants (strict contract fails, contract minus the two recorded deviations holds); behaviours replayed with forced schedules on the real engine; traces validated by TLC against TraceSession",
             text="As C01 for session windows. Two known findings (SessionMergeAcrossGap, SessionStartFirstArrival) are admitted only in their exact shape; each event once, own key, window_end, not-before-watermark, nothing lost and no split below the timeout are still enforced on every trace.",
             ref="DESIGN.md §4 C10", note=WIN_NOTE),
 "C08": dict(tech="TLA+ model of the event-time sliding window (cursor advance-before-fire, eviction, late registration after send) model-checked by TLC; behaviours replayed with forced schedules on the real engine; traces validated by TLC against TraceWin",
             text="As C01 for sliding windows: slide alignment, every on-time row in every reportable covering interval, first firings once and in increasing order.",
             ref="DESIGN.md §4 C08", note=WIN_NOTE),
}
checks = []
for p in props:
    c = CLAIMS.get(p["id"])
    if not c:
        continue
    checks.append({"property_id": p["id"], "quick_cmd": "bin/check %s quick" % p["id"], "thorough_cmd": "bin/check %s thorough" % p["id"],
                   "evidence_file": "/verif/evidence/%s.json" % p["id"], "replay_cmd_template": "bin/replay %s {path}" % p["id"],
                   "engine": "tla-model-based", "level_claimed": {"category": c.get("level", MC), "text": c["text"], "design_ref": c["ref"]},
                   "level_note": c["note"], "technique": c["tech"]})
NA = {}
m = {"version": 1,
     "setup_cmd": "bin/setup",
     "hooks": {"guard": "verif", "enable": "go build -tags verif (package verifhook: hook_on.go / hook_off.go); the checks build /verif/harness against /repo with -tags verif",
               "baseline_off_cmd": "cd /repo && GOFLAGS=-mod=mod GOPROXY=off GOSUMDB=off GOTOOLCHAIN=local go test -vet=off -count=1 -timeout 25m ./...",
               "source_commits": ["9916f47", "9f42a28"], "add_only": True},
     "engines": [{"name": "tla-model-based", "path": "/verif/spec + /verif/harness + /verif/checks",
                  "serves_properties": sorted(CLAIMS), "kind_free_text": "explicit TLA+ specifications checked with TLC; TLC-generated behaviours replayed into the real engine by a Go driver through build-tag hooks; recorded ndjson traces validated by TLC against total contract monitors"}],
     "checks": checks,
     "notes": "Exit codes: 0 held (KNOWN-FINDING lines possible), 1 VIOLATION, 2 inconclusive (timeout, build failure, driver could not run). See DESIGN.md.",
     "not_applicable": [{"property_id": p["id"], "reason": NA.get(p["id"], "check not built yet in this round (work in progress); no claim made")} for p in props if p["id"] not in CLAIMS]}
json.dump(m, open(os.path.join(V, "MANIFEST.json"), "w"), indent=1)
print("claimed:", sorted(CLAIMS))
