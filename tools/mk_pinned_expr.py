#!/usr/bin/env python3
"""(Re)build the pinned expression findings in KNOWN_FINDINGS.json from their ASTs (so that SQL text and AST agree)."""
import json, os, sys
V = os.path.dirname(os.path.dirname(os.path.abspath(__file__)))
sys.path.insert(0, os.path.join(V, "checks"))
from exprgen import col, num, strlit, par, sql
def cmp_(op, a, b): return {"t": "cmp", "op": op, "a": a, "b": b}
def bin_(op, a, b): return {"t": "bin", "op": op, "a": a, "b": b}
def scen(sel, where, rows, mode="sync"):
    txt = "SELECT " + ", ".join(("%s AS %s" % (sql(it["e"]), it["al"])) if not (it["e"]["t"] == "col" and it["e"]["c"] == it["al"]) else it["al"] for it in sel) + " FROM stream"
    meta = {"fam": "direct", "star": 0, "chan": 0, "sel": sel}
    if where is not None:
        txt += " WHERE " + sql(where); meta["where"] = where
    sc = {"meta": meta, "sql": txt, "rows": rows}
    if mode == "sync": sc["mode"] = "sync"
    return sc
ID = [{"al": "id", "e": col("id")}]
F = []
def add(dev, props, what, sc, codes, why):
    F.append({"dev": dev, "properties": props, "what": what, "signature": "pinned input: " + sc["sql"] + " on rows " + json.dumps(sc["rows"]), "pinned": sc, "codes": codes, "why_not_fixed": why})
WHY = "the three expression evaluators (expr package, expr-lang bridge, condition fast paths) share no NULL/operator semantics; repairing this needs a design decision by the maintainers, not a local patch"
add("NotOperatorRejectsAll", ["C06"], "WHERE NOT (x > 5) compiles but rejects every row (NOT is handed verbatim to expr-lang): x = 2 is not returned",
    scen(ID, {"t": "not", "a": cmp_(">", col("x"), num(5))}, [{"id": 1, "x": 2}, {"id": 2, "x": 9}]), ["emitsync_no_result_for_accepted_row", "sink_result_missing"], WHY)
add("NullNotEqualIsTrue", ["C06"], "x != 3 is true when x is NULL or missing (WHERE accepts the row, SELECT reports true): a NULL operand must make a comparison not true",
    scen(ID, cmp_("!=", col("x"), num(3)), [{"id": 1, "x": None}, {"id": 2}]), ["emitsync_result_for_rejected_row", "sink_result_for_rejected_row"], WHY)
add("NullEqualsNullIsTrue", ["C06"], "y = y (or y = o.f with both absent) is true when both operands are NULL: WHERE accepts the row",
    scen(ID, cmp_("=", col("y"), col("y")), [{"id": 1, "y": None}]), ["emitsync_result_for_rejected_row", "sink_result_for_rejected_row"], WHY)
add("NullComparisonPoisonsOr", ["C06"], "n > 1 OR x = 2 rejects the row when n is NULL although x = 2 is true: an ordering comparison with NULL aborts the evaluation of the whole predicate (left to right), instead of being not true",
    scen(ID, {"t": "or", "a": cmp_(">", col("n"), num(1)), "b": cmp_("=", col("x"), num(2))}, [{"id": 1, "x": 2, "n": None}]), ["emitsync_no_result_for_accepted_row", "sink_result_missing"], WHY)
add("CaseNullOperandPoisons", ["C06"], "CASE WHEN x <= 1 THEN 1 WHEN y > 0 THEN 2 ELSE 3 END is NULL when x is missing, instead of moving on to the next branch (2)",
    scen([{"al": "r", "e": {"t": "case", "whens": [{"c": cmp_("<=", col("x"), num(1)), "r": num(1)}, {"c": cmp_(">", col("y"), num(0)), "r": num(2)}], "else": num(3)}}], None, [{"id": 1, "y": 2}]), ["emitsync_wrong_value", "sink_wrong_value"], WHY)
add("CaseInsideExpressionIsNull", ["C06"], "a CASE that is not the whole select item (5 * CASE WHEN x > 1 THEN 2 ELSE 3 END, floor(CASE ...), nested CASE) evaluates to NULL",
    scen([{"al": "r", "e": bin_("*", num(5), {"t": "case", "whens": [{"c": cmp_(">", col("x"), num(1)), "r": num(2)}], "else": num(3)})}], None, [{"id": 1, "x": 2}]), ["emitsync_wrong_value", "sink_wrong_value"], WHY)
add("IsNullInSelectIsNull", ["C06", "C13"], "s IS NOT NULL (or IS NULL) as a select item evaluates to NULL instead of true/false",
    scen([{"al": "r", "e": {"t": "isnull", "a": col("s"), "neg": True}}], None, [{"id": 1, "s": "a"}]), ["emitsync_wrong_value", "sink_wrong_value"], WHY)
add("ParenthesisedBooleanSelectItemIsNull", ["C06"], "a boolean select item containing a parenthesised sub-predicate ((x = 5 OR 2 = 3) AND y < x) evaluates to NULL (the text is taken for a function call); x = 5 OR y < x works",
    scen([{"al": "r", "e": {"t": "and", "a": par({"t": "or", "a": cmp_("=", col("x"), num(5)), "b": cmp_("=", num(2), num(3))}), "b": cmp_("<", col("y"), col("x"))}}], None, [{"id": 1, "x": 5, "y": 1}]), ["emitsync_wrong_value", "sink_wrong_value"], WHY)
add("UnaryMinusWithDotIsNull", ["C06"], "-x + 2.5 (unary minus in an expression whose text contains a '.', i.e. a decimal literal or nested path) evaluates to NULL; -x + 1 works",
    scen([{"al": "r", "e": bin_("+", {"t": "neg", "a": col("x")}, num(5, 2))}], None, [{"id": 1, "x": 2}]), ["emitsync_wrong_value", "sink_wrong_value"], WHY)
add("NullPlusNumberIsString", ["C06"], "x + y + y with x an explicit NULL and y = 0.5 yields the string '0.50.5' (the + is taken for string concatenation) instead of NULL; with x missing the result is NULL as it should",
    scen([{"al": "r", "e": bin_("+", bin_("+", col("x"), col("y")), col("y"))}], None, [{"id": 1, "x": None, "y": {"$f": 0.5}}]), ["emitsync_wrong_value", "sink_wrong_value"], WHY)
add("LikeInSelectIsNull", ["C13"], "s LIKE 'a%' as a select item evaluates to NULL instead of true/false (WHERE and CASE conditions evaluate it correctly)",
    scen([{"al": "id", "e": col("id")}, {"al": "m", "e": {"t": "like", "a": col("s"), "pat": list("a%"), "neg": False}}], None, [{"id": 1, "s": "ab"}]), ["emitsync_wrong_value", "sink_wrong_value"], WHY)
add("NestedIsNullParentAbsent", ["C13"], "WHERE o.f IS NULL rejects a row in which the parent object o is absent (or NULL) although o.f is then absent; a CASE condition o.f IS NULL on the same row is true",
    scen(ID, {"t": "isnull", "a": {"t": "path", "p": ["o", "f"]}, "neg": False}, [{"id": 1}]), ["emitsync_no_result_for_accepted_row", "sink_result_missing"], WHY)
add("NumericLiteralSelectItemIsNull", ["C05"], "SELECT 3 AS r yields r = NULL (a bare numeric literal select item is looked up as a column); string literals work",
    scen([{"al": "r", "e": num(3)}, {"al": "id", "e": col("id")}], None, [{"id": 1}]), ["emitsync_wrong_value", "sink_wrong_value"], WHY)
kf = json.load(open(os.path.join(V, "KNOWN_FINDINGS.json")))
names = {f["dev"] for f in F}
kf["findings"] = [f for f in kf["findings"] if f["dev"] not in names] + F
json.dump(kf, open(os.path.join(V, "KNOWN_FINDINGS.json"), "w"), indent=1)
print(len(F), "pinned expression findings written")
