#!/usr/bin/env python3
"""Run every quick check repeatedly with different seeds on the unchanged tree (evidence goes to a scratch dir) and report
every run that does not exit 0: a check that alarms or is inconclusive on the unchanged tree is broken.
usage: soak.py <rounds> [first_seed] [ids...]"""
import json, os, subprocess, sys, time
V = os.path.dirname(os.path.dirname(os.path.abspath(__file__)))
rounds = int(sys.argv[1]) if len(sys.argv) > 1 else 3
first = int(sys.argv[2]) if len(sys.argv) > 2 else 100
ids = sys.argv[3:] or ["C%02d" % i for i in range(1, 21)]
ev = "/tmp/soak_ev"
os.makedirs(ev + "/replay", exist_ok=True)
bad = 0
for r in range(rounds):
    for pid in ids:
        env = dict(os.environ, VERIF_SEED=str(first + r), VERIF_EVIDENCE=ev)
        t = time.time()
        p = subprocess.run(["bin/check", pid, "quick"], cwd=V, env=env, stdout=subprocess.PIPE, stderr=subprocess.STDOUT, text=True)
        if p.returncode != 0:
            bad += 1
            f = "/tmp/soak_fail_%s_%d.out" % (pid, first + r)
            open(f, "w").write(p.stdout)
            import shutil
            shutil.copytree(os.path.join(ev, "replay", pid), "/tmp/soak_fail_%s_%d.replay" % (pid, first + r), dirs_exist_ok=True)
            print("FAIL %s seed=%d rc=%d %.0fs -> %s : %s" % (pid, first + r, p.returncode, time.time() - t, f,
                  [l for l in p.stdout.splitlines() if l.startswith(("VIOLATION", "INCONCLUSIVE"))][:2]), flush=True)
        else:
            print("ok   %s seed=%d %.0fs" % (pid, first + r, time.time() - t), flush=True)
print("soak done: %d failing runs" % bad)
