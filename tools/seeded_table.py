#!/usr/bin/env python3
"""Print the markdown table 'seeded change -> what it is -> which check catches it (clause)' from seeded/*/meta.json."""
import glob, json, os, re
V = os.path.dirname(os.path.dirname(os.path.abspath(__file__)))
print("| seeded change | files | what it breaks (short) | caught by | first violated clause |")
print("|---|---|---|---|---|")
for d in sorted(x for x in glob.glob(os.path.join(V, "seeded", "*")) if os.path.isdir(x)):
    m = json.load(open(os.path.join(d, "meta.json")))
    det = m.get("detection", {})
    first = det.get("first") or ""
    clause = re.search(r"\(([^()]*(?:\([^()]*\))?[^()]*)\)\s*$", first)
    c = clause.group(1) if clause else first
    c = re.sub(r" at trace line \d+( of scenario \d+)?", "", c)
    summ = (m.get("summary") or "").replace("|", "/").replace("\n", " ")
    summ = summ[:150] + ("..." if len(summ) > 150 else "")
    files = ", ".join(os.path.basename(f) for f in (m.get("files") or []))
    print("| %s | %s | %s | %s quick (exit %s) | %s |" % (os.path.basename(d), files, summ, m["property"], det.get("exit"), c.replace("|", "/")))
