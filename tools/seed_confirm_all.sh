#!/bin/bash
# usage: confirm_all.sh A|B  -- confirm every finished, not yet confirmed change, 4 at a time
X=$1
ls -d /tmp/mutout6/C*/$X | while read d; do
  [ -f $d/meta.json ] && [ -f $d/patch.diff ] && [ ! -f $d/confirm.json ] && echo $d
done | xargs -P 4 -I{} sh -c 'CONFIRM_WT=/tmp/mutconfirm_wt_$(basename $(dirname {}))$(basename {}) python3 /verif/tools/confirm_mut.py {} 2>&1 | tail -1'
