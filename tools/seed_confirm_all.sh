#!/bin/bash
# usage: seed_confirm_all.sh <round> A|B  -- confirm every finished, not yet confirmed change of /tmp/mutout<round>, 4 at a time (tools/confirm_mut.py)
N=$1; X=$2
ls -d /tmp/mutout$N/C*/$X | while read d; do
  [ -f $d/meta.json ] && [ -f $d/patch.diff ] && [ ! -f $d/confirm.json ] && echo $d
done | xargs -P 4 -I{} sh -c 'CONFIRM_WT=/tmp/mutconfirm_wt_$(basename $(dirname {}))$(basename {}) python3 /verif/tools/confirm_mut.py {} 2>&1 | tail -1'
