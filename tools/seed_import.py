#!/usr/bin/env python3
"""Import confirmed seeded changes (tools/confirm_mut.py) into /verif/seeded/<id>-<X>/ and record which check catches them.
Each change is applied to a scratch worktree of /repo HEAD (never to /repo), the property's quick check runs against it
(VERIF_REPO / VERIF_EVIDENCE), and the outcome goes into meta.json.  usage: seed_import.py <mutdir>..."""
import json, os, re, shutil, subprocess, sys
WT = "/tmp/seedimport_wt"
EV = "/tmp/seedimport_ev"
V = "/verif"

def sh(cmd, cwd="/", env=None, timeout=3000):
    p = subprocess.run(cmd, shell=True, cwd=cwd, env=env, stdout=subprocess.PIPE, stderr=subprocess.STDOUT, text=True, timeout=timeout)
    return p.returncode, p.stdout

DETECT_ONLY = "--detect-only" in sys.argv
if DETECT_ONLY:
    sys.argv.remove("--detect-only")
    WT, EV = "/tmp/mutdetect_wt" + os.environ.get("MD_SUFFIX", ""), "/tmp/mutdetect_ev" + os.environ.get("MD_SUFFIX", "")


def main():
    sh("git -C /repo worktree remove --force " + WT)
    rc, o = sh("git -C /repo worktree add -q --detach %s HEAD" % WT)
    assert rc == 0, o
    head = sh("git rev-parse --short HEAD", WT)[1].strip()
    try:
        for d in sys.argv[1:]:
            d = d.rstrip("/")
            meta = json.load(open(os.path.join(d, "meta.json")))
            conf = json.load(open(os.path.join(d, "confirm.json"))) if os.path.exists(os.path.join(d, "confirm.json")) else {}
            pid = meta["property"]
            name = "%s-%s" % (pid, os.path.basename(d)) + ((re.search(r"mutout(\d+)", d) or [None, ""])[1])
            pf = os.path.join(d, "patch_ported.diff") if os.path.exists(os.path.join(d, "patch_ported.diff")) else os.path.join(d, "patch.diff")
            sh("git checkout -q -- . && git clean -fdq", WT)
            rc, o = sh("git apply " + pf, WT)
            if rc != 0:
                print(name, "PATCH DOES NOT APPLY at", head, o[-300:]); continue
            shutil.rmtree(EV, ignore_errors=True); os.makedirs(EV)
            env = dict(os.environ, VERIF_REPO=WT, VERIF_EVIDENCE=EV, VERIF_SEED="1")
            # a change that is caught by ANOTHER property's check (the seeded behaviour falls under both): detect_with names it
            chk = open(os.path.join(d, "detect_with")).read().strip() if os.path.exists(os.path.join(d, "detect_with")) else pid
            rc, out = sh("bin/check %s quick" % chk, V, env)
            sh("git checkout -q -- . && git clean -fdq", WT)
            viol = [l for l in out.splitlines() if l.startswith("VIOLATION")]
            if DETECT_ONLY:
                print(name, "exit=%d" % rc, (viol[0][:200] if viol else out.strip().splitlines()[-1][:200] if out.strip() else ""), flush=True)
                continue
            dst = os.path.join(V, "seeded", name)
            os.makedirs(dst, exist_ok=True)
            shutil.copy(os.path.join(d, "patch.diff"), os.path.join(dst, "patch_original.diff" if pf.endswith("ported.diff") else "patch.diff"))
            if pf.endswith("ported.diff"):
                shutil.copy(pf, os.path.join(dst, "patch.diff"))
            for f in os.listdir(d):
                if f.startswith("demo"):
                    shutil.copy(os.path.join(d, f), dst)
            m = {"property": pid, "summary": meta.get("summary"), "needs": meta.get("needs"), "files": meta.get("files"),
                 "demo_cmd": meta.get("demo_cmd"),
                 "origin": "written by an independent sub-agent that was given only the property text and a scratch worktree",
                 "ported": pf.endswith("ported.diff") and "the agent's patch (patch_original.diff) no longer applied after a repair of /repo; patch.diff is the same change on the repaired code",
                 "confirmed": {"what_i_ran": "tools/confirm_mut.py in a scratch worktree: demo passes on the clean tree, patch applies and builds, demo fails with the patch, full unedited suite (go test -vet=off -count=1 ./...) passes with the patch",
                               "at_repo_commit": conf.get("repo_head"), "result": {k: v for k, v in conf.items() if isinstance(v, bool)}},
                 "detection": {"at_repo_commit": head, "command": "bin/check %s quick (VERIF_SEED=1) against a scratch worktree with patch.diff applied" % chk,
                               "exit": rc, "violations": len(viol),
                               "first": re.sub(r"replay=\S+\s*", "", viol[0])[:300] if viol else None}}
            json.dump(m, open(os.path.join(dst, "meta.json"), "w"), indent=1)
            print(name, "exit=%d" % rc, (viol[0][:160] if viol else out.strip().splitlines()[-1][:160] if out.strip() else ""), flush=True)
    finally:
        sh("git -C /repo worktree remove --force " + WT)
        shutil.rmtree(EV, ignore_errors=True)

main()
