#!/usr/bin/env python3
"""Summarise evidence/replay/<id>/violation_*.json: codes and one example each. usage: triage.py <id> [n]"""
import glob, json, re, sys
pid = sys.argv[1]
seen = {}
for f in sorted(glob.glob('/verif/evidence/replay/%s/violation_*.json' % pid)):
    v = json.load(open(f))
    code = re.sub(r'_(a|r)\d+$', '', v['what'].split()[0])
    seen.setdefault(code, []).append(v)
for code, vs in seen.items():
    print("==", code, len(vs))
    for v in vs[:int(sys.argv[2]) if len(sys.argv) > 2 else 2]:
        r = v['replay']
        print("   ", v['what'].split('(')[0], '|', r.get('sql'), '|', r.get('mode', 'emit'), '|', json.dumps(r.get('rows'))[:400])
