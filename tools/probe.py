#!/usr/bin/env python3
"""probe.py <sql> <rows-json> [sync]: run one query on the real engine via the driver and print inputs/outputs compactly."""
import json, os, subprocess, sys, tempfile
sys.path.insert(0, os.path.join(os.path.dirname(os.path.abspath(__file__)), "..", "lib"))
import vlib
def sv(v):
    k = v.get('k')
    if k == 'null': return None
    if k == 'list': return [sv(x) for x in v['v']]
    if k == 'map': return {a: sv(b) for a, b in v['v'].items()}
    if k == 'num': return v['v'] / 10000
    return v.get('v', k)
sql, rows = sys.argv[1], json.loads(sys.argv[2])
sc = {"tr": 1, "meta": {}, "sql": sql, "rows": rows}
if len(sys.argv) > 3: sc["mode"] = sys.argv[3]
vh = os.environ.get("VH") or vlib.build_vh()
d = tempfile.mkdtemp()
open(d + "/s", "w").write(json.dumps(sc) + "\n")
print(subprocess.run([vh, "seq", "-scen", d + "/s", "-out", d + "/t"], capture_output=True, text=True).stdout.strip())
for l in open(d + "/t"):
    e = json.loads(l)
    if e['e'] == 'in': print(" in ", e['i'], {k: sv(v) for k, v in e['row'].items()})
    elif e['e'] in ('out', 'chan'): print(" " + e['e'], [{k: sv(v) for k, v in r.items()} for r in e['rows']])
    elif e['e'] == 'ret': print(" ret", e['i'], 'err' if e['err'] else '', {k: sv(v) for k, v in e['row'].items()} if e['has'] else None)
    elif e['e'] not in ('reset', 'quiesce'): print(" ", e)
