"""Shared machinery for the /verif checks: scratch dirs, driver build, TLC runs,
trace validation, known-finding protocol, evidence writing.  Python stdlib only."""
import atexit, json, os, re, shutil, subprocess, sys, tempfile, time

VERIF = os.path.dirname(os.path.dirname(os.path.abspath(__file__)))
REPO = os.environ.get("VERIF_REPO", "/repo")
GOENV = dict(os.environ, GOFLAGS="-mod=mod", GOPROXY="off", GOSUMDB="off", GOTOOLCHAIN="local")
_scratch = None


class Inconclusive(Exception):
    pass


def scratch():
    global _scratch
    if _scratch is None:
        _scratch = tempfile.mkdtemp(prefix="verif-", dir=os.environ.get("VERIF_TMP", "/tmp"))
        atexit.register(lambda: shutil.rmtree(_scratch, ignore_errors=True))
    return _scratch


def seed():
    try:
        return int(os.environ.get("VERIF_SEED", "1"))
    except ValueError:
        return 1


def sh(cmd, timeout, env=None, cwd=None, inp=None):
    try:
        p = subprocess.run(cmd, stdout=subprocess.PIPE, stderr=subprocess.STDOUT, timeout=timeout,
                           env=env, cwd=cwd, input=inp, text=True)
        return p.returncode, p.stdout
    except subprocess.TimeoutExpired as e:
        out = e.stdout if isinstance(e.stdout, str) else (e.stdout or b"").decode("utf8", "replace")
        raise Inconclusive("timeout after %ss: %s\n%s" % (timeout, " ".join(cmd)[:200], out[-2000:]))


def build_vh(race=False):
    """Build the conformance driver against /repo's CURRENT working tree with hooks on."""
    race = race or bool(os.environ.get("VERIF_RACE"))
    sc = scratch()
    # harness module copy so that go.sum/go.mod edits never touch /verif
    hdir = os.path.join(sc, "harness")
    if not os.path.isdir(hdir):
        shutil.copytree(os.path.join(VERIF, "harness"), hdir)
        shutil.copy(os.path.join(REPO, "go.sum"), os.path.join(hdir, "go.sum"))
        gm = open(os.path.join(hdir, "go.mod")).read().replace("=> /repo", "=> " + REPO)
        open(os.path.join(hdir, "go.mod"), "w").write(gm)
    out = os.path.join(sc, "vh-race" if race else "vh")
    if os.path.exists(out):
        return out
    cmd = ["go", "build", "-tags", "verif"] + (["-race"] if race else []) + ["-o", out, "./cmd/vh"]
    rc, o = sh(cmd, 600, env=GOENV, cwd=hdir)
    if rc != 0:
        raise Inconclusive("driver build failed (does /repo still compile with -tags verif?):\n" + o[-3000:])
    return out


_tlc_n = 0
import threading
_tlc_lock = threading.Lock()


def tlc(spec_dir, module, cfg_text, env=None, workers=8, timeout=600, extra=None, files=None):
    """Run TLC on spec_dir/module.tla with the given cfg text in a private scratch copy."""
    global _tlc_n
    with _tlc_lock:
        _tlc_n += 1
        d = os.path.join(scratch(), "tlc%d" % _tlc_n)
    os.makedirs(d)
    for root in [os.path.join(VERIF, "spec", "lib"), spec_dir]:
        for f in os.listdir(root):
            if f.endswith(".tla"):
                shutil.copy(os.path.join(root, f), d)
    open(os.path.join(d, module + ".cfg"), "w").write(cfg_text)
    e = dict(os.environ)
    e.update(env or {})
    # the JVM's own temporary directories (tlc-*) go into the scratch directory of this run, which is removed at exit
    e["JAVA_TOOL_OPTIONS"] = (e.get("JAVA_TOOL_OPTIONS", "") + " -Djava.io.tmpdir=" + d).strip()
    cmd = ["tlc", "-workers", str(workers), "-metadir", os.path.join(d, "meta"), "-config", module + ".cfg"] + (extra or []) + [module + ".tla"]
    t0 = time.time()
    rc, out = sh(cmd, timeout, env=e, cwd=d)
    r = {"rc": rc, "out": out, "wall": time.time() - t0, "dir": d, "generated": 0, "distinct": 0}
    m = re.search(r"(\d+) states generated, (\d+) distinct states found", out)
    if m:
        r["generated"], r["distinct"] = int(m.group(1)), int(m.group(2))
    r["ok"] = "Model checking completed. No error has been found." in out or (extra and "-simulate" in extra and rc == 0)
    mv = re.search(r"Invariant (\w+) is violated|Action property (\w+) is violated|Temporal properties were violated", out)
    r["violated"] = (mv.group(1) or mv.group(2) or "temporal") if mv else None
    if not r["ok"] and not r["violated"]:
        if "Error:" in out or rc != 0:
            r["error"] = out[-3000:]
    shutil.rmtree(os.path.join(d, "meta"), ignore_errors=True)
    return r


def race_reports(out):
    """Go race detector reports in a driver's output: [(top frames of the two accesses, concerns engine code?, text)]"""
    res = []
    for b in re.split(r"={18}\n", out):
        if "WARNING: DATA RACE" not in b:
            continue
        tops = re.findall(r"(?:Read|Write|Previous read|Previous write) at [^\n]*\n\s+([^\n]+)\n", b)
        eng = any("github.com/rulego/streamsql" in t and "/verifhook." not in t for t in tops)
        res.append((tops, eng, b[:4000]))
    return res


def prints(out, tag):
    """Extract PrintT(<<tag, ...>>) tuples from TLC output as python lists. TLC pretty-prints a tuple that does not fit on one
    line over several lines (one element per line): both layouts are read."""
    res = []
    lines = out.splitlines()
    i = 0
    head = '<<"%s"' % tag
    head2 = '<< "%s"' % tag
    while i < len(lines):
        line = lines[i].strip()
        if line.startswith(head) and line.endswith(">>"):
            body = line[2:-2]
        elif line.startswith(head2):
            parts = [line[2:].strip()]
            while not parts[-1].endswith(">>") and i + 1 < len(lines):
                i += 1
                parts.append(lines[i].strip())
            body = " ".join(parts)
            body = body[:-2] if body.endswith(">>") else body
        else:
            i += 1
            continue
        try:
            res.append(json.loads("[" + body + "]"))
        except Exception:
            pass
        i += 1
    return res


def validate(spec_dir, module, trace_file, dev, timeout=900, constants=""):
    """Validate an ndjson trace file with a total trace monitor. Returns rejects, devs."""
    n = sum(1 for _ in open(trace_file))
    if n == 0:
        return [], [], 0
    devset = "{" + ",".join('"%s"' % d for d in sorted(dev)) + "}"
    cfg = "SPECIFICATION Spec\nCONSTANT Dev = %s\n%s\nPOSTCONDITION AllConsumed\nCHECK_DEADLOCK FALSE\n" % (devset, constants)
    r = tlc(spec_dir, module, cfg, env={"TRACE_FILE": trace_file}, workers=1, timeout=timeout)
    if not r["ok"]:
        i = r["out"].find("Error:")
        raise Inconclusive("trace validation did not complete (%s):\n%s\n...\n%s" % (module, r["out"][max(i, 0):max(i, 0) + 1500], r["out"][-1500:]))
    rej = [(x[1], x[2], x[3]) for x in prints(r["out"], "REJECT")]
    dv = [(x[1], x[2], x[3]) for x in prints(r["out"], "DEV")]
    return rej, dv, n


def known_findings():
    p = os.path.join(VERIF, "KNOWN_FINDINGS.json")
    if not os.path.exists(p):
        return {"findings": [], "fixed": []}
    return json.load(open(p))


def known_devs(prop):
    return {f["dev"]: f for f in known_findings()["findings"] if prop in f["properties"]}


class Result:
    def __init__(self, prop, tier, level="model_checking"):
        self.prop, self.tier, self.level = prop, tier, level
        self.t0 = time.time()
        self.cov = {"states": 0, "transitions": 0, "traces_validated_against_impl": 0, "samples": [],
                    "evaluations": 0, "distinct_nontrivial": 0, "rule": "", "exhaustive": False, "models": []}
        self.assumptions = []
        self.violations = []   # (what, replay_obj)
        self.known = {}        # dev -> count
        self.notes = []

    def add_model(self, name, r, constants):
        self.cov["states"] += r["distinct"]
        self.cov["transitions"] += r["generated"]
        self.cov["models"].append({"model": name, "constants": constants, "distinct_states": r["distinct"],
                                   "states_generated": r["generated"], "wall_s": round(r["wall"], 1),
                                   "result": "ok" if r["ok"] else ("violated:%s" % r["violated"])})

    def violation(self, what, replay):
        self.violations.append((what, replay))

    def finish(self):
        EVD = os.environ.get("VERIF_EVIDENCE", os.path.join(VERIF, "evidence"))   # overridden only by tools that run the checks against a scratch tree
        rdir = os.path.join(EVD, "replay", self.prop)
        os.makedirs(rdir, exist_ok=True)
        for f in os.listdir(rdir):
            if f.startswith("violation_"):
                os.remove(os.path.join(rdir, f))
        kf = known_devs(self.prop)
        for dev, n in sorted(self.known.items()):
            print("KNOWN-FINDING: property=%s %s [%s; seen in %d traces this run]" % (self.prop, kf[dev]["what"], dev, n))
        for dev, fd in sorted(kf.items()):
            # schedule-dependent findings (admitted by a narrowly guarded alternative of the monitor) that did not occur in this run
            if dev not in self.known and not fd.get("pinned"):
                print("KNOWN-FINDING: property=%s %s [%s; listed, schedule-dependent, not observed in this run]" % (self.prop, fd["what"], dev))
        rc = 0
        for i, (what, replay) in enumerate(self.violations[:20]):
            path = os.path.join(EVD, "replay", self.prop, "violation_%d.json" % i)
            json.dump({"property": self.prop, "what": what, "replay": replay}, open(path, "w"), indent=1)
            print("VIOLATION property=%s replay=%s  (%s)" % (self.prop, path, what))
            rc = 1
        ev = {"property_id": self.prop, "tier": self.tier, "seed": seed(), "level": self.level,
              "coverage": self.cov, "assumptions": self.assumptions, "wall_s": round(time.time() - self.t0, 1),
              "violations": len(self.violations), "known_findings_seen": self.known, "notes": self.notes}
        json.dump(ev, open(os.path.join(EVD, self.prop + ".json"), "w"), indent=1)
        print("%s %s: %s  states=%d transitions=%d traces=%d wall=%.1fs" % (
            self.prop, self.tier, "VIOLATED" if rc else "held", self.cov["states"], self.cov["transitions"],
            self.cov["traces_validated_against_impl"], time.time() - self.t0))
        return rc


def main(run):
    """Entry: run(tier) -> exit code; Inconclusive -> exit 2."""
    tier = os.environ.get("VERIF_TIER") or (sys.argv[1] if len(sys.argv) > 1 else "quick")
    try:
        sys.exit(run(tier))
    except Inconclusive as e:
        print("INCONCLUSIVE: %s" % e, file=sys.stderr)
        sys.exit(2)
