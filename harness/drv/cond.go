package drv

import (
	"sync"
	"sync/atomic"

	"github.com/rulego/streamsql"
	"github.com/rulego/streamsql/condition"
)

// CondScenario compares the predicate shortcuts with the general engine (C12).
type CondScenario struct {
	Tr      int              `json:"tr"`
	Meta    map[string]any   `json:"meta"`
	Flat    string           `json:"flat"`    // shortcut-eligible text (expr-lang form: && || ==)
	General string           `json:"general"` // parenthesised equivalent the shape recogniser rejects
	SQL     string           `json:"sql"`     // optional: SELECT ... WHERE <flat in SQL form>, decided through EmitSync
	Alt     []string         `json:"alt"`     // other spellings of the same predicate (e.g. literal OP column): must decide like the general engine
	Conc    int              `json:"conc"`    // > 0: afterwards this many goroutines evaluate both compiled predicates on all rows at the same time
	Rows    []map[string]any `json:"rows"`
}

func evalCond(c condition.Condition, row map[string]any) (res bool, pan int) {
	defer func() {
		if r := recover(); r != nil {
			pan = 1
		}
	}()
	return c.Evaluate(row), 0
}

// RunCond evaluates both texts on every row.
func RunCond(sc CondScenario) []Ev {
	evs := []Ev{}
	reset := Ev{"tr": sc.Tr, "e": "reset"}
	for k, v := range sc.Meta {
		reset[k] = v
	}
	evs = append(evs, reset)
	fc, ferr := condition.NewExprCondition(sc.Flat)
	gc, gerr := condition.NewExprCondition(sc.General)
	var s *streamsql.Streamsql
	if sc.SQL != "" {
		s = newInstance()
		if err := s.Execute(sc.SQL); err != nil {
			s = nil
		} else {
			defer s.Stop()
		}
	}
	alt := make([]condition.Condition, len(sc.Alt))
	for i, a := range sc.Alt {
		if c, err := condition.NewExprCondition(a); err == nil {
			alt[i] = c
		}
	}
	var seqGen, seqFast []int
	for i, r := range sc.Rows {
		row := decodeRow(r)
		e := Ev{"tr": sc.Tr, "e": "dec", "i": i + 1, "cf": b2i(ferr != nil), "cg": b2i(gerr != nil), "fast": 0, "gen": 0, "pf": 0, "pg": 0, "q": -1}
		if ferr == nil {
			b, p := evalCond(fc, row)
			e["fast"], e["pf"] = b2i(b), p
		}
		if gerr == nil {
			b, p := evalCond(gc, row)
			e["gen"], e["pg"] = b2i(b), p
		}
		if s != nil {
			res, err, pan := callSync(s, decodeRow(r))
			if pan == 1 {
				e["pf"] = 1
			} else if err == nil {
				e["q"] = b2i(res != nil)
			}
		}
		alts := []int{}
		for _, a := range alt {
			if a == nil {
				alts = append(alts, -1)
				continue
			}
			b, p := evalCond(a, row)
			if p == 1 {
				alts = append(alts, 2)
			} else {
				alts = append(alts, b2i(b))
			}
		}
		e["alt"] = alts
		seqGen = append(seqGen, e["gen"].(int))
		seqFast = append(seqFast, e["fast"].(int))
		evs = append(evs, e)
	}
	if sc.Conc > 0 && ferr == nil && gerr == nil {
		// the same compiled predicates evaluated by several goroutines at once: every decision equals the sequential one
		var bad, pans int64
		var wg sync.WaitGroup
		rows := make([]map[string]any, len(sc.Rows))
		for i, r := range sc.Rows {
			rows[i] = decodeRow(r)
		}
		for g := 0; g < sc.Conc; g++ {
			wg.Add(1)
			go func() {
				defer wg.Done()
				for rep := 0; rep < 200; rep++ {
					for i, row := range rows {
						b, p := evalCond(gc, row)
						if p == 1 {
							atomic.AddInt64(&pans, 1)
						} else if b2i(b) != seqGen[i] {
							atomic.AddInt64(&bad, 1)
						}
						b, p = evalCond(fc, row)
						if p == 1 {
							atomic.AddInt64(&pans, 1)
						} else if b2i(b) != seqFast[i] {
							atomic.AddInt64(&bad, 1)
						}
					}
				}
			}()
		}
		wg.Wait()
		evs = append(evs, Ev{"tr": sc.Tr, "e": "conc", "bad": bad, "panics": pans})
	}
	return evs
}
