package drv

import (
	"github.com/rulego/streamsql"
	"github.com/rulego/streamsql/condition"
)

// CondScenario compares the predicate shortcuts with the general engine (C12).
type CondScenario struct {
	Tr      int              `json:"tr"`
	Meta    map[string]any   `json:"meta"`
	Flat    string           `json:"flat"`    // shortcut-eligible text (expr-lang form: && || ==)
	General string           `json:"general"` // parenthesised equivalent the shape recogniser rejects
	SQL     string           `json:"sql"`     // optional: SELECT ... WHERE <flat in SQL form>, decided through EmitSync
	Rows    []map[string]any `json:"rows"`
}

func evalCond(c condition.Condition, row map[string]any) (res bool, pan int) {
	defer func() {
		if r := recover(); r != nil {
			pan = 1
		}
	}()
	return c.Evaluate(row), 0
}

// RunCond evaluates both texts on every row.
func RunCond(sc CondScenario) []Ev {
	evs := []Ev{}
	reset := Ev{"tr": sc.Tr, "e": "reset"}
	for k, v := range sc.Meta {
		reset[k] = v
	}
	evs = append(evs, reset)
	fc, ferr := condition.NewExprCondition(sc.Flat)
	gc, gerr := condition.NewExprCondition(sc.General)
	var s *streamsql.Streamsql
	if sc.SQL != "" {
		s = newInstance()
		if err := s.Execute(sc.SQL); err != nil {
			s = nil
		} else {
			defer s.Stop()
		}
	}
	for i, r := range sc.Rows {
		row := decodeRow(r)
		e := Ev{"tr": sc.Tr, "e": "dec", "i": i + 1, "cf": b2i(ferr != nil), "cg": b2i(gerr != nil), "fast": 0, "gen": 0, "pf": 0, "pg": 0, "q": -1}
		if ferr == nil {
			b, p := evalCond(fc, row)
			e["fast"], e["pf"] = b2i(b), p
		}
		if gerr == nil {
			b, p := evalCond(gc, row)
			e["gen"], e["pg"] = b2i(b), p
		}
		if s != nil {
			res, err, pan := callSync(s, decodeRow(r))
			if pan == 1 {
				e["pf"] = 1
			} else if err == nil {
				e["q"] = b2i(res != nil)
			}
		}
		evs = append(evs, e)
	}
	return evs
}
