package drv

import (
	"math/rand"
	"sync"
	"sync/atomic"
	"time"

	"github.com/rulego/streamsql"
	"github.com/rulego/streamsql/types"
)

// IngestScenario exercises the input path (C19): concurrent producers, an overflow strategy and a small buffer.
type IngestScenario struct {
	Tr        int    `json:"tr"`
	Strategy  string `json:"strategy"` // drop | block | expand
	Data      int    `json:"data"`
	Max       int    `json:"max"`
	MinInc    int    `json:"mininc"`
	Producers int    `json:"producers"`
	Rows      int    `json:"rows"`     // rows per producer
	SlowSink  int    `json:"slowsink"` // microseconds per result in the sink
	Seed      int64  `json:"seed"`
	Perturb   bool   `json:"perturb"` // seeded yields/sleeps at hook points
	// Directed schedule (TLC counterexample family): the consumer holds the OLD channel reference while the
	// expander migrates; after Kmig migrated items the consumer receives one row from the old channel.
	Directed bool `json:"directed"`
	Kmig     int  `json:"kmig"`
	// Second directed family: a row is added by another producer between the expander's usage sample and its write lock.
	SampleRace bool `json:"samplerace"`
	// Third directed family: the consumer is busy inside the sink (it holds no buffer reference) while ONE producer fills and
	// expands the buffer several times; afterwards every row is processed in emission order (no admitted deviation here).
	Stalled bool `json:"stalled"`
	StallMs int  `json:"stall_ms"` // free-running: the sink sleeps this long on its FIRST result (a consumer stuck for seconds while producers wait)
	// every Empties-th row of a producer is handed in as an empty or nil map (a row without attributes is a row:
	// it is processed and reported like any other, or counted as dropped)
	Empties int `json:"empties"`
	// Fourth directed family: the consumer is held in the sink until ONE producer has filled the buffer, then let go while the
	// producer goes on: the buffer is expanded (its rows migrated) while the consumer is draining it.
	DrainRace bool `json:"drainrace"`
	// ExpansionConfig.ExpansionTimeout in nanoseconds (0 = leave the default): a configuration value like the others; whatever it
	// is, every buffered row is processed or counted as dropped
	ExpTimeoutNs int64 `json:"exptimeout_ns"`
}

// RunIngest runs one ingest scenario and returns its trace.
func RunIngest(sc IngestScenario) (evs []Ev, inconclusive string) {
	var gates []string
	if sc.Directed {
		gates = []string{"proc.ref", "exp.item", "exp.swap"}
	}
	if sc.SampleRace {
		gates = []string{"proc.ref", "exp.enter", "exp.sampled"}
	}
	in := NewInst(gates...)
	defer in.Close()
	rng := rand.New(rand.NewSource(sc.Seed))
	var rmu sync.Mutex
	pc := types.DefaultPerformanceConfig()
	pc.OverflowConfig.Strategy = sc.Strategy
	pc.BufferConfig.DataChannelSize = sc.Data
	if sc.Max > 0 {
		pc.BufferConfig.MaxBufferSize = sc.Max
	}
	if sc.MinInc > 0 {
		pc.OverflowConfig.ExpansionConfig.MinIncrement = sc.MinInc
	}
	pc.OverflowConfig.ExpansionConfig.GrowthFactor = 1.5
	if sc.ExpTimeoutNs > 0 {
		pc.OverflowConfig.ExpansionConfig.ExpansionTimeout = time.Duration(sc.ExpTimeoutNs)
	}
	pc.OverflowConfig.BlockTimeout = 0
	s := newInstance(streamsql.WithCustomPerformance(pc), streamsql.WithDiscardLog())
	if err := s.Execute("SELECT id, p FROM stream"); err != nil {
		return nil, "execute: " + err.Error()
	}
	stopped := false
	defer func() {
		if !stopped {
			s.Stop()
		}
	}()
	in.Log(Ev{"tr": sc.Tr, "e": "reset", "strategy": sc.Strategy, "data": sc.Data, "max": pc.BufferConfig.MaxBufferSize, "producers": sc.Producers, "rows": sc.Rows, "directed": b2i(sc.Directed || sc.SampleRace), "strict": b2i(sc.Stalled), "empties": sc.Empties})
	perturb := func() {
		if !sc.Perturb {
			return
		}
		rmu.Lock()
		k := rng.Intn(10)
		rmu.Unlock()
		switch {
		case k < 5:
		case k < 8:
			time.Sleep(time.Duration(k) * time.Microsecond)
		default:
			time.Sleep(50 * time.Microsecond)
		}
	}
	if sc.Perturb {
		in.Perturb = func(string) { perturb() }
	}
	in.OnHook = func(point string, a, b, c int64) Ev {
		if point == "exp.swap" {
			return Ev{"tr": sc.Tr, "e": "swap", "cap": a, "migrated": b}
		}
		return nil
	}
	in.Bind(s.Stream()) // after OnHook / Perturb are set: engine goroutines may reach a hook point at once
	var emptyIn, emptyOut int64
	sinkGate := make(chan struct{})
	var firstSink sync.Once
	sinkParked := make(chan struct{}, 1)
	s.AddSyncSink(func(rs []map[string]any) {
		if sc.SampleRace || sc.Stalled || sc.DrainRace { // the consumer is BUSY in the sink while the buffer is expanded: it does not hold the old reference
			firstSink.Do(func() {
				sinkParked <- struct{}{}
				<-sinkGate
			})
		}
		if sc.StallMs > 0 {
			firstSink.Do(func() { time.Sleep(time.Duration(sc.StallMs) * time.Millisecond) })
		}
		if sc.SlowSink > 0 {
			time.Sleep(time.Duration(sc.SlowSink) * time.Microsecond)
		}
		for _, r := range rs {
			if r["id"] == nil && r["p"] == nil { // the result of an attribute-less row: "producer" 0, numbered in arrival order
				in.Log(Ev{"tr": sc.Tr, "e": "proc", "p": 0, "i": atomic.AddInt64(&emptyOut, 1)})
				continue
			}
			id, _ := toI64(r["id"])
			p, _ := toI64(r["p"])
			in.Log(Ev{"tr": sc.Tr, "e": "proc", "p": p, "i": id})
		}
	})
	emit := func(p, i int) {
		if sc.Empties > 0 && i%sc.Empties == 0 {
			k := atomic.AddInt64(&emptyIn, 1)
			in.Log(Ev{"tr": sc.Tr, "e": "emit", "p": 0, "i": k})
			if k%2 == 0 {
				s.Emit(nil)
			} else {
				s.Emit(map[string]any{})
			}
			return
		}
		in.Log(Ev{"tr": sc.Tr, "e": "emit", "p": p, "i": i})
		s.Emit(map[string]any{"id": i, "p": p})
	}
	const T = 10 * time.Second
	if sc.DrainRace {
		emit(1, 1)
		select {
		case <-sinkParked:
		case <-time.After(T):
			return in.Events(), "consumer did not take the first row"
		}
		for i := 2; i <= sc.Data+1; i++ { // fill the buffer exactly: no expansion yet
			emit(1, i)
		}
		close(sinkGate) // the consumer starts draining the full buffer ...
		for i := sc.Data + 2; i <= sc.Rows; i++ { // ... while the producer's next rows expand it
			emit(1, i)
		}
	} else if sc.Stalled {
		emit(1, 1)
		select {
		case <-sinkParked: // the consumer sits in the sink with row 1: it is not receiving and holds no buffer reference
		case <-time.After(T):
			return in.Events(), "consumer did not take the first row"
		}
		for i := 2; i <= sc.Rows; i++ {
			emit(1, i)
		}
		close(sinkGate)
	} else if sc.SampleRace {
		if !in.WaitFor(T, func() bool { return in.NWaiting("proc.ref") > 0 }) {
			return in.Events(), "consumer did not reach proc.ref"
		}
		for i := 1; i <= sc.Data; i++ { // fill the buffer
			emit(1, i)
		}
		done := make(chan struct{})
		go func() { emit(1, sc.Data+1); close(done) }() // finds the buffer full -> expandDataChannel
		if !in.WaitFor(T, func() bool { return in.NWaiting("exp.enter") > 0 }) {
			return in.Events(), "expansion did not start (schedule not reproducible on this tree)"
		}
		in.Release("proc.ref") // consumer takes one row (usage drops below full but stays above the threshold) and parks inside the sink
		select {
		case <-sinkParked:
		case <-time.After(T):
			return in.Events(), "consumer did not take a row"
		}
		in.Release("exp.enter") // expander samples cap/len now
		if !in.WaitFor(T, func() bool { return in.NWaiting("exp.sampled") > 0 }) {
			return in.Events(), "expander did not sample"
		}
		emit(2, 1) // second producer fills the freed slot before the expander takes the write lock
		in.Disarm()
		select { // expansion (lock, migrate, swap) and the producer's retry complete while the consumer is still busy
		case <-done:
		case <-time.After(T):
			close(sinkGate)
			return in.Events(), "producer stuck"
		}
		close(sinkGate) // the consumer comes back and reads the (new) reference
	} else if sc.Directed {
		// consumer is parked at proc.ref holding the reference of the initial channel
		if !in.WaitFor(T, func() bool { return in.NWaiting("proc.ref") > 0 }) {
			return in.Events(), "consumer did not reach proc.ref"
		}
		done := make(chan struct{})
		go func() { // producer: fills the channel, the next Emit expands
			for i := 1; i <= sc.Rows; i++ {
				emit(1, i)
			}
			close(done)
		}()
		// expander migrates Kmig items, then waits at the gate
		ok := in.WaitFor(T, func() bool { return in.arrived["exp.item"] >= 1 || in.NWaiting("exp.swap") > 0 })
		if !ok {
			return in.Events(), "expansion did not start (schedule not reproducible on this tree)"
		}
		for k := 1; k < sc.Kmig; k++ {
			in.Release("exp.item")
			kk := int64(k + 1)
			if !in.WaitFor(T, func() bool { return in.arrived["exp.item"] >= kk || in.NWaiting("exp.swap") > 0 }) {
				return in.Events(), "migration stalled"
			}
		}
		// now let the consumer receive ONE row from the old channel it still references
		base := in.Count("proc.item")
		in.Release("proc.ref")
		in.WaitFor(2*time.Second, func() bool { return in.C("proc.item") > base })
		in.Disarm() // let everything finish
		select {
		case <-done:
		case <-time.After(T):
			return in.Events(), "producer stuck"
		}
	} else {
		var wg sync.WaitGroup
		for p := 1; p <= sc.Producers; p++ {
			wg.Add(1)
			go func(p int) {
				defer wg.Done()
				for i := 1; i <= sc.Rows; i++ {
					emit(p, i)
					perturb()
				}
			}(p)
		}
		wg.Wait()
	}
	// quiescence: every row processed or counted as dropped, buffer empty
	total := int64(sc.Producers * sc.Rows)
	if sc.Directed {
		total = int64(sc.Rows)
	}
	if sc.SampleRace {
		total = int64(sc.Data + 2)
	}
	okq := in.WaitFor(T, func() bool {
		st := s.GetStats()
		return st["data_chan_len"] == 0 && in.C("proc.item")+st["input_dropped_count"] >= total
	})
	st := s.GetStats()
	in.Log(Ev{"tr": sc.Tr, "e": "stats", "dropped": st["input_dropped_count"], "cap": st["data_chan_cap"], "len": st["data_chan_len"], "quiet": b2i(okq), "items": in.Count("proc.item"),
		"input": st["input_count"], "output": st["output_count"], "outdrop": st["output_dropped_count"]})
	in.Log(Ev{"tr": sc.Tr, "e": "quiesce"})
	return in.Events(), ""
}
