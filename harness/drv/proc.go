package drv

import (
	"fmt"
	"sort"
	"sync"
	"sync/atomic"
	"time"
	"unsafe"
)

// ProcStep is one step of a processing-time window scenario.
type ProcStep struct {
	A   string `json:"a"`   // add | adv | fire | sleep | mtrig
	ID  int64  `json:"id"`  // add: row id (sequential from 1)
	Gap int64  `json:"gap"` // sleep: microseconds
}

// ProcScenario replays a behaviour of spec/win/ProcTumbling (or a free-running real-time input) on a
// processing-time tumbling window of the real engine.
type ProcScenario struct {
	Tr      int        `json:"tr"`
	SizeMs  int64      `json:"size_ms"` // window size in milliseconds
	Ticks   int64      `json:"ticks"`   // model: window size in model ticks (unit = SizeMs/Ticks)
	Groups  int        `json:"groups"`
	Free    bool       `json:"free"`     // no gate: the engine's own timer decides
	Kind    string     `json:"kind"`     // "" / "tumbling" | "sliding" (sliding: free-running only)
	SlideMs int64      `json:"slide_ms"` // sliding: slide in milliseconds (size_ms is a multiple of it)
	SinkStallMs int64  `json:"sinkstall_ms"` // the synchronous sink sleeps this long on its FIRST delivery (a consumer busy for several intervals: results wait in the window's output queue)
	Timing  bool       `json:"timing"`   // judge how late after its interval's end a result arrives (few scenarios, run when the machine is not starved)
	Steps   []ProcStep `json:"steps"`
}

// RunProc runs one scenario. The trace brackets every row's engine-side timestamp by [lo, hi] (µs since start).
func RunProc(sc ProcScenario) (evs []Ev, inconclusive string) {
	var gates []string
	if !sc.Free {
		gates = []string{"tw.ptrig"}
	}
	in := NewInst(gates...)
	in.LogHooks = false
	defer in.Close()
	start := time.Now()
	// microseconds since the start ON THE WALL CLOCK: the engine stamps rows with time.Now() and reports window bounds as wall-clock
	// nanoseconds, so the brackets must come from the same clock (time.Since reads the monotonic clock, which a clock slew under load
	// separates from the wall clock by more than the tolerance of the monitors)
	startWall := start.UnixNano()
	us := func() int64 { return (time.Now().UnixNano() - startWall) / 1000 }
	var cur atomic.Int64 // id of the row being ingested (lock-step)
	type pend struct {
		id, lo int64
		g      string
		v      int64
	}
	var pd atomic.Pointer[pend]
	addHook := "tw.add"
	if sc.Kind == "sliding" {
		addHook = "sw.add"
	}
	if sc.Kind == "session" {
		addHook = "ss.add"
		sc.Free = true
	}
	startNsG := start.UnixNano()
	gridNsG := sc.SizeMs * 1000000
	if sc.Kind == "sliding" {
		gridNsG = sc.SlideMs * 1000000
		sc.Free = true
	}
	in.OnHook = func(point string, a, b, c int64) Ev {
		if point == addHook {
			if p := pd.Load(); p != nil && p.id == cur.Load() {
				hi := us() + 1
				return Ev{"tr": sc.Tr, "e": "add", "id": p.id, "g": p.g, "v": p.v, "lo": p.lo, "hi": hi,
					"klo": clamp32(floorDiv(startNsG+p.lo*1000, gridNsG) - floorDiv(startNsG, gridNsG)), "khi": clamp32(floorDiv(startNsG+hi*1000, gridNsG) - floorDiv(startNsG, gridNsG))}
			}
		}
		return nil
	}
	s := newInstance()
	sql := fmt.Sprintf("SELECT g, count(*) AS c, sum(v) AS s, collect(id) AS ids, window_start() AS ws, window_end() AS we FROM stream GROUP BY g, TumblingWindow('%dms')", sc.SizeMs)
	gridNs := sc.SizeMs * 1000000 // the grid the interval starts lie on
	if sc.Kind == "sliding" {
		sql = fmt.Sprintf("SELECT g, count(*) AS c, sum(v) AS s, collect(id) AS ids, window_start() AS ws, window_end() AS we FROM stream GROUP BY g, SlidingWindow('%dms','%dms')", sc.SizeMs, sc.SlideMs)
		gridNs = sc.SlideMs * 1000000
	}
	if sc.Kind == "session" { // size_ms is the session timeout
		sql = fmt.Sprintf("SELECT g, count(*) AS c, sum(v) AS s, collect(id) AS ids, window_start() AS ws, window_end() AS we FROM stream GROUP BY g, SessionWindow('%dms')", sc.SizeMs)
	}
	if err := s.Execute(sql); err != nil {
		return nil, "execute: " + err.Error()
	}
	in.S = s
	defer s.Stop()
	w := s.Stream().Window
	in.Bind(s.Stream(), w)
	in.Log(Ev{"tr": sc.Tr, "e": "reset", "kind": "proc" + map[string]string{"": "tumbling", "tumbling": "tumbling", "sliding": "sliding", "session": "session"}[sc.Kind], "size": sc.SizeMs * 1000, "slide": sc.SlideMs * 1000,
		"n": sc.SizeMs / max64(sc.SlideMs, 1), "free": b2i(sc.Free), "timing": b2i(sc.Timing)})
	sizeNs := sc.SizeMs * 1000000
	startNs := start.UnixNano()
	var stalled atomic.Bool
	s.AddSyncSink(func(rs []map[string]any) {
		if sc.SinkStallMs > 0 && !stalled.Swap(true) {
			time.Sleep(time.Duration(sc.SinkStallMs) * time.Millisecond)
		}
		rows := make([]Ev, 0, len(rs))
		for _, r := range rs {
			e := Ev{}
			if g, ok := r["g"].(string); ok {
				e["g"] = g
			} else {
				e["g"] = fmt.Sprintf("?%v", r["g"])
			}
			wsn, ok1 := toI64(r["ws"])
			wen, ok2 := toI64(r["we"])
			if !ok1 || !ok2 {
				wsn, wen = -1, -1
			}
			e["ws"] = floorDiv(wsn-startNs, 1000)
			e["we"] = -floorDiv(-(wen - startNs), 1000)
			e["spanerr"] = clamp32(wen - wsn - sizeNs)
			e["gridrem"] = clamp32((wsn%gridNs + gridNs) % gridNs) // epoch alignment of the interval start
			e["wsx"] = clamp32(floorDiv(wsn, gridNs) - floorDiv(startNs, gridNs))
			e["late"] = clamp32((time.Now().UnixNano() - wen) / 1000) // microseconds between the interval's end and this delivery
			e["t"] = us()
			for _, k := range []string{"c", "s"} {
				if n, ok := toI64(r[k]); ok {
					e[k] = n
				} else {
					e[k] = -999999
				}
			}
			ids := []int64{}
			if l, ok := r["ids"].([]any); ok {
				for _, x := range l {
					if n, ok := toI64(x); ok {
						ids = append(ids, n)
					} else {
						ids = append(ids, -1)
					}
				}
			}
			e["ids"] = ids
			wid, _ := r["window_id"].(string)
			if wid == fmt.Sprintf("%d_%d", wsn, wen) {
				e["wid"] = 1
			} else {
				e["wid"] = 0
			}
			rows = append(rows, e)
		}
		sort.Slice(rows, func(i, j int) bool { return rows[i]["g"].(string) < rows[j]["g"].(string) })
		in.Log(Ev{"tr": sc.Tr, "e": "deliver", "rows": rows})
	})
	const T = 5 * time.Second
	unit := time.Duration(sc.SizeMs) * time.Millisecond
	if sc.Ticks > 0 {
		unit /= time.Duration(sc.Ticks)
	}
	nAdd := int64(0)
	// model clock origin = a size-aligned instant of the wall clock (the model's time 0 is on the window grid)
	var clock time.Time
	if !sc.Free {
		nowNs := time.Now().UnixNano()
		clock = time.Unix(0, (nowNs/sizeNs+1)*sizeNs)
		time.Sleep(time.Until(clock.Add(unit / 4)))
	}
	advs := int64(0)
	held := int64(0) // model ticks during which a due trigger was held at the gate
	for _, st := range sc.Steps {
		switch st.A {
		case "add":
			nAdd++
			g := fmt.Sprintf("g%d", st.ID%int64(max1(sc.Groups)))
			v := st.ID*3 + 1
			pd.Store(&pend{id: st.ID, lo: us(), g: g, v: v})
			cur.Store(st.ID)
			s.Emit(map[string]any{"id": st.ID, "g": g, "v": v})
			n := nAdd
			if !in.WaitFor(T, func() bool { return in.C(addHook) >= n }) {
				return in.Events(), "add not processed"
			}
		case "adv":
			advs++
			off := unit / 4 // rows go in a quarter unit past the model instant ...
			if nAdd > 0 {
				off = unit / 2 // ... and the clock is read half a unit past it, when a due timer (first row + k*size) has fired
			}
			time.Sleep(time.Until(clock.Add(time.Duration(advs)*unit + off)))
			in.mu.Lock()
			if len(in.waiting["tw.ptrig"]) > 0 {
				held++
			}
			in.mu.Unlock()
		case "fire":
			// the model's Fire: the timer goroutine took its tick; wait until the real one did, then let it run
			if !in.WaitFor(2*time.Duration(sc.SizeMs)*time.Millisecond+time.Second, func() bool { return in.NWaiting("tw.ptrig") > 0 }) {
				in.Stuck = false
				in.Log(Ev{"tr": sc.Tr, "e": "drift", "why": "no timer tick pending at fire step"})
				continue
			}
			b := in.Count("tw.ptrigdone")
			in.Release("tw.ptrig")
			if !in.WaitFor(T, func() bool { return in.C("tw.ptrigdone") > b }) {
				return in.Events(), "trigger did not complete"
			}
		case "lockrace":
			// a reader holds the window lock across an interval boundary e; behind it queue, in this order, a manual TriggerWindow()
			// and then the ingestion of one row, both called BEFORE e; the lock is released after e. Whatever the engine stamps the
			// row with (its arrival before e, or the moment it is placed after e), the row is reported in an interval that
			// overlaps its bracket.
			addr := FieldAddr(w, "mu")
			if addr == 0 {
				return in.Events(), "window lock not found"
			}
			mu := (*sync.RWMutex)(unsafe.Pointer(addr))
			nowNs := time.Now().UnixNano()
			e := time.Unix(0, (nowNs/sizeNs+1)*sizeNs)
			if time.Until(e) < 8*time.Millisecond {
				e = e.Add(time.Duration(sizeNs))
			}
			time.Sleep(time.Until(e.Add(-5 * time.Millisecond)))
			mu.RLock()
			trigDone := make(chan struct{})
			go func() { s.TriggerWindow(); close(trigDone) }()
			time.Sleep(1500 * time.Microsecond)
			nAdd++
			g := fmt.Sprintf("g%d", st.ID%int64(max1(sc.Groups)))
			v := st.ID*3 + 1
			pd.Store(&pend{id: st.ID, lo: us(), g: g, v: v})
			cur.Store(st.ID)
			s.Emit(map[string]any{"id": st.ID, "g": g, "v": v})
			time.Sleep(time.Until(e.Add(3 * time.Millisecond)))
			mu.RUnlock()
			<-trigDone
			n := nAdd
			if !in.WaitFor(T, func() bool { return in.C(addHook) >= n }) {
				return in.Events(), "add not processed"
			}
		case "mtrig":
			// TriggerWindow(): the current interval is reported now (the scenario hands in no further row before the interval is over);
			// the intervals after it are reported as usual - complete, each once
			s.TriggerWindow()
		case "sleep":
			t0 := time.Now()
			time.Sleep(time.Duration(st.Gap) * time.Microsecond)
			if over := time.Since(t0) - time.Duration(st.Gap)*time.Microsecond; over > 60*time.Millisecond {
				starvedFlag.Store(int64(sc.Tr), true)
			}
		}
	}
	in.Disarm()
	// quiescence: a lagging cursor advances one window per timer period, so rows held back for k periods need k+1 more
	deadline := time.Now().Add(time.Duration(held+3)*time.Duration(sc.SizeMs)*time.Millisecond + 3*time.Second)
	reported := func() int64 {
		n := int64(0)
		for _, e := range in.Events() {
			if e["e"] == "deliver" {
				for _, r := range e["rows"].([]Ev) {
					n += int64(len(r["ids"].([]int64)))
				}
			}
		}
		return n
	}
	if sc.Kind == "sliding" || sc.Kind == "session" {
		// every covering interval of the last row has fired one window size and one slide after it (plus slack);
		// a session has been reported one and a half timeouts after its last row
		wait := time.Duration(sc.SizeMs+3*sc.SlideMs) * time.Millisecond
		if sc.Kind == "session" {
			wait = time.Duration(2*sc.SizeMs) * time.Millisecond
		}
		time.Sleep(wait + 150*time.Millisecond)
		if sc.Starved() {
			in.Log(Ev{"tr": sc.Tr, "e": "void", "why": "the driver itself was starved of CPU (a sleep overshot by more than 60 ms)"})
		}
	} else {
		for time.Now().Before(deadline) {
			if reported() >= nAdd {
				break
			}
			time.Sleep(2 * time.Millisecond)
		}
	}
	// let a possible duplicate / extra delivery show up: one more timer period
	time.Sleep(time.Duration(sc.SizeMs)*time.Millisecond + 10*time.Millisecond)
	in.Log(Ev{"tr": sc.Tr, "e": "quiesce"})
	if in.Stuck {
		return in.Events(), "a gate timed out"
	}
	return in.Events(), ""
}

var starvedFlag sync.Map

// Starved reports whether one of the driver's own sleeps overshot badly (the machine was starved of CPU).
func (sc ProcScenario) Starved() bool {
	_, ok := starvedFlag.Load(int64(sc.Tr))
	return ok
}

func max64(a, b int64) int64 {
	if a > b {
		return a
	}
	return b
}

func clamp32(n int64) int64 {
	if n > 2000000000 {
		return 2000000000
	}
	if n < -2000000000 {
		return -2000000000
	}
	return n
}
