package drv

import (
	"fmt"
	"sort"
	"strings"
	"time"

	"github.com/rulego/streamsql/rsql"
	"github.com/rulego/streamsql/types"
)

// ParseScenario feeds texts to rsql.Parse (C11): layout variants of one statement, or arbitrary token sequences.
type ParseScenario struct {
	Tr    int            `json:"tr"`
	Meta  map[string]any `json:"meta"`
	Texts []string       `json:"texts"`
}

func squash(s string) string { // layout-insensitive form of clause text
	return strings.Join(strings.Fields(s), "")
}

// projectConfig renders the parts of the configuration the statement's clauses determine.
func projectConfig(sql string) (proj Ev, errs int, pan int) {
	defer func() {
		if r := recover(); r != nil {
			pan = 1
			proj = Ev{}
		}
	}()
	cfg, cond, err := rsql.Parse(sql)
	if err != nil || cfg == nil {
		return Ev{}, 1, 0
	}
	fo := append([]string{}, cfg.FieldOrder...)
	groups := append([]string{}, cfg.GroupFields...)
	order := []string{}
	for _, o := range cfg.OrderBy {
		order = append(order, squash(o.Expression)+":"+string(o.Direction))
	}
	joins := []string{}
	for _, j := range cfg.JoinConfigs {
		ps := []string{}
		for _, p := range j.OnPairs {
			ps = append(ps, p.StreamField+"="+p.TableField)
		}
		joins = append(joins, fmt.Sprintf("%s|%s|%s|%s", j.Table, j.Alias, j.JoinType, strings.Join(ps, "&")))
	}
	params := []string{}
	for _, p := range cfg.WindowConfig.Params { // durations by value ('5m' and '5m0s' are the same parameter)
		str := fmt.Sprint(p)
		if d, err := time.ParseDuration(str); err == nil {
			str = fmt.Sprintf("%dms", d.Milliseconds())
		}
		params = append(params, str)
	}
	alias := []string{}
	for k, v := range cfg.FieldAlias {
		alias = append(alias, k+"<-"+squash(v))
	}
	sort.Strings(alias)
	simple := append([]string{}, cfg.SimpleFields...) // "expr:alias" texts as the parser normalised them (exact, not squashed)
	mr := ""
	mrWithin, mrSkip, mrRows, mrSym, mrNDef, mrNMeas, mrNSub := int64(-1), -1, -1, "", 0, 0, 0
	mrPart := []string{}
	if cfg.MatchRecognize != nil {
		m := cfg.MatchRecognize
		cp := *m
		cp.Pattern = nil // a pointer: rendered separately as a term
		// expression texts keep the written letter case of function names (MATCH_NUMBER / match_number): compared case-insensitively
		mr = strings.ToUpper(squash(fmt.Sprintf("%+v", cp))) + "|" + patternTerm(m.Pattern)
		mrWithin, mrSkip, mrRows, mrSym = int64(m.Within/time.Microsecond), int(m.Skip), int(m.RowsPerMatch), m.SkipSymbol
		mrPart = append(mrPart, m.PartitionBy...)
		mrNDef, mrNMeas, mrNSub = len(m.Defines), len(m.Measures), len(m.Subsets)
	}
	// the string literals of the statement exactly as written (blanks and letter case inside quotes are data)
	litSet := map[string]bool{}
	texts := []string{cond, cfg.Having, cfg.WindowConfig.TriggerCondition}
	texts = append(texts, cfg.SimpleFields...)
	for _, fe := range cfg.FieldExpressions {
		texts = append(texts, fe.Expression)
	}
	for _, t := range texts {
		for i := 0; i < len(t); i++ {
			if t[i] == '\'' {
				j := i + 1
				for j < len(t) && t[j] != '\'' {
					j++
				}
				if j < len(t) {
					litSet[t[i+1:j]] = true
				}
				i = j
			}
		}
	}
	lits := []string{}
	for l := range litSet {
		lits = append(lits, l)
	}
	sort.Strings(lits)
	return Ev{
		"lits":         lits,
		"mr_within_us": mrWithin, "mr_skip": mrSkip, "mr_rows": mrRows, "mr_sym": mrSym, "mr_part": mrPart, "mr_ndef": mrNDef, "mr_nmeas": mrNMeas, "mr_nsub": mrNSub,
		"fields": fo, "groups": groups, "where": squash(cond), "having": squash(cfg.Having), "limit": cfg.Limit, "distinct": b2i(cfg.Distinct),
		"order": order, "joins": joins, "wtype": strings.ToLower(cfg.WindowConfig.Type), "wparams": params, "tsprop": cfg.WindowConfig.TsProp,
		"unit": int64(cfg.WindowConfig.TimeUnit / time.Microsecond), "moo": int64(cfg.WindowConfig.MaxOutOfOrderness / time.Millisecond),
		"al": int64(cfg.WindowConfig.AllowedLateness / time.Millisecond), "trigger": squash(cfg.WindowConfig.TriggerCondition),
		"source": cfg.SourceAlias, "alias": alias, "mr": mr, "nsel": len(cfg.FieldOrder), "simple": simple,
	}, 0, 0
}

// patternTerm renders a pattern tree as a term (kinds, symbols, quantifier bounds).
func patternTerm(p *types.PatternNode) string {
	if p == nil {
		return "nil"
	}
	out := fmt.Sprintf("k%d[%s]", int(p.Kind), p.Symbol)
	if p.Quant != nil {
		out += fmt.Sprintf("{%d,%d,%v}", p.Quant.Min, p.Quant.Max, p.Quant.Greedy)
	}
	if len(p.Children) > 0 {
		cs := []string{}
		for _, c := range p.Children {
			cs = append(cs, patternTerm(c))
		}
		out += "(" + strings.Join(cs, ",") + ")"
	}
	return out
}

// RunParse parses every text with a watchdog.
func RunParse(sc ParseScenario) []Ev {
	evs := []Ev{}
	reset := Ev{"tr": sc.Tr, "e": "reset"}
	for k, v := range sc.Meta {
		reset[k] = v
	}
	evs = append(evs, reset)
	for i, t := range sc.Texts {
		type res struct {
			p       Ev
			err, pn int
		}
		ch := make(chan res, 1)
		go func(t string) {
			p, e, pn := projectConfig(t)
			ch <- res{p, e, pn}
		}(t)
		e := Ev{"tr": sc.Tr, "e": "parse", "i": i + 1, "timeout": 0, "panic": 0, "err": 0}
		select {
		case r := <-ch:
			e["panic"], e["err"], e["cfg"] = r.pn, r.err, r.p
		case <-time.After(3 * time.Second):
			e["timeout"] = 1
			e["cfg"] = Ev{}
		}
		evs = append(evs, e)
	}
	evs = append(evs, Ev{"tr": sc.Tr, "e": "quiesce"})
	return evs
}
