package drv

import (
	"fmt"
	"math/rand"
	"runtime"
	"sort"
	"strings"
	"sync"
	"sync/atomic"
	"time"

	"github.com/rulego/streamsql"
	"github.com/rulego/streamsql/functions"
	"github.com/rulego/streamsql/types"
	"github.com/rulego/streamsql/utils/cast"
)

// LifeScenario exercises lifecycle operations concurrently (C18).
type LifeScenario struct {
	Tr       int    `json:"tr"`
	Kind     string `json:"kind"`     // direct | count | tumbling | cep | analytic | join
	Strategy string `json:"strategy"` // drop | block | expand
	Sinks    string `json:"sinks"`    // fast | slow | panic | reentrant
	Workers  int    `json:"workers"`  // API-calling goroutines
	Ops      int    `json:"ops"`      // operations per goroutine
	Seed     int64  `json:"seed"`
	// directed: "syncstop" = an EmitSync is inside its first synchronous sink while Stop runs to completion
	//           "afterstop" = Emit / EmitSync after Stop returned
	Directed string `json:"directed"`
}

var lifeSQL = map[string]string{
	"direct":        "SELECT id, v FROM stream WHERE v >= 0",
	"count":         "SELECT count(*) AS c, sum(v) AS s FROM stream GROUP BY CountingWindow(3)",
	"tumbling":      "SELECT g, count(*) AS c FROM stream GROUP BY g, TumblingWindow('1s') WITH (TIMESTAMP='ts', TIMEUNIT='ms')",
	"cep":           "SELECT * FROM stream MATCH_RECOGNIZE (PARTITION BY g ORDER BY ts MEASURES COUNT(*) AS n, FIRST(id) AS f PATTERN (A+) DEFINE A AS v > 0)",
	"analytic":      "SELECT id, lag(v) AS p, acc_sum(v) AS s FROM stream",
	"sliding":       "SELECT g, count(*) AS c FROM stream GROUP BY g, SlidingWindow('2s','1s') WITH (TIMESTAMP='ts', TIMEUNIT='ms')",
	"session":       "SELECT g, count(*) AS c FROM stream GROUP BY g, SessionWindow('1s') WITH (TIMESTAMP='ts', TIMEUNIT='ms', MAXOUTOFORDERNESS='400ms')",
	"global":        "SELECT g, count(*) AS c, sum(v) AS s FROM stream GROUP BY g, GLOBAL WINDOW TRIGGER WHEN count(*) >= 3",
	"ptumble":       "SELECT g, count(*) AS c FROM stream GROUP BY g, TumblingWindow('15ms')",
	"pslide":        "SELECT g, count(*) AS c FROM stream GROUP BY g, SlidingWindow('30ms','10ms')",
	"psession":      "SELECT g, count(*) AS c FROM stream GROUP BY g, SessionWindow('10ms')",
	"hop_idle":      "SELECT g, count(*) AS c FROM stream GROUP BY g, SlidingWindow('1s','3s') WITH (TIMESTAMP='ts', TIMEUNIT='ms', IDLETIMEOUT='50ms')",
	"hop":           "SELECT g, count(*) AS c FROM stream GROUP BY g, SlidingWindow('1s','3s') WITH (TIMESTAMP='ts', TIMEUNIT='ms')",
	"slide_idle":    "SELECT g, count(*) AS c FROM stream GROUP BY g, SlidingWindow('2s','1s') WITH (TIMESTAMP='ts', TIMEUNIT='ms', IDLETIMEOUT='50ms')",
	"boom_direct":   "SELECT id, vboom(v) AS b FROM stream",
	"boom_where":    "SELECT id FROM stream WHERE vboom(v) > -5",
	"boom_count":    "SELECT count(*) AS c, sum(vboom(v)) AS s FROM stream GROUP BY CountingWindow(2)",
	"boom_global":   "SELECT g, count(*) AS c, sum(vboom(v)) AS s FROM stream GROUP BY g, GLOBAL WINDOW TRIGGER WHEN count(*) >= 2",
	"boom_agg":      "SELECT count(*) AS c, vboomsum(v) AS s FROM stream GROUP BY CountingWindow(2)",
	"boom_analytic": "SELECT id, lag(vboom(v)) AS p FROM stream",
	"boom_cep":      "SELECT * FROM stream MATCH_RECOGNIZE (ORDER BY ts MEASURES COUNT(*) AS n, LAST(id) AS li PATTERN (A A) DEFINE A AS vboom(v) > -5)",
	"late":          "SELECT g, count(*) AS c FROM stream GROUP BY g, TumblingWindow('1s') WITH (TIMESTAMP='ts', TIMEUNIT='ms', MAXOUTOFORDERNESS='200ms', ALLOWEDLATENESS='2s', IDLETIMEOUT='50ms')",
}

// engineGoroutines counts goroutines whose stack shows engine code (not the harness).
func engineGoroutines() (int, string) {
	buf := make([]byte, 1<<20)
	n := runtime.Stack(buf, true)
	cnt := 0
	sample := ""
	for _, g := range strings.Split(string(buf[:n]), "\n\n") {
		if strings.Contains(g, "created by github.com/rulego/streamsql") { // goroutines the ENGINE started
			cnt++
			if sample == "" {
				lines := strings.Split(g, "\n")
				if len(lines) > 3 {
					sample = strings.TrimSpace(lines[1]) + " <- " + strings.TrimSpace(lines[3])
				}
			}
		}
	}
	return cnt, sample
}

// RunLife runs one lifecycle scenario. It must be the only scenario running in the process (goroutine accounting).
var boomOnce sync.Once

func registerBoom() {
	boomOnce.Do(func() {
		_ = functions.RegisterCustomFunction("vboom", functions.TypeMath, "verif", "panics when its argument is 3", 1, 1,
			func(ctx *functions.FunctionContext, args []any) (any, error) {
				if fmt.Sprint(args[0]) == "3" {
					panic("vboom: injected panic of a user function")
				}
				return args[0], nil
			})
		// vpark(x) = x, after giving the processor away: evaluations of one predicate by several goroutines overlap for certain
		_ = functions.RegisterCustomFunction("vpark", functions.TypeMath, "verif", "identity that yields the processor", 1, 1,
			func(ctx *functions.FunctionContext, args []any) (any, error) {
				runtime.Gosched()
				time.Sleep(20 * time.Microsecond)
				return args[0], nil
			})
		_ = functions.Register(&boomSum{BaseFunction: functions.NewBaseFunction("vboomsum", functions.TypeAggregation, "verif", "sum whose Result panics when a 3 was added", 1, -1)})
	})
}

// boomSum is a user-defined aggregate with a bug: a sum whose Result() panics when one of the added values was 3.
type boomSum struct {
	*functions.BaseFunction
	sum  float64
	n    int
	boom bool
}

func (f *boomSum) Validate(args []any) error { return f.ValidateArgCount(args) }
func (f *boomSum) Execute(ctx *functions.FunctionContext, args []any) (any, error) {
	return nil, nil
}
func (f *boomSum) New() functions.AggregatorFunction { return &boomSum{BaseFunction: f.BaseFunction} }
func (f *boomSum) Add(v any) {
	if x, err := cast.ToFloat64E(v); err == nil {
		f.sum += x
		f.n++
		if x == 3 {
			f.boom = true
		}
	}
}
func (f *boomSum) Result() any {
	if f.boom {
		panic("vboomsum: injected panic of a user aggregate")
	}
	if f.n == 0 {
		return nil
	}
	return f.sum
}
func (f *boomSum) Reset() { f.sum, f.n, f.boom = 0, 0, false }
func (f *boomSum) Clone() functions.AggregatorFunction {
	return &boomSum{BaseFunction: f.BaseFunction, sum: f.sum, n: f.n, boom: f.boom}
}

func RunLife(sc LifeScenario) (evs []Ev, inconclusive string) {
	registerBoom()
	in := NewInst()
	defer in.Close()
	var seq int64 // atomic order of API-level events: taken as the FIRST statement of a sink / right AFTER a call returns
	var mu sync.Mutex
	log := func(e Ev) {
		e["tr"] = sc.Tr
		mu.Lock()
		evs = append(evs, e)
		mu.Unlock()
	}
	before, _ := engineGoroutines()
	pc := types.DefaultPerformanceConfig()
	if sc.Strategy != "" {
		pc.OverflowConfig.Strategy = sc.Strategy
	}
	pc.BufferConfig.DataChannelSize = 8
	pc.BufferConfig.MaxBufferSize = 64
	pc.OverflowConfig.ExpansionConfig.MinIncrement = 8
	pc.OverflowConfig.BlockTimeout = 0
	pc.WorkerConfig.SinkPoolSize = 2
	pc.WorkerConfig.SinkWorkerCount = 2
	if sc.Directed == "stopgrace" && sc.Strategy == "block" {
		// back-pressure at the moment of Stop: the window's output queue holds one batch, the consumer is stuck in its sink, the
		// window goroutine waits for room (no timeout) - Stop still returns within its grace period
		pc.BufferConfig.WindowOutputSize = 1
	}
	if sc.Directed == "slowdrain" || sc.Directed == "stoptwice" { // a deep queue of tasks for one slow asynchronous sink worker
		pc.WorkerConfig.SinkPoolSize = 2048
		pc.WorkerConfig.SinkWorkerCount = 1
	}
	s := newInstance(streamsql.WithCustomPerformance(pc), streamsql.WithDiscardLog())
	sql := lifeSQL[sc.Kind]
	if err := s.Execute(sql); err != nil {
		return nil, "execute: " + err.Error()
	}
	in.OnHook = func(point string, a, b, c int64) Ev {
		if point == "stop.ret" { // end of the Stop call that performed the teardown (a concurrent second Stop returns early, before this)
			log(Ev{"e": "teardown.done", "q": atomic.AddInt64(&seq, 1)})
		}
		return nil
	}
	in.Bind(s.Stream()) // after OnHook is set: engine goroutines may reach a hook point at once
	log(Ev{"e": "reset", "kind": sc.Kind, "strategy": sc.Strategy, "sinks": sc.Sinks, "directed": sc.Directed, "cep": b2i(sc.Kind == "cep")})
	var panics int64
	guard := func(what string, f func()) {
		defer func() {
			if r := recover(); r != nil {
				atomic.AddInt64(&panics, 1)
				log(Ev{"e": "panic", "where": what, "msg": fmt.Sprint(r), "q": atomic.AddInt64(&seq, 1)})
			}
		}()
		f()
	}
	gate1 := make(chan struct{}) // directed syncstop: first sync sink parks here
	entered := make(chan struct{}, 64)
	var sinkCalls int64
	mkSink := func(name string, behaviour string) func([]map[string]any) {
		return func(rs []map[string]any) {
			q := atomic.AddInt64(&seq, 1) // first statement: the invocation has begun
			n := atomic.AddInt64(&sinkCalls, 1)
			flush := 0
			if sc.Kind == "cep" {
				flush = len(rs)
			}
			log(Ev{"e": "sink.begin", "sink": name, "q": q, "n": len(rs), "cepn": flush})
			switch behaviour {
			case "slow":
				time.Sleep(2 * time.Millisecond)
			case "slow5":
				time.Sleep(5 * time.Millisecond)
			case "panic":
				if n%3 == 0 {
					panic("sink panic (injected)")
				}
			case "reentrant":
				switch n % 4 {
				case 0:
					s.Emit(map[string]any{"id": 900000 + int(n), "v": 1, "g": "r", "ts": int64(1000)})
				case 1:
					_ = s.GetStats()
				case 2:
					if n < 24 { // a sink that registers a further sink (bounded: every sink sees every later result)
						s.AddSink(func([]map[string]any) {})
					}
				}
			case "park":
				select {
				case entered <- struct{}{}:
				default:
				}
				<-gate1
			case "slowpark": // busy for 3 s with its first batch, stuck for good from the second one on
				select {
				case entered <- struct{}{}:
				default:
				}
				if n == 1 {
					time.Sleep(3 * time.Second)
				} else {
					<-gate1
				}
			}
			log(Ev{"e": "sink.end", "sink": name, "q": atomic.AddInt64(&seq, 1)})
		}
	}
	beh := sc.Sinks
	if sc.Directed == "syncstop" {
		s.AddSyncSink(mkSink("s1", "park"))
		s.AddSyncSink(mkSink("s2", "fast"))
	} else if sc.Directed == "slowdrain" || sc.Directed == "stoptwice" {
		s.AddSink(mkSink("a1", "slow5"))
	} else if sc.Directed == "rowpanic" {
		s.AddSyncSink(mkSink("s1", "fast"))
		s.AddSink(mkSink("a1", "fast"))
	} else if sc.Directed == "syncgrace" {
		s.AddSyncSink(mkSink("s1", "park"))
	} else if sc.Directed == "stopgrace" {
		s.AddSyncSink(mkSink("s1", "park"))
		s.AddSink(mkSink("a1", "fast"))
	} else if sc.Directed == "stopgrace2" {
		s.AddSink(mkSink("a1", "slowpark")) // asynchronous: the rows after the first match are processed while the sink is busy
	} else if sc.Directed == "stopatonce" {
		// no sink
	} else {
		s.AddSyncSink(mkSink("s1", beh))
		s.AddSink(mkSink("a1", beh))
		if beh != "reentrant" {
			s.AddSink(mkSink("a2", "fast"))
		}
	}
	row := func(i int) map[string]any {
		return map[string]any{"id": i, "v": i%5 - 1, "g": fmt.Sprintf("g%d", i%3), "ts": int64(1000 + i*200)}
	}
	stopRaw := func(who int) {
		log(Ev{"e": "stop.call", "who": who, "q": atomic.AddInt64(&seq, 1)})
		t0 := time.Now()
		guard("Stop", s.Stop)
		log(Ev{"e": "stop.ret", "who": who, "q": atomic.AddInt64(&seq, 1), "ms": time.Since(t0).Milliseconds()})
	}
	// a Stop that has not returned after 20 s (four grace periods) is recorded as a deadlock and abandoned, so that a broken
	// engine cannot hang the whole run
	stop := func(who int) {
		done := make(chan struct{})
		go func() { stopRaw(who); close(done) }()
		select {
		case <-done:
		case <-time.After(20 * time.Second):
			log(Ev{"e": "deadlock", "where": "Stop did not return within 20 s", "q": atomic.AddInt64(&seq, 1)})
		}
	}
	watchdog := time.AfterFunc(60*time.Second, func() {
		// nothing has finished for a minute: record where every goroutine stands
		buf := make([]byte, 1<<20)
		n := runtime.Stack(buf, true)
		st := string(buf[:n])
		if len(st) > 24000 {
			st = st[:24000]
		}
		log(Ev{"e": "deadlock", "q": atomic.AddInt64(&seq, 1), "stacks": st})
	})
	defer watchdog.Stop()
	switch sc.Directed {
	case "syncstop":
		if sc.Kind != "direct" && sc.Kind != "analytic" {
			return evs, "syncstop needs a non-aggregate query"
		}
		doneSync := make(chan struct{})
		go func() {
			guard("EmitSync", func() { _, _ = s.EmitSync(row(1)) })
			log(Ev{"e": "emitsync.ret", "q": atomic.AddInt64(&seq, 1)})
			close(doneSync)
		}()
		select {
		case <-entered:
		case <-time.After(5 * time.Second):
			return evs, "EmitSync did not reach the first sink"
		}
		stopDone := make(chan struct{})
		go func() { stop(1); close(stopDone) }()
		select {
		case <-stopDone: // Stop returned although an EmitSync is still inside a sink
		case <-time.After(1500 * time.Millisecond): // Stop waits for the in-flight call: let it finish
		}
		close(gate1)
		<-doneSync
		select {
		case <-stopDone:
		case <-time.After(10 * time.Second):
			log(Ev{"e": "deadlock", "q": atomic.AddInt64(&seq, 1)})
		}
	case "syncgrace":
		// an EmitSync call sits in a synchronous sink that stays blocked beyond the grace period: Stop returns within its grace period
		// all the same (and a second EmitSync is not queued behind the first)
		doneSync := make(chan struct{})
		go func() {
			guard("EmitSync", func() { _, _ = s.EmitSync(row(1)) })
			close(doneSync)
		}()
		select {
		case <-entered:
		case <-time.After(5 * time.Second):
			return evs, "EmitSync did not reach the sink"
		}
		stopDone := make(chan struct{})
		go func() { stop(1); close(stopDone) }()
		select {
		case <-stopDone:
		case <-time.After(9 * time.Second): // Stop is stuck behind the blocked call: release it so that the scenario ends (stop.ret then reports > grace)
		}
		close(gate1)
		<-doneSync
		select {
		case <-stopDone:
		case <-time.After(10 * time.Second):
			log(Ev{"e": "deadlock", "q": atomic.AddInt64(&seq, 1)})
		}
		time.Sleep(30 * time.Millisecond)
	case "stopgrace":
		// a synchronous sink blocks (a stuck downstream): Stop must still return within its grace period
		nrows := 6
		if sc.Strategy == "block" {
			nrows = 9 // at least three batches: one in the sink, one in the window's output queue, one waiting for room
		}
		for i := 1; i <= nrows; i++ {
			guard("Emit", func() { s.Emit(row(i)) })
		}
		if sc.Strategy == "block" {
			time.Sleep(100 * time.Millisecond) // the window goroutine has worked the rows off and waits in its send
		}
		select {
		case <-entered:
		case <-time.After(5 * time.Second):
			return evs, "no delivery reached the blocking sink"
		}
		stopDone := make(chan struct{})
		go func() { stop(1); close(stopDone) }()
		select {
		case <-stopDone:
		case <-time.After(9 * time.Second): // Stop is stuck behind the blocked sink: release it so that the scenario ends (stop.ret then reports > grace)
		}
		close(gate1)
		select {
		case <-stopDone:
		case <-time.After(10 * time.Second):
			log(Ev{"e": "deadlock", "q": atomic.AddInt64(&seq, 1)})
		}
		time.Sleep(30 * time.Millisecond)
	case "stopgrace2":
		// MATCH_RECOGNIZE: the sink is still busy with an earlier match when Stop is called (the join takes 3 s of the grace
		// period) and then blocks for good on the match that Stop flushes: Stop as a whole stays within ONE grace period
		ts := int64(1000)
		for _, r := range []map[string]any{{"g": "p", "v": 1}, {"g": "p", "v": 0}, {"g": "q", "v": 2}, {"g": "q", "v": 2}} {
			ts += 100
			r["id"], r["ts"] = int(ts), ts
			guard("Emit", func() { s.Emit(r) })
		}
		select {
		case <-entered:
		case <-time.After(5 * time.Second):
			return evs, "no delivery reached the sink"
		}
		time.Sleep(50 * time.Millisecond) // the rows of partition q have been processed (an open accepting run)
		stopDone := make(chan struct{})
		go func() { stop(1); close(stopDone) }()
		select {
		case <-stopDone:
		case <-time.After(12 * time.Second):
		}
		close(gate1)
		select {
		case <-stopDone:
		case <-time.After(10 * time.Second):
			log(Ev{"e": "deadlock", "q": atomic.AddInt64(&seq, 1)})
		}
		time.Sleep(30 * time.Millisecond)
	case "stopatonce":
		// Stop right after Execute, before any goroutine the engine started has run (one P): returns at once, leaves nothing behind
		old := runtime.GOMAXPROCS(1)
		s2 := newInstance(streamsql.WithCustomPerformance(pc), streamsql.WithDiscardLog())
		if err := s2.Execute(sql); err != nil {
			runtime.GOMAXPROCS(old)
			return evs, "execute: " + err.Error()
		}
		t0 := time.Now()
		guard("Stop", s2.Stop)
		ms := time.Since(t0).Milliseconds()
		runtime.GOMAXPROCS(old)
		log(Ev{"e": "quickstop", "q": atomic.AddInt64(&seq, 1), "ms": ms})
		stop(1)
	case "idlestop":
		// historic event timestamps (1970) and an idle timeout: once the source is idle the watermark jumps to the wall clock,
		// decades ahead of the window cursor; the engine must stay responsive (Emit, Stop) all the same
		for i := 1; i <= 6; i++ {
			guard("Emit", func() { s.Emit(row(i)) })
		}
		time.Sleep(450 * time.Millisecond) // idle timeout (50 ms) + watermark tick (200 ms) have passed
		done := make(chan struct{})
		go func() {
			guard("Emit", func() { s.Emit(row(7)) })
			stop(1)
			close(done)
		}()
		select {
		case <-done:
		case <-time.After(20 * time.Second):
			log(Ev{"e": "deadlock", "q": atomic.AddInt64(&seq, 1)})
			<-done
		}
	case "clockjump":
		// historic event timestamps (1970), then the source switches to real time: the watermark jumps decades ahead of the window
		// cursor while rows that no pending window covers may still be buffered; the engine must stay responsive (Emit, Stop)
		for i := 1; i <= 6; i++ {
			guard("Emit", func() { s.Emit(row(i)) })
		}
		now := time.Now().UnixMilli()
		for i := 7; i <= 9; i++ {
			r := row(i)
			r["ts"] = now + int64(i*200)
			guard("Emit", func() { s.Emit(r) })
		}
		time.Sleep(300 * time.Millisecond)
		done := make(chan struct{})
		go func() {
			r := row(10)
			r["ts"] = now + 5000
			guard("Emit", func() { s.Emit(r) })
			stop(1)
			close(done)
		}()
		select {
		case <-done:
		case <-time.After(20 * time.Second):
			log(Ev{"e": "deadlock", "q": atomic.AddInt64(&seq, 1)})
			<-done
		}
	case "slowdrain":
		// far more results queued for the asynchronous sink than it can work off within the grace period: Stop does not wait
		// for the backlog, and nothing of the backlog is delivered after Stop returned
		for i := 1; i <= 1500; i++ {
			guard("Emit", func() { s.Emit(row(i)) })
		}
		time.Sleep(100 * time.Millisecond)
		stop(1)
		time.Sleep(400 * time.Millisecond)
	case "stoptwice":
		// two Stop calls at (almost) the same time while the asynchronous sink still has a backlog: EACH of them is a barrier -
		// whichever returns, no sink invocation begins after it
		for i := 1; i <= 300; i++ {
			guard("Emit", func() { s.Emit(row(i)) })
		}
		time.Sleep(20 * time.Millisecond)
		first := make(chan struct{})
		go func() { stop(1); close(first) }()
		time.Sleep(time.Duration(sc.Ops%7) * time.Millisecond) // 0 .. 6 ms behind the first
		stop(2)
		<-first
		time.Sleep(200 * time.Millisecond)
	case "rowpanic":
		// a user function panics on some rows (v = 3: every fifth row): the rows after them are still processed
		for i := 1; i <= 20; i++ {
			guard("Emit", func() { s.Emit(row(i)) })
			time.Sleep(2 * time.Millisecond)
		}
		time.Sleep(150 * time.Millisecond)
		want := map[string]int64{"boom_direct": 14, "boom_where": 14, "boom_count": 6, "boom_agg": 6, "boom_global": 4, "boom_analytic": 14, "boom_cep": 3}[sc.Kind]
		log(Ev{"e": "rowpanic", "q": atomic.AddInt64(&seq, 1), "got": atomic.LoadInt64(&sinkCalls) / 2, "want": want}) // two sinks (s1, a1) see every result
		stop(1)
	case "afterstop":
		for i := 1; i <= 4; i++ { // v = 0, 1, 2, 3: for the CEP query an A+ run is still open at Stop and must be flushed
			guard("Emit", func() { s.Emit(row(i)) })
		}
		time.Sleep(30 * time.Millisecond)
		stop(1)
		stop(2) // idempotent
		for i := 6; i <= 10; i++ {
			guard("Emit", func() { s.Emit(row(i)) })
			if sc.Kind == "direct" || sc.Kind == "analytic" {
				guard("EmitSync", func() { _, _ = s.EmitSync(row(i)) })
			}
			guard("GetStats", func() { _ = s.GetStats() })
			guard("TriggerWindow", func() { s.TriggerWindow() })
		}
		time.Sleep(30 * time.Millisecond)
	default:
		var wg sync.WaitGroup
		for w := 0; w < sc.Workers; w++ {
			wg.Add(1)
			go func(w int) {
				defer wg.Done()
				rng := rand.New(rand.NewSource(sc.Seed + int64(w)*7919))
				for i := 0; i < sc.Ops; i++ {
					k := rng.Intn(100)
					switch {
					case k < 55:
						guard("Emit", func() { s.Emit(row(w*100000 + i)) })
					case k < 70:
						if sc.Kind == "direct" || sc.Kind == "analytic" {
							guard("EmitSync", func() { _, _ = s.EmitSync(row(w*100000 + i)) })
						} else {
							guard("Emit", func() { s.Emit(row(w*100000 + i)) })
						}
					case k < 80:
						guard("GetStats", func() { _ = s.GetStats(); _ = s.GetDetailedStats() })
					case k < 88:
						guard("TriggerWindow", func() { s.TriggerWindow() })
					case k < 94:
						guard("AddSink", func() { s.AddSink(mkSink(fmt.Sprintf("x%d_%d", w, i), "fast")) })
					case k < 97 && i > sc.Ops/2:
						stop(w)
					default:
						runtime.Gosched()
					}
				}
			}(w)
		}
		waitDone := make(chan struct{})
		go func() { wg.Wait(); close(waitDone) }()
		select {
		case <-waitDone:
		case <-time.After(30 * time.Second):
			log(Ev{"e": "deadlock", "where": "an API call did not return", "q": atomic.AddInt64(&seq, 1)})
		}
		stop(99)
	}
	// settle: engine goroutines must be gone (poll up to 3 s)
	var after int
	var sample string
	for t := 0; t < 150; t++ {
		after, sample = engineGoroutines()
		if after <= before {
			break
		}
		time.Sleep(20 * time.Millisecond)
	}
	log(Ev{"e": "settled", "q": atomic.AddInt64(&seq, 1), "before": before, "after": after, "sample": sample, "panics": atomic.LoadInt64(&panics)})
	log(Ev{"e": "quiesce"})
	// order by the atomic sequence number (events without one keep their place at the ends)
	sort.SliceStable(evs, func(i, j int) bool {
		qi, iok := evs[i]["q"].(int64)
		qj, jok := evs[j]["q"].(int64)
		if !iok || !jok {
			return false
		}
		return qi < qj
	})
	return evs, ""
}
