package drv

import (
	"time"

	"github.com/rulego/streamsql"
)

// ApiScenario is one behaviour of spec/pipe/ApiProtocol: a sequence of public API calls on ONE instance.
type ApiScenario struct {
	Tr    int      `json:"tr"`
	Kind  string   `json:"kind"` // direct | agg | cep
	Calls []string `json:"calls"`
}

var apiSQL = map[string]string{
	"direct": "SELECT id, v FROM stream",
	"agg":    "SELECT count(*) AS c FROM stream GROUP BY CountingWindow(1)",
	"cep":    "SELECT * FROM stream MATCH_RECOGNIZE (ORDER BY ts MEASURES LAST(id) AS li PATTERN (A) DEFINE A AS v > 0)",
}

// RunApi replays the calls and records the outcome class of each (the monitor TraceApi re-runs the protocol machine over them).
func RunApi(sc ApiScenario) (evs []Ev, inconclusive string) {
	in := NewInst()
	in.LogHooks = false
	defer in.Close()
	s := newInstance(streamsql.WithDiscardLog())
	defer func() {
		defer func() { _ = recover() }()
		s.Stop()
	}()
	in.Log(Ev{"tr": sc.Tr, "e": "reset", "kind": sc.Kind})
	var counts []*int64
	bound := false
	running := false
	nEmit := int64(0)
	const T = 5 * time.Second
	settle := func() bool { // every row handed in while running has been processed and its result handed to the synchronous sinks
		if !bound {
			return true
		}
		st := s.Stream()
		return in.WaitFor(T, func() bool {
			if in.C("proc.item") < nEmit || in.C("cw.row") < in.C("cw.add") {
				return false
			}
			if w := st.Window; w != nil {
				ws := w.GetStats()
				if ws["bufferUsed"] != 0 || in.C("proc.batch") < ws["sentCount"] {
					return false
				}
			}
			return true
		})
	}
	id := 0
	for _, c := range sc.Calls {
		out, pan := "void", 0
		func() {
			defer func() {
				if r := recover(); r != nil {
					pan = 1
				}
			}()
			switch c {
			case "exec_ok":
				if err := s.Execute(apiSQL[sc.Kind]); err != nil {
					out = "err"
				} else {
					out = "ok"
					if !bound {
						st := s.Stream()
						var wany any
						if st.Window != nil {
							wany = st.Window
						}
						in.S = s
						in.Bind(st, wany)
						bound, running = true, true
					}
				}
			case "exec_bad":
				if err := s.Execute("SELECT FROM WHERE"); err != nil {
					out = "err"
				} else {
					out = "ok"
				}
			case "emit":
				id++
				s.Emit(map[string]any{"id": id, "v": 1, "ts": int64(1000 + id)})
				if running && sc.Kind != "cep" {
					nEmit++
				}
			case "sync":
				id++
				res, err := s.EmitSync(map[string]any{"id": id, "v": 1, "ts": int64(1000 + id)})
				switch {
				case err != nil:
					out = "err"
				case res == nil:
					out = "norow"
				default:
					out = "row"
				}
			case "addsink":
				n := new(int64)
				counts = append(counts, n)
				s.AddSyncSink(func(rs []map[string]any) {
					in.mu.Lock()
					*n += int64(len(rs))
					in.mu.Unlock()
				})
			case "stop":
				s.Stop()
				running = false
			case "stats":
				if len(s.GetStats()) == 0 {
					out = "empty"
				} else {
					out = "nonempty"
				}
			case "upsert":
				if err := s.UpsertTable("nosuch", map[string]any{"k": 1}); err != nil {
					out = "err"
				} else {
					out = "ok"
				}
			case "tochannel":
				if s.ToChannel() == nil {
					out = "nil"
				} else {
					out = "chan"
				}
			case "trigger":
				s.TriggerWindow()
			}
		}()
		in.Log(Ev{"tr": sc.Tr, "e": "call", "c": c, "out": out, "panic": pan})
		if (c == "emit" || c == "sync") && running {
			if !settle() {
				return in.Events(), "a row handed in while running was not processed within 5 s"
			}
			if sc.Kind == "cep" {
				time.Sleep(30 * time.Millisecond) // no hook counts CEP deliveries: the match of a one-row pattern follows its row at once
			}
		}
	}
	rows := make([]int64, len(counts))
	in.mu.Lock()
	for i, n := range counts {
		rows[i] = *n
	}
	in.mu.Unlock()
	in.Log(Ev{"tr": sc.Tr, "e": "sinks", "rows": rows})
	return in.Events(), ""
}
