// Package drv is the conformance driver's core: it binds verifhook points of the
// real engine to per-instance counters, scheduler gates and an ndjson trace.
// It never decides anything: verdicts are formed by TLC on the recorded traces.
package drv

import (
	"encoding/json"
	"fmt"
	"os"
	"reflect"
	"sort"
	"strings"
	"sync"
	"time"

	"github.com/rulego/streamsql"
	"github.com/rulego/streamsql/logger"
	"github.com/rulego/streamsql/verifhook"
)

// Ev is one trace event (one ndjson line).
type Ev map[string]any

// Inst wraps one real Streamsql instance under test.
type Inst struct {
	S        *streamsql.Streamsql
	mu       sync.Mutex
	cond     *sync.Cond
	count    map[string]int64
	armed    map[string]bool
	waiting  map[string][]chan struct{}
	arrived  map[string]int64
	events   []Ev
	LogHooks bool
	OnHook   func(point string, a, b, c int64) Ev // optional: event to log for a hook (called under the instance lock)
	Perturb  func(point string)                   // optional: called at every hook point outside the instance lock (seeded yields / sleeps)
	Stuck    bool                                 // a wait timed out: scenario is inconclusive
	owners   []uintptr
}

var (
	regMu  sync.RWMutex
	owners = map[uintptr]*Inst{}
	once   sync.Once
)

func install() {
	once.Do(func() {
		if !verifhook.Enabled {
			fmt.Fprintln(os.Stderr, "FATAL: harness built without -tags verif")
			os.Exit(2)
		}
		verifhook.Set(func(point string, owner any, a, b, c int64) {
			regMu.RLock()
			in := owners[ptrOf(owner)]
			regMu.RUnlock()
			if in != nil {
				in.at(point, a, b, c)
			}
		})
	})
}

// ptrOf maps an engine object (pointer) to its address; 0 when not a pointer.
func ptrOf(o any) uintptr {
	if o == nil {
		return 0
	}
	if p, ok := o.(uintptr); ok {
		return p
	}
	v := reflect.ValueOf(o)
	switch v.Kind() {
	case reflect.Ptr, reflect.UnsafePointer, reflect.Map, reflect.Chan, reflect.Func, reflect.Slice:
		return v.Pointer()
	}
	return 0
}

// FieldPtr returns the address held in an (unexported) pointer field of *obj, 0 if absent.
func FieldPtr(obj any, field string) uintptr {
	v := reflect.ValueOf(obj)
	for v.Kind() == reflect.Ptr || v.Kind() == reflect.Interface {
		if v.IsNil() {
			return 0
		}
		v = v.Elem()
	}
	if v.Kind() != reflect.Struct {
		return 0
	}
	f := v.FieldByName(field)
	if !f.IsValid() || f.Kind() != reflect.Ptr || f.IsNil() {
		return 0
	}
	return f.Pointer()
}

// FieldAddr returns the address of a (value) field of a struct, 0 if there is no such field.
func FieldAddr(obj any, field string) uintptr {
	v := reflect.ValueOf(obj)
	for v.Kind() == reflect.Ptr || v.Kind() == reflect.Interface {
		if v.IsNil() {
			return 0
		}
		v = v.Elem()
	}
	if v.Kind() != reflect.Struct || !v.CanAddr() {
		return 0
	}
	f := v.FieldByName(field)
	if !f.IsValid() {
		return 0
	}
	return f.UnsafeAddr()
}

// NewInst creates an instance wrapper; gates lists hook points that block until released.
func NewInst(gates ...string) *Inst {
	install()
	in := &Inst{count: map[string]int64{}, armed: map[string]bool{}, waiting: map[string][]chan struct{}{}, arrived: map[string]int64{}}
	in.cond = sync.NewCond(&in.mu)
	for _, g := range gates {
		in.armed[g] = true
	}
	return in
}

// Bind registers the engine objects whose hook events belong to this instance.
func (in *Inst) Bind(objs ...any) {
	regMu.Lock()
	for _, o := range objs {
		if p := ptrOf(o); p != 0 {
			owners[p] = in
			in.owners = append(in.owners, p)
		}
	}
	regMu.Unlock()
}

// Close unregisters the instance and releases every blocked goroutine.
func (in *Inst) Close() {
	regMu.Lock()
	for _, o := range in.owners {
		delete(owners, o)
	}
	regMu.Unlock()
	in.mu.Lock()
	for p := range in.armed {
		in.armed[p] = false
	}
	for p, ws := range in.waiting {
		for _, ch := range ws {
			close(ch)
		}
		in.waiting[p] = nil
	}
	in.mu.Unlock()
}

func (in *Inst) at(point string, a, b, c int64) {
	in.mu.Lock()
	in.count[point]++
	if in.LogHooks {
		in.events = append(in.events, Ev{"e": "h." + point, "a": a, "b": b, "c": c})
	}
	if in.OnHook != nil {
		if e := in.OnHook(point, a, b, c); e != nil {
			in.events = append(in.events, e)
		}
	}
	var ch chan struct{}
	if in.armed[point] {
		ch = make(chan struct{})
		in.waiting[point] = append(in.waiting[point], ch)
		in.arrived[point]++
	}
	in.cond.Broadcast()
	in.mu.Unlock()
	if in.Perturb != nil {
		in.Perturb(point)
	}
	if ch != nil {
		select {
		case <-ch:
		case <-time.After(20 * time.Second):
			in.mu.Lock()
			in.Stuck = true
			in.mu.Unlock()
		}
	}
}

// Disarm opens every gate for good and releases the goroutines waiting at them.
func (in *Inst) Disarm() {
	in.mu.Lock()
	for p := range in.armed {
		in.armed[p] = false
	}
	for p, ws := range in.waiting {
		for _, ch := range ws {
			close(ch)
		}
		in.waiting[p] = nil
	}
	in.mu.Unlock()
}

// Log appends a driver-level (API) event to the trace.
func (in *Inst) Log(e Ev) {
	in.mu.Lock()
	in.events = append(in.events, e)
	in.mu.Unlock()
}

// Count returns how often a hook point was reached.
func (in *Inst) Count(point string) int64 {
	in.mu.Lock()
	defer in.mu.Unlock()
	return in.count[point]
}

// WaitFor blocks until pred (evaluated under the instance lock) holds; false on timeout.
func (in *Inst) WaitFor(timeout time.Duration, pred func() bool) bool {
	deadline := time.Now().Add(timeout)
	in.mu.Lock()
	defer in.mu.Unlock()
	for !pred() {
		if time.Now().After(deadline) {
			in.Stuck = true
			return false
		}
		// cond has no timed wait: poll with a short sleep outside the lock
		in.mu.Unlock()
		time.Sleep(50 * time.Microsecond)
		in.mu.Lock()
	}
	return true
}

// C reads a counter; only call from inside a WaitFor predicate.
func (in *Inst) C(point string) int64 { return in.count[point] }

// NWaiting reports goroutines blocked at a gate; only inside WaitFor predicates.
func (in *Inst) NWaiting(point string) int { return len(in.waiting[point]) }

// Release lets one goroutine blocked at the gate continue; false if none is waiting.
func (in *Inst) Release(point string) bool {
	in.mu.Lock()
	defer in.mu.Unlock()
	ws := in.waiting[point]
	if len(ws) == 0 {
		return false
	}
	close(ws[0])
	in.waiting[point] = ws[1:]
	return true
}

// Events returns a copy of the recorded trace.
func (in *Inst) Events() []Ev {
	in.mu.Lock()
	defer in.mu.Unlock()
	return append([]Ev(nil), in.events...)
}

// WriteTrace writes events as ndjson with deterministic key order.
func WriteTrace(f *os.File, evs []Ev) error {
	for _, e := range evs {
		b, err := marshalSorted(e)
		if err != nil {
			return err
		}
		if _, err := f.Write(append(b, '\n')); err != nil {
			return err
		}
	}
	return nil
}

func marshalSorted(e Ev) ([]byte, error) {
	keys := make([]string, 0, len(e))
	for k := range e {
		keys = append(keys, k)
	}
	sort.Strings(keys)
	out := []byte{'{'}
	for i, k := range keys {
		if i > 0 {
			out = append(out, ',')
		}
		kb, _ := json.Marshal(k)
		vb, err := json.Marshal(e[k])
		if err != nil {
			return nil, err
		}
		out = append(out, kb...)
		out = append(out, ':')
		out = append(out, vb...)
	}
	return append(out, '}'), nil
}

var newMu sync.Mutex

// newInstance creates an engine instance. Creation is serialised: streamsql.New writes the process-wide default logger
// without synchronisation, and concurrent creation of instances is not part of any property decided here.
func newInstance(opts ...streamsql.Option) *streamsql.Streamsql {
	newMu.Lock()
	defer newMu.Unlock()
	return streamsql.New(opts...)
}

// capLog is the per-instance logger of a scenario: it keeps the engine's reports of panics it recovered from in its own
// goroutines (a recovered panic loses the row or the batch that was being processed).
type capLog struct {
	mu     sync.Mutex
	panics []string
}

func (c *capLog) Debug(string, ...any) {}
func (c *capLog) Info(string, ...any)  {}
func (c *capLog) Warn(string, ...any)  {}
func (c *capLog) Error(format string, args ...any) {
	msg := fmt.Sprintf(format, args...)
	if strings.Contains(strings.ToLower(msg), "panic") {
		c.mu.Lock()
		c.panics = append(c.panics, msg)
		c.mu.Unlock()
	}
}
func (c *capLog) SetLevel(logger.Level) {}
func (c *capLog) Panics() []string {
	c.mu.Lock()
	defer c.mu.Unlock()
	return append([]string(nil), c.panics...)
}
