package drv

import (
	"bytes"
	"encoding/json"
	"os"
	"os/exec"
	"time"

	"github.com/rulego/streamsql"
	"github.com/rulego/streamsql/stream"
)

// PairScenario runs two instances alone and then interleaved in one process (C20b).
type PairScenario struct {
	Tr      int            `json:"tr"`
	Meta    map[string]any `json:"meta"`
	A       SeqScenario    `json:"a"`
	B       SeqScenario    `json:"b"`
	Pattern string         `json:"pattern"` // e.g. "abab": whose next row is fed at each step (rest appended)
	Share   bool           `json:"share"`   // B registers the table-source handles that A's RegisterTable returned (one table object, two instances)
	StopA   int            `json:"stop_a"`  // > 0: A is stopped after that many of its rows; B goes on and is the only one judged
	LateB   bool           `json:"late_b"`  // B is created (New + Execute) only when its first row is due, i.e. after A has processed rows
}

// runCollect feeds rows in lock-step to a fresh instance and returns the sequence of delivered batches (abstract JSON).
type pairInst struct {
	s    *streamsql.Streamsql
	in   *Inst
	outs *[]string
	n    int64
	srcs map[string]*stream.MemoryTableSource
}

func newPairInst(sc SeqScenario, shared map[string]*stream.MemoryTableSource) (*pairInst, string) {
	in := NewInst()
	s := newInstance(streamsql.WithDiscardLog())
	if err := s.Execute(sc.SQL); err != nil {
		in.Close()
		return nil, "execute: " + err.Error()
	}
	srcs := map[string]*stream.MemoryTableSource{}
	for _, t := range sc.Tables {
		if src := shared[t.Name]; src != nil {
			if err := s.RegisterTableSource(src); err != nil {
				in.Close()
				return nil, "register shared table: " + err.Error()
			}
			continue
		}
		rows := make([]map[string]any, len(t.Rows))
		for k, r := range t.Rows {
			rows[k] = decodeRow(r)
		}
		src, err := s.RegisterTable(t.Name, rows, t.Keys...)
		if err != nil {
			in.Close()
			return nil, "register table: " + err.Error()
		}
		srcs[t.Name] = src
	}
	st := s.Stream()
	var wany any
	if st.Window != nil {
		wany = st.Window
	}
	in.Bind(st, wany, FieldPtr(wany, "watermark"))
	outs := []string{}
	p := &pairInst{s: s, in: in, outs: &outs, srcs: srcs}
	s.AddSyncSink(func(rs []map[string]any) {
		rows := make([]any, 0, len(rs))
		for _, r := range rs {
			a := AbsRow(r)
			delete(a, "window_id")
			rows = append(rows, a)
		}
		b, _ := json.Marshal(rows)
		in.mu.Lock()
		*p.outs = append(*p.outs, string(b))
		in.mu.Unlock()
	})
	return p, ""
}

func (p *pairInst) feed(r map[string]any) bool {
	p.n++
	p.s.Emit(decodeRow(r))
	w := p.s.Stream().Window
	return p.in.WaitFor(5*time.Second, func() bool {
		if p.in.C("proc.item") < p.n || p.in.C("cw.row") < p.in.C("cw.add") || p.in.C("gw.row") < p.in.C("gw.add") {
			return false
		}
		if w != nil {
			ws := w.GetStats()
			if ws["bufferUsed"] != 0 || p.in.C("proc.batch") < ws["sentCount"] {
				return false
			}
			if p.in.C("tw.trigdone")+p.in.C("sw.trigdone")+p.in.C("ss.trigdone") < p.in.C("wm.sent") {
				return false
			}
		}
		return true
	})
}

func (p *pairInst) close() []string {
	p.s.Stop()
	p.in.Close()
	p.in.mu.Lock()
	defer p.in.mu.Unlock()
	return append([]string(nil), *p.outs...)
}

func runAlone(sc SeqScenario) ([]string, string) {
	p, e := newPairInst(sc, nil)
	if e != "" {
		return nil, e
	}
	for _, r := range sc.Rows {
		if !p.feed(r) {
			p.close()
			return nil, "row not processed"
		}
	}
	return p.close(), ""
}

// runAloneChild runs one instance in a fresh child process (vh alone) and returns its delivered batches.
func runAloneChild(sc SeqScenario) ([]string, string) {
	in, _ := json.Marshal(sc)
	cmd := exec.Command(os.Args[0], "alone")
	cmd.Stdin = bytes.NewReader(in)
	var out bytes.Buffer
	cmd.Stdout = &out
	if err := cmd.Run(); err != nil {
		return nil, "child process: " + err.Error()
	}
	var r struct {
		Outs []string `json:"outs"`
		Err  string   `json:"err"`
	}
	// the engine may print to stdout itself: the result is the last line carrying the marker
	idx := bytes.LastIndex(out.Bytes(), []byte(aloneMarker))
	if idx < 0 {
		return nil, "child output: no result line"
	}
	if err := json.Unmarshal(out.Bytes()[idx+len(aloneMarker):], &r); err != nil {
		return nil, "child output: " + err.Error()
	}
	return r.Outs, r.Err
}

// AloneMain is the child side of runAloneChild: scenario on stdin, {"outs": [...], "err": ""} on stdout.
func AloneMain() {
	var sc SeqScenario
	if err := json.NewDecoder(os.Stdin).Decode(&sc); err != nil {
		os.Stdout.WriteString("\n" + aloneMarker)
		json.NewEncoder(os.Stdout).Encode(map[string]any{"outs": []string{}, "err": "decode: " + err.Error()})
		return
	}
	outs, e := runAlone(sc)
	if outs == nil {
		outs = []string{}
	}
	os.Stdout.WriteString("\n" + aloneMarker)
	json.NewEncoder(os.Stdout).Encode(map[string]any{"outs": outs, "err": e})
}

const aloneMarker = "@@VH-ALONE-RESULT@@"

// RunPair returns one cmp event per instance: outputs alone vs outputs when interleaved with the other instance.
func RunPair(sc PairScenario) ([]Ev, string) {
	evs := []Ev{}
	reset := Ev{"tr": sc.Tr, "e": "reset"}
	for k, v := range sc.Meta {
		reset[k] = v
	}
	evs = append(evs, reset)
	// "alone" = the instance in a process of its own (a child of this driver): no other instance has ever run there,
	// so process-wide state (expression caches, registries) cannot have been shaped by anybody else
	aAlone, e := runAloneChild(sc.A)
	if e != "" {
		return nil, "A alone: " + e
	}
	bAlone, e := runAloneChild(sc.B)
	if e != "" {
		return nil, "B alone: " + e
	}
	pa, e := newPairInst(sc.A, nil)
	if e != "" {
		return nil, e
	}
	var shared map[string]*stream.MemoryTableSource
	if sc.Share {
		shared = pa.srcs
	}
	var pb *pairInst
	if !sc.LateB {
		pb, e = newPairInst(sc.B, shared)
		if e != "" {
			pa.close()
			return nil, e
		}
	}
	lateErr := ""
	ia, ib := 0, 0
	aStopped := false
	step := func(which byte) bool {
		if which == 'a' && ia < len(sc.A.Rows) {
			if sc.StopA > 0 && ia >= sc.StopA {
				if !aStopped {
					aStopped = true
					pa.s.Stop() // the other instance goes on; a table it shares with A stays what it is
				}
				ia++
				return true
			}
			ia++
			return pa.feed(sc.A.Rows[ia-1])
		}
		if which == 'b' && ib < len(sc.B.Rows) {
			if pb == nil {
				pb, lateErr = newPairInst(sc.B, shared)
				if lateErr != "" {
					return false
				}
			}
			ib++
			return pb.feed(sc.B.Rows[ib-1])
		}
		return true
	}
	ok := true
	for i := 0; i < len(sc.Pattern) && ok; i++ {
		ok = step(sc.Pattern[i])
	}
	for ok && ia < len(sc.A.Rows) {
		ok = step('a')
	}
	for ok && ib < len(sc.B.Rows) {
		ok = step('b')
	}
	if lateErr != "" {
		pa.close()
		return nil, lateErr
	}
	if pb == nil { // B has no rows
		pb, e = newPairInst(sc.B, shared)
		if e != "" {
			pa.close()
			return nil, e
		}
	}
	aPair, bPair := pa.close(), pb.close()
	if !ok {
		return nil, "interleaved run: row not processed"
	}
	dec := func(ss []string) []any {
		out := make([]any, len(ss))
		for i, s := range ss {
			var v any
			_ = json.Unmarshal([]byte(s), &v)
			out[i] = v
		}
		return out
	}
	if sc.StopA == 0 {
		evs = append(evs, Ev{"tr": sc.Tr, "e": "cmp", "inst": "a", "same": b2i(equalStrs(aAlone, aPair)), "alone": dec(aAlone), "paired": dec(aPair)})
	}
	evs = append(evs, Ev{"tr": sc.Tr, "e": "cmp", "inst": "b", "same": b2i(equalStrs(bAlone, bPair)), "alone": dec(bAlone), "paired": dec(bPair)})
	evs = append(evs, Ev{"tr": sc.Tr, "e": "quiesce"})
	return evs, ""
}

func equalStrs(a, b []string) bool {
	if len(a) != len(b) {
		return false
	}
	for i := range a {
		if a[i] != b[i] {
			return false
		}
	}
	return true
}
