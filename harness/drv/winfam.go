package drv

import (
	"fmt"
	"sort"
	"strings"
	"time"
)

// WinCfg is the configuration part of a window-family scenario (times in ticks).
type WinCfg struct {
	Kind    string `json:"kind"` // tumbling | sliding | session
	Size    int64  `json:"size"` // size (tumbling/sliding) or timeout (session)
	Slide   int64  `json:"slide"`
	MOO     int64  `json:"moo"`
	AL      int64  `json:"al"`
	Unit    int64  `json:"unit"`    // milliseconds per tick
	Groups  int    `json:"groups"`  // number of group values; group of row id = id mod Groups
	Base    int64  `json:"base"`    // offset added to every timestamp, in ticks (multiple of size*slide)
	Ahead   bool   `json:"ahead"`   // base := now+20h (event time legitimately ahead of the wall clock)
	FloatTs bool   `json:"floatts"` // hand the timestamp in as a float64 (as a JSON decoder does): the same instant
	TwoCol  bool   `json:"twocol"`  // group by TWO columns g, h: a step's group "a/R1" is handed in as g = "a", h = "R1" and reported as "a/R1"
	Idle    int64  `json:"idle"`    // IDLETIMEOUT in milliseconds (0: unset); such scenarios carry wall-clock times (µs) in add / deliver events
}

// WinStep is one scenario step.
type WinStep struct {
	A   string `json:"a"` // add | trig | send
	ID  int64  `json:"id,omitempty"`
	Ts  int64  `json:"ts,omitempty"`
	G   string `json:"g,omitempty"`
	V   int64  `json:"v,omitempty"`
	Fut int    `json:"fut,omitempty"` // 1: timestamp replaced by now+48h (far-future garbage)
	Gap int64  `json:"gap,omitempty"` // add: milliseconds to sleep before the row is handed in (idle-timeout scenarios)
}

// WinScenario is one behaviour of the window model to replay on the real engine.
type WinScenario struct {
	Tr    int       `json:"tr"`
	Cfg   WinCfg    `json:"cfg"`
	Steps []WinStep `json:"steps"`
	Free  bool      `json:"free"`  // free-running: no gates, adds only, quiesce at the end
	Burst bool      `json:"burst"` // free-running with the trigger goroutine held at its gate until every row is in (producer faster than trigger)
	Flush bool      `json:"flush"`
	Perf  *SeqPerf  `json:"perf"` // overflow strategy / buffer sizes / slowed consumer (free-running scenarios)
}

var pfx = map[string]string{"tumbling": "tw", "sliding": "sw", "session": "ss"}

func durStr(ticks, unit int64) string { return fmt.Sprintf("%dms", ticks*unit) }

// WinSQL renders the standard witness query for a window scenario.
func WinSQL(c WinCfg) string {
	var w string
	switch c.Kind {
	case "tumbling":
		w = fmt.Sprintf("TumblingWindow('%s')", durStr(c.Size, c.Unit))
	case "sliding":
		w = fmt.Sprintf("SlidingWindow('%s','%s')", durStr(c.Size, c.Unit), durStr(c.Slide, c.Unit))
	case "session":
		w = fmt.Sprintf("SessionWindow('%s')", durStr(c.Size, c.Unit))
	}
	with := fmt.Sprintf("TIMESTAMP='ts', TIMEUNIT='ms', MAXOUTOFORDERNESS='%s'", durStr(c.MOO, c.Unit))
	if c.AL > 0 {
		with += fmt.Sprintf(", ALLOWEDLATENESS='%s'", durStr(c.AL, c.Unit))
	}
	if c.Idle > 0 {
		with += fmt.Sprintf(", IDLETIMEOUT='%dms'", c.Idle)
	}
	if c.TwoCol {
		return "SELECT g, h, count(*) AS c, sum(v) AS s, collect(id) AS ids, window_start() AS ws, window_end() AS we FROM stream GROUP BY g, h, " + w + " WITH (" + with + ")"
	}
	return "SELECT g, count(*) AS c, sum(v) AS s, collect(id) AS ids, window_start() AS ws, window_end() AS we FROM stream GROUP BY g, " + w + " WITH (" + with + ")"
}

func toI64(v any) (int64, bool) {
	switch x := v.(type) {
	case int:
		return int64(x), true
	case int64:
		return x, true
	case int32:
		return int64(x), true
	case float64:
		if x == float64(int64(x)) {
			return int64(x), true
		}
	case float32:
		if float64(x) == float64(int64(x)) {
			return int64(x), true
		}
	}
	return 0, false
}

// projectRow converts one delivered result row into the trace's abstract form.
// Nanosecond boundaries are split into ticks and a remainder so mis-alignment stays visible.
func projectRow(r map[string]any, unit, base int64) Ev {
	e := Ev{}
	nsPerTick := unit * 1000000
	if g, ok := r["g"].(string); ok {
		e["g"] = g
	} else {
		e["g"] = fmt.Sprintf("?%v", r["g"])
	}
	if h, ok := r["h"]; ok { // two-column key
		e["g"] = fmt.Sprintf("%v/%v", e["g"], h)
	}
	for _, k := range []string{"ws", "we"} {
		if n, ok := toI64(r[k]); ok {
			e[k] = n/nsPerTick - base
			e[k+"r"] = n % nsPerTick
		} else {
			e[k] = -1
			e[k+"r"] = -1
		}
	}
	for _, k := range []string{"c", "s"} {
		if n, ok := toI64(r[k]); ok {
			e[k] = n
		} else {
			e[k] = -999999
		}
	}
	ids := []int64{}
	if l, ok := r["ids"].([]any); ok {
		for _, x := range l {
			if n, ok := toI64(x); ok {
				ids = append(ids, n)
			} else {
				ids = append(ids, -1)
			}
		}
	}
	e["ids"] = ids
	wid, _ := r["window_id"].(string)
	// window_id is "<startNs>_<endNs>": report whether it matches ws/we exactly
	wsn, _ := toI64(r["ws"])
	wen, _ := toI64(r["we"])
	if wid == fmt.Sprintf("%d_%d", wsn, wen) {
		e["wid"] = 1
	} else {
		e["wid"] = 0
	}
	return e
}

// RunWin replays one window scenario on a real instance and returns its trace. When the real
// engine cannot follow the model's schedule (drift), the same inputs are re-run free of gates so
// that the contract monitor still decides on a real execution.
func RunWin(sc WinScenario) (evs []Ev, inconclusive string, drift string) {
	evs, inc := runWin(sc)
	if inc == "" || sc.Free {
		return evs, inc, ""
	}
	fr := sc
	fr.Free = true
	fr.Steps = nil
	for _, st := range sc.Steps {
		if st.A == "add" {
			fr.Steps = append(fr.Steps, st)
		}
	}
	evs, inc2 := runWin(fr)
	return evs, inc2, inc
}

func runWin(sc WinScenario) (evs []Ev, inconclusive string) {
	if sc.Cfg.Ahead {
		period := sc.Cfg.Size
		if sc.Cfg.Slide > 0 {
			period *= sc.Cfg.Slide
		}
		t := time.Now().Add(20*time.Hour).UnixMilli() / sc.Cfg.Unit
		sc.Cfg.Base = t / period * period
	}
	p := pfx[sc.Cfg.Kind]
	var gates []string
	if !sc.Free {
		gates = []string{p + ".trig", p + ".fired"}
		if sc.Cfg.Kind == "tumbling" || sc.Cfg.Kind == "session" { // Add's late re-delivery is sent with the lock released (step "latesend")
			gates = append(gates, p+".late")
		}
		if sc.Cfg.Kind == "sliding" { // the model separates the delivery from taking the lock again (step "relock")
			gates = append(gates, p+".sent")
			gates = append(gates, p+".late") // ... and Add's late re-deliveries, each sent with the lock released (step "latesend")
		}
	} else if sc.Burst {
		gates = []string{p + ".trig"}
	}
	in := NewInst(gates...)
	in.LogHooks = false
	defer in.Close()
	in.OnHook = func(point string, a, b, c int64) Ev {
		if point == p+".trigdone" { // a completed trigger pass: processed watermark (ticks, rounded down)
			return Ev{"tr": sc.Tr, "e": "pwm", "wm": floorDiv(a, sc.Cfg.Unit) - sc.Cfg.Base}
		}
		if !sc.Free && sc.Cfg.Kind == "session" {
			// TraceSessionImpl: live sessions / fired sessions kept open, at the end of Add; sessions collected by a trigger pass
			if point == p+".add" {
				return Ev{"tr": sc.Tr, "e": "h.add", "n": a, "no": b}
			}
			if point == p+".fired" {
				return Ev{"tr": sc.Tr, "e": "h.fired", "wm": floorDiv(a, sc.Cfg.Unit) - sc.Cfg.Base, "n": b}
			}
		}
		if !sc.Free && sc.Cfg.Kind != "session" {
			// the engine's own state at the model's steps (TraceTumblingImpl / TraceSlidingImpl): reported under the window lock
			if point == p+".add" { // rows buffered, start of the current slot (ticks; -1: none yet), fired windows kept open for late rows
				cur := int64(-1)
				if b != -1 {
					cur = floorDiv(b, sc.Cfg.Unit) - sc.Cfg.Base
				}
				return Ev{"tr": sc.Tr, "e": "h.add", "n": a, "cur": cur, "no": c}
			}
			if point == p+".fired" { // the trigger goroutine released the lock for a delivery: end of the fired window, its rows
				return Ev{"tr": sc.Tr, "e": "h.fired", "end": floorDiv(a, sc.Cfg.Unit) - sc.Cfg.Base, "n": b}
			}
		}
		return nil
	}
	s := newInstance(perfOptions(sc.Perf)...)
	sql := WinSQL(sc.Cfg)
	if err := s.Execute(sql); err != nil {
		return nil, "execute: " + err.Error()
	}
	in.S = s
	defer s.Stop()
	w := s.Stream().Window
	in.Bind(s.Stream(), w, FieldPtr(w, "watermark"))
	in.Log(Ev{"tr": sc.Tr, "e": "reset", "kind": sc.Cfg.Kind, "size": sc.Cfg.Size, "slide": sc.Cfg.Slide, "moo": sc.Cfg.MOO, "al": sc.Cfg.AL, "free": b2i(sc.Free), "idle": sc.Cfg.Idle * 1000})
	t00 := time.Now()
	us := func() int64 { return int64(time.Since(t00) / time.Microsecond) }
	s.AddSyncSink(func(rs []map[string]any) {
		if sc.Perf != nil && sc.Perf.SlowSink > 0 {
			time.Sleep(time.Duration(sc.Perf.SlowSink) * time.Microsecond)
		}
		now := us()
		rows := make([]Ev, 0, len(rs))
		for _, r := range rs {
			pr := projectRow(r, sc.Cfg.Unit, sc.Cfg.Base)
			pr["t"] = now
			rows = append(rows, pr)
		}
		sort.Slice(rows, func(i, j int) bool { return rows[i]["g"].(string) < rows[j]["g"].(string) })
		in.Log(Ev{"tr": sc.Tr, "e": "deliver", "rows": rows})
	})
	const T = 5 * time.Second
	nAdd := int64(0)
	delivered := func() bool { // every batch the window sent has been aggregated and handed to the sinks
		st := w.GetStats()
		return st["bufferUsed"] == 0 && in.C("proc.batch") >= st["sentCount"]
	}
	trigBase := int64(0)
	freeTail := false
	for _, st := range sc.Steps {
		switch st.A {
		case "add":
			nAdd++
			g := st.G
			if g == "" {
				g = fmt.Sprintf("g%d", st.ID%int64(max1(sc.Cfg.Groups)))
			}
			v := st.V
			if v == 0 {
				v = st.ID*3 + 1
			}
			if st.Gap > 0 {
				time.Sleep(time.Duration(st.Gap) * time.Millisecond)
			}
			// key tokens: \N = the grouping column is NULL, \M = the row has no grouping column (the NULL key too), \E = the empty text (a key of its own)
			gtok := g
			switch gtok {
			case "\\N", "\\M":
				g = "?<nil>"
			case "\\E":
				g = ""
			}
			in.Log(Ev{"tr": sc.Tr, "e": "add", "id": st.ID, "ts": st.Ts, "g": g, "v": v, "fut": st.Fut, "t": us()})
			tsms := (st.Ts + sc.Cfg.Base) * sc.Cfg.Unit
			if st.Fut == 1 {
				tsms = time.Now().Add(40 * time.Hour).UnixMilli() // beyond now+MOO+24h, yet within 24h of an event time running 20h ahead
			}
			row := map[string]any{"id": st.ID, "ts": tsms, "g": g, "v": v}
			if sc.Cfg.FloatTs {
				row["ts"] = float64(tsms)
			}
			switch gtok {
			case "\\N":
				row["g"] = nil
			case "\\M":
				delete(row, "g")
			}
			if sc.Cfg.TwoCol {
				if k := strings.Index(g, "/"); k >= 0 {
					row["g"], row["h"] = g[:k], g[k+1:]
				} else {
					row["h"] = "-"
				}
			}
			s.Emit(row)
			n := nAdd
			lateGate := p + ".late"
			if !in.WaitFor(T, func() bool { return in.C("proc.item") >= n || in.NWaiting(lateGate) > 0 }) {
				return in.Events(), "add not processed"
			}
			in.mu.Lock()
			parked := len(in.waiting[lateGate]) > 0
			in.mu.Unlock()
			if parked {
				break // the producer is inside Add, parked before a late re-delivery: the model's next steps decide who runs
			}
			if sc.Cfg.Idle > 0 {
				in.Log(Ev{"tr": sc.Tr, "e": "added", "id": st.ID}) // the row has reached the window (and the watermark's idle clock)
			}
			if !sc.Burst && !in.WaitFor(T, delivered) { // late updates are sent from inside Add
				return in.Events(), "late update not consumed"
			}
		case "idlewait":
			// the source falls idle for longer than IDLETIMEOUT: the watermark ticker advances on processing time and flushes the open windows
			time.Sleep(time.Duration(sc.Cfg.Idle)*time.Millisecond + 600*time.Millisecond)
			if !in.WaitFor(T, delivered) {
				return in.Events(), "idle flush not consumed"
			}
			in.Log(Ev{"tr": sc.Tr, "e": "idlewait"})
		case "mtrig":
			// the application flushes the window by hand (TriggerWindow): whatever is open is delivered now
			in.Log(Ev{"tr": sc.Tr, "e": "mtrig"})
			s.TriggerWindow()
			if !in.WaitFor(T, delivered) {
				return in.Events(), "manual flush not consumed"
			}
		case "trig":
			if !in.WaitFor(T, func() bool { return in.NWaiting(p+".trig") > 0 }) {
				return in.Events(), "no trigger pending at trig step"
			}
			in.mu.Lock()
			trigBase = in.count[p+".trigdone"]
			in.mu.Unlock()
			in.Log(Ev{"tr": sc.Tr, "e": "trig"})
			in.Release(p + ".trig")
			b := trigBase
			if !in.WaitFor(T, func() bool { return in.NWaiting(p+".fired") > 0 || in.C(p+".trigdone") > b }) {
				return in.Events(), "trigger did not reach fired/done"
			}
		case "send":
			in.mu.Lock()
			nw := len(in.waiting[p+".fired"])
			b := in.count[p+".trigdone"]
			f := in.arrived[p+".fired"]
			in.mu.Unlock()
			if nw == 0 {
				return in.Events(), "send step but trigger goroutine is not at fired"
			}
			in.Log(Ev{"tr": sc.Tr, "e": "send"})
			in.Release(p + ".fired")
			if sc.Cfg.Kind == "sliding" {
				// the result is handed over; the trigger goroutine waits at its gate before it takes the window lock again
				if !in.WaitFor(T, func() bool { return in.NWaiting(p+".sent") > 0 }) {
					return in.Events(), "send did not reach sent"
				}
			} else if !in.WaitFor(T, func() bool { return in.arrived[p+".fired"] > f || in.C(p+".trigdone") > b }) {
				return in.Events(), "send did not complete"
			}
			if !in.WaitFor(T, delivered) {
				return in.Events(), "delivery not consumed"
			}
		case "freerun":
			// the forced part of the scenario is over: every gate opens for good and the engine runs by itself from here on
			in.Log(Ev{"tr": sc.Tr, "e": "freerun"})
			in.Disarm()
			freeTail = true
		case "latesend":
			lateGate := p + ".late"
			in.mu.Lock()
			nw := len(in.waiting[lateGate])
			a := in.arrived[lateGate]
			in.mu.Unlock()
			if nw == 0 {
				return in.Events(), "latesend step but the producer is not parked at a late re-delivery"
			}
			in.Log(Ev{"tr": sc.Tr, "e": "latesend"})
			in.Release(lateGate)
			n := nAdd
			if !in.WaitFor(T, func() bool { return in.arrived[lateGate] > a || in.C("proc.item") >= n }) {
				return in.Events(), "late re-delivery did not complete"
			}
			if !in.WaitFor(T, delivered) {
				return in.Events(), "late update not consumed"
			}
		case "relock":
			in.mu.Lock()
			nw := len(in.waiting[p+".sent"])
			b := in.count[p+".trigdone"]
			f := in.arrived[p+".fired"]
			in.mu.Unlock()
			if nw == 0 {
				return in.Events(), "relock step but trigger goroutine is not at sent"
			}
			in.Log(Ev{"tr": sc.Tr, "e": "relock"})
			in.Release(p + ".sent")
			if !in.WaitFor(T, func() bool { return in.arrived[p+".fired"] > f || in.C(p+".trigdone") > b }) {
				return in.Events(), "relock did not complete"
			}
		}
	}
	if sc.Burst {
		// let the stalled trigger goroutine go and give the watermark ticker (200ms) time to re-send a watermark
		// that did not fit into the full channel
		in.Disarm()
		time.Sleep(650 * time.Millisecond)
	}
	if sc.Cfg.Idle > 0 {
		// let the source fall idle: the watermark ticker (200ms) then advances on processing time and flushes the open windows
		time.Sleep(time.Duration(sc.Cfg.Idle)*time.Millisecond + 500*time.Millisecond)
	}
	if sc.Free || freeTail {
		// quiescence: all rows ingested, every sent watermark processed, all batches consumed
		ok := in.WaitFor(T, func() bool {
			return in.C("proc.item") >= nAdd && in.C(p+".trigdone") >= in.C("wm.sent") && delivered()
		})
		if !ok {
			return in.Events(), "no quiescence"
		}
	}
	in.Log(Ev{"tr": sc.Tr, "e": "quiesce"})
	if in.Stuck {
		return in.Events(), "a gate timed out"
	}
	return in.Events(), ""
}

func floorDiv(a, b int64) int64 {
	q := a / b
	if (a%b != 0) && ((a < 0) != (b < 0)) {
		q--
	}
	return q
}

func b2i(b bool) int {
	if b {
		return 1
	}
	return 0
}
func max1(n int) int {
	if n < 1 {
		return 1
	}
	return n
}
