package drv

import (
	"encoding/json"
	"fmt"
	"math/rand"
	"os"
	"regexp"
	"runtime"
	"runtime/debug"
	"sort"
	"strings"
	"sync"
	"time"

	"github.com/rulego/streamsql"
	"github.com/rulego/streamsql/schema"
	"github.com/rulego/streamsql/stream"
	"github.com/rulego/streamsql/types"
)

// SeqScenario is a sequential (single producer, lock-step) scenario for any query kind.
type SeqScenario struct {
	Tr         int               `json:"tr"`
	Meta       map[string]any    `json:"meta"` // copied onto the reset line for the TLA+ monitor
	SQL        string            `json:"sql"`
	Mode       string            `json:"mode"`    // emit (default) | sync
	Rows       []map[string]any  `json:"rows"`    // typed input rows (see Decode)
	MaxPar     int               `json:"maxpart"` // WithAnalyticMaxPartitions when > 0
	Chan       bool              `json:"chan"`    // also read ToChannel()
	ChanHold   bool              `json:"chanhold"` // the channel reader starts only when every row has been processed (a consumer that falls behind: the engine may shed whole batches, never merge or split them)
	Stop       bool              `json:"stop"`    // call Stop before the quiesce event (CEP flush)
	Sort       string            `json:"sort"`    // sort delivered rows of a batch by this column (when the statement leaves order open)
	Tables     []SeqTable        `json:"tables"`
	Burst      bool              `json:"burst"`      // emit every row without waiting in between (ordering / conservation); quiesce once at the end
	Hold       string            `json:"hold"`       // burst only: name of a hook point at which the engine goroutine is held until every row has been handed in
	Perf       *SeqPerf          `json:"perf"`       // custom performance configuration
	Ops        []SeqOp           `json:"ops"`        // optional explicit operation list (JOIN scenarios); when empty: emit every row
	GapMs      int64             `json:"gap_ms"`     // STATETTL scenarios: real-time pause before every row
	TTLMs      int64             `json:"ttl_ms"`     // STATETTL of the query: the trace is voided when the driver itself let a group idle too long
	Span       int               `json:"span"`       // rows of one group are at most this many positions apart
	MaxGap     int64             `json:"max_gap_ms"` // real-time scenarios: two rows handed in one after the other (no sleep between them) must not be further apart; else the trace is void
	Reuse      bool              `json:"reuse"`      // the producer re-uses ONE map object for all its rows (cleared and refilled before each call)
	ConcSync   int               `json:"concsync"`   // direct queries: this many goroutines call EmitSync on the rows at the same time (each result is judged against its own row)
	Conc       bool              `json:"conc"`       // JOIN scenarios: table updates run in a goroutine of their own, concurrently with EmitSync callers
	Seed       int64             `json:"seed"`
	PrintTable bool              `json:"printtable"` // PrintTable() switched on next to the other consumers (it is a sink like any other: it only reads)
	ColMap     map[string]string `json:"colmap"`     // data columns handed to the engine under other names (orig -> new); the trace keeps the original names
	SchemaReq  []string          `json:"schema_req"` // fields of Schema that are Required as well (a default suppresses the required-missing error)
	Schema     map[string]any    `json:"schema"`     // WithSchema: field name -> default value (typed, see Decode) for rows that lack the field; the caller's map stays as it was
}

// SeqPerf selects buffer sizes and the overflow strategy.
type SeqPerf struct {
	Strategy string  `json:"strategy"`
	Data     int     `json:"data"`
	Max      int     `json:"max"`
	MinInc   int     `json:"mininc"`
	Growth   float64 `json:"growth"`
	Thresh   float64 `json:"thresh"`
	BlockMs  int     `json:"blockms"`
	SlowSink int     `json:"slowsink"` // microseconds the sync sink sleeps per batch (consumer slower than producer)
	WinOut   int     `json:"winout"`   // window output buffer size
	ResChan  int     `json:"reschan"`  // result channel size
}

// perfOptions turns a SeqPerf into instance options (nil: defaults).
func perfOptions(p *SeqPerf) []streamsql.Option {
	if p == nil {
		return nil
	}
	pc := types.DefaultPerformanceConfig()
	if p.Strategy != "" {
		pc.OverflowConfig.Strategy = p.Strategy
	}
	if p.Data > 0 {
		pc.BufferConfig.DataChannelSize = p.Data
	}
	if p.Max > 0 {
		pc.BufferConfig.MaxBufferSize = p.Max
	}
	if p.WinOut > 0 {
		pc.BufferConfig.WindowOutputSize = p.WinOut
	}
	if p.ResChan > 0 {
		pc.BufferConfig.ResultChannelSize = p.ResChan
	}
	if p.MinInc > 0 {
		pc.OverflowConfig.ExpansionConfig.MinIncrement = p.MinInc
	}
	if p.Growth > 0 {
		pc.OverflowConfig.ExpansionConfig.GrowthFactor = p.Growth
	}
	if p.Thresh > 0 {
		pc.OverflowConfig.ExpansionConfig.TriggerThreshold = p.Thresh
	}
	pc.OverflowConfig.BlockTimeout = time.Duration(p.BlockMs) * time.Millisecond
	return []streamsql.Option{streamsql.WithCustomPerformance(pc)}
}

// SeqTable registers an in-memory table before rows flow.
type SeqTable struct {
	Name string           `json:"name"`
	Rows []map[string]any `json:"rows"`
	Keys []string         `json:"keys"`
}

// SeqOp is one step of an explicit operation list.
type SeqOp struct {
	Op    string           `json:"op"` // emit | sync | stats | upsert | delete | register (a table registered again under its name, replacing the earlier one)
	Rows  []map[string]any `json:"rows"`
	Keys  []string         `json:"keys"`
	Ms    int64            `json:"ms"` // sleep: milliseconds of real time
	Row   map[string]any   `json:"row"`
	Table string           `json:"table"`
	Key   []any            `json:"key"`
	Table2 string           `json:"table2"` // regrace: the table registered while Table's source is still loading
	Rows2  []map[string]any `json:"rows2"`
}

// slowSource is a user-defined table source whose Init takes its time (a file or database load): it reports when Init has begun
// and finishes it when told to.
type slowSource struct {
	stream.TableSource
	entered, release chan struct{}
}

func (x *slowSource) Init() error {
	close(x.entered)
	<-x.release
	return x.TableSource.Init()
}

// unmapRow gives a logged row its original column names back (whole-word, also inside derived names such as "abs(xor)").
func unmapRow(cm map[string]string, r map[string]any) map[string]any {
	if len(cm) == 0 {
		return r
	}
	out := make(map[string]any, len(r))
	for k, v := range r {
		for orig, nw := range cm {
			if k == nw {
				k = orig
				break
			}
			if strings.Contains(k, nw) {
				k = regexp.MustCompile(`\b`+regexp.QuoteMeta(nw)+`\b`).ReplaceAllString(k, orig)
			}
		}
		out[k] = v
	}
	return out
}

func decodeRow(r map[string]any) map[string]any {
	m, _ := Decode(map[string]any(r)).(map[string]any)
	if m == nil {
		m = map[string]any{}
	}
	return m
}

// RunSeq executes a sequential scenario on a fresh real instance.
func RunSeq(sc SeqScenario) (evs []Ev, inconclusive string) {
	registerBoom() // vboom(x): a user function that panics when x = 3 (scenarios with a "poison" value)
	var gates []string
	if sc.Hold != "" {
		gates = []string{sc.Hold}
	}
	in := NewInst(gates...)
	defer in.Close()
	var opts []streamsql.Option
	if sc.MaxPar > 0 {
		opts = append(opts, streamsql.WithAnalyticMaxPartitions(sc.MaxPar))
	}
	opts = append(opts, perfOptions(sc.Perf)...)
	if len(sc.Schema) > 0 {
		sch := schema.Schema{Name: "in"}
		for _, name := range sortedKeys(sc.Schema) {
			req := false
			for _, r := range sc.SchemaReq {
				req = req || r == name
			}
			sch.Fields = append(sch.Fields, schema.FieldDef{Name: name, Type: schema.TypeAny, Required: req, Default: Decode(sc.Schema[name])})
		}
		opts = append(opts, streamsql.WithSchema(sch))
	}
	cl := &capLog{}
	opts = append(opts, streamsql.WithLogger(cl))
	s := newInstance(opts...)
	reset := Ev{"tr": sc.Tr, "e": "reset"}
	for k, v := range sc.Meta {
		reset[k] = v
	}
	in.Log(reset)
	if err := s.Execute(sc.SQL); err != nil {
		in.Log(Ev{"tr": sc.Tr, "e": "execerr", "err": err.Error()})
		in.Log(Ev{"tr": sc.Tr, "e": "quiesce"})
		return in.Events(), ""
	}
	in.S = s
	stopped := false
	defer func() {
		if !stopped {
			s.Stop()
		}
	}()
	st := s.Stream()
	w := st.Window
	var wany any
	if w != nil {
		wany = w
	}
	in.Bind(st, wany, FieldPtr(wany, "watermark"))
	srcs := map[string]*stream.MemoryTableSource{}
	for _, t := range sc.Tables {
		rows := make([]map[string]any, len(t.Rows))
		for i, r := range t.Rows {
			rows[i] = decodeRow(r)
		}
		src, err := s.RegisterTable(t.Name, rows, t.Keys...)
		srcs[t.Name] = src
		arows := make([]any, len(rows))
		for i, r := range rows {
			arows[i] = AbsRow(r)
		}
		in.Log(Ev{"tr": sc.Tr, "e": "table", "name": t.Name, "rows": arows})
		if err != nil {
			in.Log(Ev{"tr": sc.Tr, "e": "execerr", "err": "table: " + err.Error()})
			in.Log(Ev{"tr": sc.Tr, "e": "quiesce"})
			return in.Events(), ""
		}
	}
	var delivered []map[string]any // engine-owned result maps as handed to the sink
	var snaps []string
	var batches [][]map[string]any // engine-owned batch slices as handed to the sink
	var batchSnaps []string
	project := func(rs []map[string]any) []any {
		rows := make([]any, 0, len(rs))
		for _, r := range rs {
			rows = append(rows, unmapRow(sc.ColMap, AbsRow(r)))
		}
		if sc.Sort != "" {
			sort.SliceStable(rows, func(i, j int) bool {
				a, _ := json.Marshal(rows[i].(map[string]any)[sc.Sort])
				b, _ := json.Marshal(rows[j].(map[string]any)[sc.Sort])
				return string(a) < string(b)
			})
		}
		return rows
	}
	s.AddSyncSink(func(rs []map[string]any) {
		if sc.Perf != nil && sc.Perf.SlowSink > 0 {
			time.Sleep(time.Duration(sc.Perf.SlowSink) * time.Microsecond)
		}
		rows := project(rs)
		in.mu.Lock()
		for _, r := range rs {
			delivered = append(delivered, r)
			b, _ := json.Marshal(AbsRow(r))
			snaps = append(snaps, string(b))
		}
		// the batch itself (the slice the sink was handed): a sink that keeps it must find the same rows in it later
		batches = append(batches, rs)
		bb, _ := json.Marshal(rows)
		batchSnaps = append(batchSnaps, string(bb))
		in.events = append(in.events, Ev{"tr": sc.Tr, "e": "out", "rows": rows})
		in.mu.Unlock()
	})
	if sc.PrintTable {
		s.PrintTable()
	}
	chDone := make(chan struct{})
	chGo := make(chan struct{})
	if !sc.ChanHold {
		close(chGo)
	}
	if sc.Chan {
		ch := s.ToChannel()
		go func() {
			select {
			case <-chGo:
			case <-chDone:
				return
			}
			for {
				select {
				case rs := <-ch:
					in.Log(Ev{"tr": sc.Tr, "e": "chan", "rows": project(rs)})
				case <-chDone:
					return
				}
			}
		}()
	}
	defer close(chDone)
	const T = 5 * time.Second
	nEmit := int64(0)
	quiet := func() bool {
		// rows the engine itself reports as dropped at its input will never be processed: the run still comes to rest and the
		// monitor decides whether the configuration allowed that
		if in.C("proc.item")+s.GetStats()["input_dropped_count"] < nEmit || in.C("cw.row") < in.C("cw.add") || in.C("gw.row") < in.C("gw.add") {
			return false
		}
		if w != nil {
			ws := w.GetStats()
			if ws["bufferUsed"] != 0 || in.C("proc.batch") < ws["sentCount"] {
				return false
			}
			if in.C("tw.trigdone")+in.C("sw.trigdone")+in.C("ss.trigdone") < in.C("wm.sent") {
				return false
			}
		}
		return true
	}
	if sc.Conc {
		return runConc(sc, in, s, srcs), ""
	}
	if sc.ConcSync > 0 {
		return runConcSync(sc, in, s), ""
	}
	ops := sc.Ops
	if len(ops) == 0 {
		for _, r := range sc.Rows {
			op := "emit"
			if sc.Mode == "sync" {
				op = "sync"
			}
			ops = append(ops, SeqOp{Op: op, Row: r})
		}
	}
	type held struct {
		orig map[string]any
		snap map[string]any
		i    int
	}
	var handed []held
	var emitTimes []time.Time
	var reused map[string]any
	var lastEmit time.Time
	for i, op := range ops {
		switch op.Op {
		case "emit", "sync":
			row := decodeRow(op.Row)
			if sc.Reuse {
				if reused == nil {
					reused = map[string]any{}
				}
				for k := range reused {
					delete(reused, k)
				}
				for k, v := range row {
					reused[k] = v
				}
				row = reused
			}
			snap, _ := DeepCopy(row).(map[string]any)
			handed = append(handed, held{row, snap, i + 1})
			in.Log(Ev{"tr": sc.Tr, "e": "in", "i": i + 1, "op": op.Op, "row": unmapRow(sc.ColMap, AbsRow(row))})
			if op.Op == "sync" {
				res, err, pan := callSync(s, row)
				e := Ev{"tr": sc.Tr, "e": "ret", "i": i + 1, "panic": pan}
				if err != nil {
					e["err"] = 1
				} else {
					e["err"] = 0
				}
				if res != nil {
					e["row"] = unmapRow(sc.ColMap, AbsRow(res))
					e["has"] = 1
				} else {
					e["has"] = 0
				}
				in.Log(e)
			} else {
				if sc.GapMs > 0 {
					time.Sleep(time.Duration(sc.GapMs) * time.Millisecond)
				}
				if sc.TTLMs > 0 {
					// a group idle for longer than the STATETTL may legitimately be reaped: if this driver (not the engine) let that
					// happen - CPU starvation - the trace decides nothing
					now := time.Now()
					emitTimes = append(emitTimes, now)
					span := sc.Span
					if span < 1 {
						span = 1
					}
					if k := len(emitTimes) - 1 - span; k >= 0 && now.Sub(emitTimes[k]) > time.Duration(sc.TTLMs)*time.Millisecond*7/10 {
						in.Log(Ev{"tr": sc.Tr, "e": "void", "why": "driver paused longer than 0.7 STATETTL between rows of a group"})
					}
				}
				if sc.MaxGap > 0 {
					now := time.Now()
					if !lastEmit.IsZero() && now.Sub(lastEmit) > time.Duration(sc.MaxGap)*time.Millisecond {
						in.Log(Ev{"tr": sc.Tr, "e": "void", "why": "driver could not keep its real-time schedule (CPU starvation)"})
					}
					lastEmit = now
				}
				nEmit++
				s.Emit(row)
				if sc.Hold != "" && nEmit == 1 {
					// the goroutine that is to be held takes the FIRST row and parks with it (it holds no reference to the input
					// buffer there); only then does the producer run ahead
					hold := sc.Hold
					in.WaitFor(2*time.Second, func() bool { return in.NWaiting(hold) > 0 })
					in.mu.Lock()
					in.Stuck = false // not reaching the gate is not a fault of the engine: the burst simply runs without the hold
					in.mu.Unlock()
				}
				if !sc.Burst && !in.WaitFor(T, quiet) {
					if ps := cl.Panics(); len(ps) > 0 { // the engine lost the row / batch in a panic of its own goroutine: a verdict, not a timeout
						in.Log(Ev{"tr": sc.Tr, "e": "panic", "where": "engine goroutine (recovered)", "msg": ps[0]})
						in.Log(Ev{"tr": sc.Tr, "e": "quiesce"})
						return in.Events(), ""
					}
					return in.Events(), fmt.Sprintf("row %d not fully processed", i+1)
				}
			}
		case "sleep":
			time.Sleep(time.Duration(op.Ms) * time.Millisecond)
			lastEmit = time.Time{}
		case "register":
			rows := make([]map[string]any, len(op.Rows))
			arows := make([]any, len(op.Rows))
			for k, r := range op.Rows {
				rows[k] = decodeRow(r)
				arows[k] = AbsRow(rows[k])
			}
			src, err := s.RegisterTable(op.Table, rows, op.Keys...)
			if err == nil {
				srcs[op.Table] = src
			}
			in.Log(Ev{"tr": sc.Tr, "e": "table", "name": op.Table, "rows": arows, "err": b2i(err != nil)})
		case "regrace":
			// two registrations that overlap: Table's (user-defined) source is still inside Init when Table2 is registered and that call
			// returns; once both calls have returned both tables hold their new contents
			rows := make([]map[string]any, len(op.Rows))
			arows := make([]any, len(op.Rows))
			for k, r := range op.Rows {
				rows[k] = decodeRow(r)
				arows[k] = AbsRow(rows[k])
			}
			rows2 := make([]map[string]any, len(op.Rows2))
			arows2 := make([]any, len(op.Rows2))
			for k, r := range op.Rows2 {
				rows2[k] = decodeRow(r)
				arows2[k] = AbsRow(rows2[k])
			}
			slow := &slowSource{TableSource: stream.NewMemoryTableSource(op.Table, op.Keys, rows), entered: make(chan struct{}), release: make(chan struct{})}
			errc := make(chan error, 1)
			go func() { errc <- s.RegisterTableSource(slow) }()
			var err1, err2 error
			select {
			case <-slow.entered:
				src2, e2 := s.RegisterTable(op.Table2, rows2)
				err2 = e2
				if e2 == nil {
					srcs[op.Table2] = src2
				}
				close(slow.release)
				err1 = <-errc
			case err1 = <-errc: // the registration never called Init (refused)
				close(slow.release)
			case <-time.After(3 * time.Second):
				close(slow.release)
				err1 = <-errc
			}
			delete(srcs, op.Table) // (a user-defined source: no Delete through the driver)
			in.Log(Ev{"tr": sc.Tr, "e": "table", "name": op.Table, "rows": arows, "err": b2i(err1 != nil)})
			in.Log(Ev{"tr": sc.Tr, "e": "table", "name": op.Table2, "rows": arows2, "err": b2i(err2 != nil)})
		case "reregsrc":
			// the SAME source object handed to RegisterTableSource once more (as a second query sharing the table would do): its
			// contents, updates included, stay what they are
			if src := srcs[op.Table]; src != nil {
				err := s.RegisterTableSource(src)
				in.Log(Ev{"tr": sc.Tr, "e": "reregsrc", "name": op.Table, "err": b2i(err != nil)})
			}
		case "stats":
			// the application reads and resets the statistics (monitoring calls: what the windows hold and report stays what it is)
			_ = s.GetStats()
			_ = s.GetDetailedStats()
			if st := s.Stream(); st != nil {
				st.ResetStats()
			}
		case "upsert":
			err := s.UpsertTable(op.Table, decodeRow(op.Row))
			in.Log(Ev{"tr": sc.Tr, "e": "upsert", "i": i + 1, "table": op.Table, "row": AbsRow(decodeRow(op.Row)), "err": b2i(err != nil)})
		case "delete":
			key := make([]any, len(op.Key))
			for k, v := range op.Key {
				key[k] = Decode(v)
			}
			ok := srcs[op.Table] != nil
			if ok {
				if len(key) == 1 {
					srcs[op.Table].Delete(key[0])
				} else {
					srcs[op.Table].Delete(key)
				}
			}
			ak := make([]any, len(key))
			for k, v := range key {
				ak[k] = Abs(v)
			}
			in.Log(Ev{"tr": sc.Tr, "e": "delete", "i": i + 1, "table": op.Table, "key": ak, "ok": b2i(ok)})
		}
	}
	if sc.Hold != "" {
		// the producer has run ahead of the held goroutine as far as the engine lets it; now let the engine catch up
		time.Sleep(100 * time.Millisecond)
		in.Disarm()
	}
	if !in.WaitFor(T, quiet) && !idleStall(in, s) {
		if ps := cl.Panics(); len(ps) > 0 {
			in.Log(Ev{"tr": sc.Tr, "e": "panic", "where": "engine goroutine (recovered)", "msg": ps[0]})
			in.Log(Ev{"tr": sc.Tr, "e": "quiesce"})
			return in.Events(), ""
		}
		return in.Events(), "no quiescence"
	}
	if ps := cl.Panics(); len(ps) > 0 {
		in.Log(Ev{"tr": sc.Tr, "e": "panic", "where": "engine goroutine (recovered)", "msg": ps[0]})
	}
	if sc.ChanHold {
		close(chGo) // the lagging consumer finally reads what the channel still holds
		time.Sleep(150 * time.Millisecond)
	}
	if sc.Chan && !sc.ChanHold { // let the channel reader catch up: one batch per sink delivery (unless the engine dropped some: bounded wait)
		in.WaitFor(500*time.Millisecond, func() bool {
			no, nc := 0, 0
			for _, e := range in.events {
				switch e["e"] {
				case "out":
					no++
				case "chan":
					nc++
				}
			}
			return nc >= no
		})
	}
	if sc.Stop {
		in.Log(Ev{"tr": sc.Tr, "e": "stop"})
		s.Stop()
		stopped = true
		in.Log(Ev{"tr": sc.Tr, "e": "stopped"})
	}
	if sc.PrintTable {
		time.Sleep(150 * time.Millisecond) // the asynchronous table printer has worked off its tasks
	}
	// C20: caller maps untouched; delivered rows not altered afterwards
	for _, h := range handed {
		if sc.Reuse {
			break // the producer itself rewrites its one map
		}
		a, r, c := DiffKeys(h.snap, h.orig)
		if len(a)+len(r)+len(c) > 0 {
			in.Log(Ev{"tr": sc.Tr, "e": "callermut", "i": h.i, "added": a, "removed": r, "changed": c})
		}
	}
	in.mu.Lock()
	nm := 0
	for i, r := range delivered {
		b, _ := json.Marshal(AbsRow(r))
		if string(b) != snaps[i] {
			nm++
		}
	}
	for i, rs := range batches {
		bb, _ := json.Marshal(project(rs))
		if string(bb) != batchSnaps[i] {
			nm++
		}
	}
	in.mu.Unlock()
	if nm > 0 {
		in.Log(Ev{"tr": sc.Tr, "e": "sinkmut", "n": nm})
	}
	in.Log(Ev{"tr": sc.Tr, "e": "quiesce"})
	return in.Events(), ""
}

func callSync(s *streamsql.Streamsql, row map[string]any) (res map[string]any, err error, pan int) {
	defer func() {
		if r := recover(); r != nil {
			pan = 1
			_ = debug.Stack()
		}
	}()
	res, err = s.EmitSync(row)
	return
}

// runConc: one goroutine applies the scenario's upsert / delete operations in order while two others push its rows through
// EmitSync; every call is bracketed by a line logged BEFORE the call and one logged AFTER its return (one lock orders the lines).
func runConc(sc SeqScenario, in *Inst, s *streamsql.Streamsql, srcs map[string]*stream.MemoryTableSource) []Ev {
	var ups, rows []SeqOp
	for _, op := range sc.Ops {
		if op.Op == "upsert" || op.Op == "delete" {
			ups = append(ups, op)
		} else {
			rows = append(rows, op)
		}
	}
	var wg sync.WaitGroup
	jitter := func(r *rand.Rand) {
		switch r.Intn(4) {
		case 0:
			runtime.Gosched()
		case 1:
			time.Sleep(time.Duration(r.Intn(200)) * time.Microsecond)
		}
	}
	wg.Add(1)
	go func() {
		defer wg.Done()
		r := rand.New(rand.NewSource(sc.Seed))
		for i, op := range ups {
			jitter(r)
			if op.Op == "upsert" {
				row := decodeRow(op.Row)
				in.Log(Ev{"tr": sc.Tr, "e": "ucall", "i": i + 1, "op": "upsert", "table": op.Table, "row": AbsRow(row)})
				_ = s.UpsertTable(op.Table, row)
			} else {
				key := make([]any, len(op.Key))
				ak := make([]any, len(op.Key))
				for k, v := range op.Key {
					key[k] = Decode(v)
					ak[k] = Abs(key[k])
				}
				in.Log(Ev{"tr": sc.Tr, "e": "ucall", "i": i + 1, "op": "delete", "table": op.Table, "key": ak})
				if src := srcs[op.Table]; src != nil {
					if len(key) == 1 {
						src.Delete(key[0])
					} else {
						src.Delete(key)
					}
				}
			}
			in.Log(Ev{"tr": sc.Tr, "e": "uret", "i": i + 1})
		}
	}()
	for w := 0; w < 2; w++ {
		wg.Add(1)
		go func(w int) {
			defer wg.Done()
			r := rand.New(rand.NewSource(sc.Seed + int64(w) + 1))
			for i := w; i < len(rows); i += 2 {
				jitter(r)
				row := decodeRow(rows[i].Row)
				in.Log(Ev{"tr": sc.Tr, "e": "rcall", "id": i + 1, "row": AbsRow(row)})
				res, err, pan := callSync(s, row)
				e := Ev{"tr": sc.Tr, "e": "rret", "id": i + 1, "panic": pan, "err": b2i(err != nil), "has": b2i(res != nil)}
				if res != nil {
					e["row"] = AbsRow(res)
				}
				in.Log(e)
			}
		}(w)
	}
	wg.Wait()
	in.Log(Ev{"tr": sc.Tr, "e": "quiesce"})
	evs := []Ev{}
	for _, e := range in.Events() {
		if e["e"] != "out" { // sink deliveries are not ordered against the brackets; the returned row is what is judged
			evs = append(evs, e)
		}
	}
	return evs
}

// runConcSync lets several goroutines call EmitSync at the same time; every returned row is logged together with the row that went in
// ("cret"), so that the monitor can judge it on its own - the result of a row is a function of that row only.
func runConcSync(sc SeqScenario, in *Inst, s *streamsql.Streamsql) []Ev {
	var wg sync.WaitGroup
	n := sc.ConcSync
	for w := 0; w < n; w++ {
		wg.Add(1)
		go func(w int) {
			defer wg.Done()
			r := rand.New(rand.NewSource(sc.Seed + int64(w) + 1))
			for rep := 0; rep < 6; rep++ { // every row several times: overlap is what matters
				for i := w; i < len(sc.Rows); i += n {
					if r.Intn(3) == 0 {
						runtime.Gosched()
					}
					row := decodeRow(sc.Rows[i])
					arow := unmapRow(sc.ColMap, AbsRow(row))
					res, err, pan := callSync(s, row)
					e := Ev{"tr": sc.Tr, "e": "cret", "i": i + 1, "in": arow, "panic": pan, "err": b2i(err != nil), "has": b2i(res != nil)}
					if res != nil {
						e["row"] = unmapRow(sc.ColMap, AbsRow(res))
					}
					in.Log(e)
				}
			}
		}(w)
	}
	wg.Wait()
	in.Log(Ev{"tr": sc.Tr, "e": "quiesce"})
	evs := []Ev{}
	for _, e := range in.Events() {
		if e["e"] != "out" && e["e"] != "chan" {
			evs = append(evs, e)
		}
	}
	return evs
}

// idleStall reports that the instance has come to rest although the driver's accounting does not add up (e.g. the engine merged or lost
// batches): every queue of the engine is empty and no hook counter has moved for 3 s. The run is then conclusive - the monitor decides.
func idleStall(in *Inst, s *streamsql.Streamsql) bool {
	snap := func() (int64, bool) {
		in.mu.Lock()
		sum := int64(0)
		for _, k := range []string{"proc.item", "proc.batch", "cw.add", "cw.row", "gw.add", "gw.row", "tw.add", "sw.add", "ss.add"} { // (periodic hooks keep ticking)
			sum += in.count[k]
		}
		in.mu.Unlock()
		st := s.GetStats()
		empty := st["data_chan_len"] == 0 && st["sink_pool_len"] == 0 && st["bufferUsed"] == 0 // (the result channel keeps what nobody reads)
		return sum, empty
	}
	last, empty := snap()
	if !empty {
		if os.Getenv("VH_DEBUG") != "" {
			fmt.Fprintf(os.Stderr, "idleStall: queues not empty: %v\n", s.GetStats())
		}
		return false
	}
	for i := 0; i < 30; i++ {
		time.Sleep(100 * time.Millisecond)
		cur, e := snap()
		if !e || cur != last {
			return false
		}
	}
	in.Stuck = false
	return true
}

func sortedKeys(m map[string]any) []string {
	ks := make([]string, 0, len(m))
	for k := range m {
		ks = append(ks, k)
	}
	sort.Strings(ks)
	return ks
}
