package drv

import (
	"encoding/json"
	"fmt"
	"math"
	"reflect"
	"sort"
	"strconv"
	"time"
)

// Decode turns a scenario value (JSON with optional type tags) into the Go value handed to the engine.
// {"$i":5} int, {"$i8":..} ... {"$i64":..}, {"$u":..} ... {"$u64":..}, {"$f":2.5} float64, {"$f32":..},
// {"$nan":1}, {"$inf":1|-1}, {"$big":"9007199254740993","t":"int64|uint64"}; other objects are nested maps.
func Decode(v any) any {
	switch x := v.(type) {
	case map[string]any:
		if len(x) <= 2 {
			for k, a := range x {
				if len(k) > 1 && k[0] == '$' {
					return decodeTagged(k[1:], a, x)
				}
			}
		}
		m := make(map[string]any, len(x))
		for k, a := range x {
			m[k] = Decode(a)
		}
		return m
	case []any:
		l := make([]any, len(x))
		for i, a := range x {
			l[i] = Decode(a)
		}
		return l
	case float64:
		if x == math.Trunc(x) && math.Abs(x) < 1e15 {
			return int(x)
		}
		return x
	}
	return v
}

func decodeTagged(tag string, a any, whole map[string]any) any {
	f, _ := a.(float64)
	switch tag {
	case "i":
		return int(f)
	case "i8":
		return int8(f)
	case "i16":
		return int16(f)
	case "i32":
		return int32(f)
	case "i64":
		return int64(f)
	case "u":
		return uint(f)
	case "u8":
		return uint8(f)
	case "u16":
		return uint16(f)
	case "u32":
		return uint32(f)
	case "u64":
		return uint64(f)
	case "f":
		return f
	case "f32":
		return float32(f)
	case "nan":
		return math.NaN()
	case "inf":
		return math.Inf(int(f))
	case "big":
		s, _ := a.(string)
		if t, _ := whole["t"].(string); t == "uint64" {
			n, _ := strconv.ParseUint(s, 10, 64)
			return n
		}
		n, _ := strconv.ParseInt(s, 10, 64)
		return n
	case "time":
		return time.UnixMilli(int64(f)).UTC()
	}
	return a
}

const fixScale = 10000

// Abs projects an engine value to the abstract form the TLA+ monitors read.
func Abs(v any) any {
	if v == nil {
		return map[string]any{"k": "null"}
	}
	switch x := v.(type) {
	case bool:
		return map[string]any{"k": "bool", "v": x}
	case string:
		m := map[string]any{"k": "str", "v": x}
		if rs := []rune(x); len(rs) <= 40 { // characters as a sequence: TLA+ cannot look inside strings
			cs := make([]string, len(rs))
			for i, r := range rs {
				cs[i] = string(r)
			}
			m["cs"] = cs
		}
		return m
	case time.Time:
		return map[string]any{"k": "time", "v": x.UnixMilli()}
	case json.Number:
		f, _ := x.Float64()
		return absNum(f, "f")
	}
	rv := reflect.ValueOf(v)
	switch rv.Kind() {
	case reflect.Int, reflect.Int8, reflect.Int16, reflect.Int32, reflect.Int64:
		n := rv.Int()
		if n > -200000 && n < 200000 {
			return map[string]any{"k": "num", "v": n * fixScale, "c": n * 100, "t": "i"}
		}
		return map[string]any{"k": "big", "v": strconv.FormatInt(n, 10), "t": "i"}
	case reflect.Uint, reflect.Uint8, reflect.Uint16, reflect.Uint32, reflect.Uint64:
		n := rv.Uint()
		if n < 200000 {
			return map[string]any{"k": "num", "v": int64(n) * fixScale, "c": int64(n) * 100, "t": "i"}
		}
		return map[string]any{"k": "big", "v": strconv.FormatUint(n, 10), "t": "i"}
	case reflect.Float32, reflect.Float64:
		return absNum(rv.Float(), "f")
	case reflect.Slice, reflect.Array:
		l := make([]any, rv.Len())
		for i := range l {
			l[i] = Abs(rv.Index(i).Interface())
		}
		return map[string]any{"k": "list", "v": l}
	case reflect.Map:
		m := map[string]any{}
		for _, k := range rv.MapKeys() {
			m[fmt.Sprint(k.Interface())] = Abs(rv.MapIndex(k).Interface())
		}
		return map[string]any{"k": "map", "v": m}
	case reflect.Ptr, reflect.Interface:
		if rv.IsNil() {
			return map[string]any{"k": "null"}
		}
		return Abs(rv.Elem().Interface())
	}
	return map[string]any{"k": "other", "v": fmt.Sprintf("%T:%v", v, v)}
}

func absNum(f float64, t string) any {
	switch {
	case math.IsNaN(f):
		return map[string]any{"k": "nan"}
	case math.IsInf(f, 0):
		s := 1
		if f < 0 {
			s = -1
		}
		return map[string]any{"k": "inf", "v": s}
	case math.Abs(f) < 200000:
		return map[string]any{"k": "num", "v": int64(math.Round(f * fixScale)), "c": int64(math.Round(f * 100)), "t": t}
	}
	if f == math.Trunc(f) && math.Abs(f) < 1e18 { // a whole number: the same text as the integer of that value (1700000001.0 and 1700000001 are one number)
		return map[string]any{"k": "big", "v": strconv.FormatInt(int64(f), 10), "t": t}
	}
	return map[string]any{"k": "big", "v": strconv.FormatFloat(f, 'g', -1, 64), "t": t}
}

// AbsRow projects a row (map) column by column.
func AbsRow(r map[string]any) map[string]any {
	out := make(map[string]any, len(r))
	for k, v := range r {
		out[k] = Abs(v)
	}
	return out
}

// DeepCopy copies maps and slices recursively (caller-data snapshots).
func DeepCopy(v any) any {
	switch x := v.(type) {
	case map[string]any:
		m := make(map[string]any, len(x))
		for k, a := range x {
			m[k] = DeepCopy(a)
		}
		return m
	case []any:
		l := make([]any, len(x))
		for i, a := range x {
			l[i] = DeepCopy(a)
		}
		return l
	}
	return v
}

// DiffKeys names top-level keys added, removed or changed between two versions of a map.
func DiffKeys(before, after map[string]any) (added, removed, changed []string) {
	added, removed, changed = []string{}, []string{}, []string{}
	for k, a := range after {
		b, ok := before[k]
		if !ok {
			added = append(added, k)
		} else if !sameValue(b, a) {
			changed = append(changed, k)
		}
	}
	for k := range before {
		if _, ok := after[k]; !ok {
			removed = append(removed, k)
		}
	}
	sort.Strings(added)
	sort.Strings(removed)
	sort.Strings(changed)
	return
}

func sameValue(a, b any) bool {
	ja, _ := json.Marshal(Abs(a))
	jb, _ := json.Marshal(Abs(b))
	return string(ja) == string(jb)
}
