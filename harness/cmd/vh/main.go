// vh is the conformance driver: it replays scenarios on the real engine (built
// from /repo with -tags verif) and records ndjson traces for TLC to validate.
package main

import (
	"bufio"
	"encoding/json"
	"flag"
	"fmt"
	"os"
	"sync"

	"verifharness/drv"
)

func main() {
	if len(os.Args) < 2 {
		fmt.Fprintln(os.Stderr, "usage: vh <win|...> [flags]")
		os.Exit(2)
	}
	switch os.Args[1] {
	case "win":
		cmdWin(os.Args[2:])
	case "seq":
		cmdSeq(os.Args[2:])
	case "cond":
		cmdCond(os.Args[2:])
	case "ingest":
		cmdIngest(os.Args[2:])
	case "life":
		cmdLife(os.Args[2:])
	case "pair":
		cmdPair(os.Args[2:])
	case "parse":
		cmdParse(os.Args[2:])
	case "proc":
		cmdProc(os.Args[2:])
	case "api":
		cmdApi(os.Args[2:])
	case "alone":
		drv.AloneMain()
	default:
		fmt.Fprintln(os.Stderr, "unknown subcommand", os.Args[1])
		os.Exit(2)
	}
}

func cmdWin(args []string) {
	fs := flag.NewFlagSet("win", flag.ExitOnError)
	scen := fs.String("scen", "", "scenario ndjson file")
	out := fs.String("out", "", "trace ndjson output")
	par := fs.Int("par", 16, "parallel instances")
	fs.Parse(args)
	f, err := os.Open(*scen)
	if err != nil {
		fatal(err)
	}
	var scs []drv.WinScenario
	rd := bufio.NewScanner(f)
	rd.Buffer(make([]byte, 1<<20), 1<<26)
	for rd.Scan() {
		var sc drv.WinScenario
		if err := json.Unmarshal(rd.Bytes(), &sc); err != nil {
			fatal(err)
		}
		scs = append(scs, sc)
	}
	f.Close()
	res := make([][]drv.Ev, len(scs))
	inc := make([]string, len(scs))
	drift := make([]string, len(scs))
	var wg sync.WaitGroup
	sem := make(chan struct{}, *par)
	for i := range scs {
		wg.Add(1)
		sem <- struct{}{}
		go func(i int) {
			defer wg.Done()
			defer func() { <-sem }()
			res[i], inc[i], drift[i] = drv.RunWin(scs[i])
		}(i)
	}
	wg.Wait()
	of, err := os.Create(*out)
	if err != nil {
		fatal(err)
	}
	nInc, nDrift := 0, 0
	for i := range scs {
		if drift[i] != "" {
			nDrift++
			fmt.Printf("DRIFT tr=%d %s\n", scs[i].Tr, drift[i])
		}
		if inc[i] != "" {
			nInc++
			fmt.Printf("INCONCLUSIVE tr=%d %s\n", scs[i].Tr, inc[i])
			continue
		}
		if err := drv.WriteTrace(of, res[i]); err != nil {
			fatal(err)
		}
	}
	of.Close()
	fmt.Printf("RAN scenarios=%d inconclusive=%d drift=%d\n", len(scs), nInc, nDrift)
}

func fatal(err error) {
	fmt.Fprintln(os.Stderr, "FATAL:", err)
	os.Exit(2)
}

func cmdSeq(args []string) {
	fs := flag.NewFlagSet("seq", flag.ExitOnError)
	scen := fs.String("scen", "", "scenario ndjson file")
	out := fs.String("out", "", "trace ndjson output")
	par := fs.Int("par", 16, "parallel instances")
	fs.Parse(args)
	f, err := os.Open(*scen)
	if err != nil {
		fatal(err)
	}
	var scs []drv.SeqScenario
	rd := bufio.NewScanner(f)
	rd.Buffer(make([]byte, 1<<20), 1<<26)
	for rd.Scan() {
		var sc drv.SeqScenario
		if err := json.Unmarshal(rd.Bytes(), &sc); err != nil {
			fatal(err)
		}
		scs = append(scs, sc)
	}
	f.Close()
	res := make([][]drv.Ev, len(scs))
	inc := make([]string, len(scs))
	var wg sync.WaitGroup
	sem := make(chan struct{}, *par)
	for i := range scs {
		wg.Add(1)
		sem <- struct{}{}
		go func(i int) {
			defer wg.Done()
			defer func() { <-sem }()
			defer func() {
				if r := recover(); r != nil {
					res[i] = []drv.Ev{{"tr": scs[i].Tr, "e": "reset"}, {"tr": scs[i].Tr, "e": "panic", "msg": fmt.Sprint(r)}, {"tr": scs[i].Tr, "e": "quiesce"}}
				}
			}()
			res[i], inc[i] = drv.RunSeq(scs[i])
		}(i)
	}
	wg.Wait()
	of, err := os.Create(*out)
	if err != nil {
		fatal(err)
	}
	nInc := 0
	for i := range scs {
		if inc[i] != "" {
			nInc++
			fmt.Printf("INCONCLUSIVE tr=%d %s\n", scs[i].Tr, inc[i])
			continue
		}
		if err := drv.WriteTrace(of, res[i]); err != nil {
			fatal(err)
		}
	}
	of.Close()
	fmt.Printf("RAN scenarios=%d inconclusive=%d\n", len(scs), nInc)
}

func cmdCond(args []string) {
	fs := flag.NewFlagSet("cond", flag.ExitOnError)
	scen := fs.String("scen", "", "scenario ndjson file")
	out := fs.String("out", "", "trace ndjson output")
	fs.Int("par", 16, "unused")
	fs.Parse(args)
	f, err := os.Open(*scen)
	if err != nil {
		fatal(err)
	}
	of, err := os.Create(*out)
	if err != nil {
		fatal(err)
	}
	rd := bufio.NewScanner(f)
	rd.Buffer(make([]byte, 1<<20), 1<<26)
	n := 0
	for rd.Scan() {
		var sc drv.CondScenario
		if err := json.Unmarshal(rd.Bytes(), &sc); err != nil {
			fatal(err)
		}
		if err := drv.WriteTrace(of, drv.RunCond(sc)); err != nil {
			fatal(err)
		}
		n++
	}
	of.Close()
	fmt.Printf("RAN scenarios=%d inconclusive=0\n", n)
}

func cmdIngest(args []string) {
	fs := flag.NewFlagSet("ingest", flag.ExitOnError)
	scen := fs.String("scen", "", "scenario ndjson file")
	out := fs.String("out", "", "trace ndjson output")
	par := fs.Int("par", 4, "parallel instances")
	fs.Parse(args)
	f, err := os.Open(*scen)
	if err != nil {
		fatal(err)
	}
	var scs []drv.IngestScenario
	rd := bufio.NewScanner(f)
	for rd.Scan() {
		var sc drv.IngestScenario
		if err := json.Unmarshal(rd.Bytes(), &sc); err != nil {
			fatal(err)
		}
		scs = append(scs, sc)
	}
	f.Close()
	res := make([][]drv.Ev, len(scs))
	inc := make([]string, len(scs))
	var wg sync.WaitGroup
	sem := make(chan struct{}, *par)
	for i := range scs {
		wg.Add(1)
		sem <- struct{}{}
		go func(i int) {
			defer wg.Done()
			defer func() { <-sem }()
			res[i], inc[i] = drv.RunIngest(scs[i])
		}(i)
	}
	wg.Wait()
	of, err := os.Create(*out)
	if err != nil {
		fatal(err)
	}
	nInc := 0
	for i := range scs {
		if inc[i] != "" {
			nInc++
			fmt.Printf("INCONCLUSIVE tr=%d %s\n", scs[i].Tr, inc[i])
			continue
		}
		if err := drv.WriteTrace(of, res[i]); err != nil {
			fatal(err)
		}
	}
	of.Close()
	fmt.Printf("RAN scenarios=%d inconclusive=%d\n", len(scs), nInc)
}

func cmdLife(args []string) {
	fs := flag.NewFlagSet("life", flag.ExitOnError)
	scen := fs.String("scen", "", "scenario ndjson file")
	out := fs.String("out", "", "trace ndjson output")
	fs.Int("par", 1, "unused: lifecycle scenarios run one at a time (goroutine accounting)")
	fs.Parse(args)
	f, err := os.Open(*scen)
	if err != nil {
		fatal(err)
	}
	of, err := os.Create(*out)
	if err != nil {
		fatal(err)
	}
	rd := bufio.NewScanner(f)
	n, nInc := 0, 0
	for rd.Scan() {
		var sc drv.LifeScenario
		if err := json.Unmarshal(rd.Bytes(), &sc); err != nil {
			fatal(err)
		}
		evs, inc := drv.RunLife(sc)
		n++
		if inc != "" {
			nInc++
			fmt.Printf("INCONCLUSIVE tr=%d %s\n", sc.Tr, inc)
			continue
		}
		if err := drv.WriteTrace(of, evs); err != nil {
			fatal(err)
		}
	}
	of.Close()
	fmt.Printf("RAN scenarios=%d inconclusive=%d\n", n, nInc)
}

func cmdPair(args []string) {
	fs := flag.NewFlagSet("pair", flag.ExitOnError)
	scen := fs.String("scen", "", "scenario ndjson file")
	out := fs.String("out", "", "trace ndjson output")
	par := fs.Int("par", 8, "parallel pairs")
	fs.Parse(args)
	f, err := os.Open(*scen)
	if err != nil {
		fatal(err)
	}
	var scs []drv.PairScenario
	rd := bufio.NewScanner(f)
	rd.Buffer(make([]byte, 1<<20), 1<<26)
	for rd.Scan() {
		var sc drv.PairScenario
		if err := json.Unmarshal(rd.Bytes(), &sc); err != nil {
			fatal(err)
		}
		scs = append(scs, sc)
	}
	f.Close()
	res := make([][]drv.Ev, len(scs))
	inc := make([]string, len(scs))
	var wg sync.WaitGroup
	sem := make(chan struct{}, *par)
	for i := range scs {
		wg.Add(1)
		sem <- struct{}{}
		go func(i int) {
			defer wg.Done()
			defer func() { <-sem }()
			res[i], inc[i] = drv.RunPair(scs[i])
		}(i)
	}
	wg.Wait()
	of, err := os.Create(*out)
	if err != nil {
		fatal(err)
	}
	nInc := 0
	for i := range scs {
		if inc[i] != "" {
			nInc++
			fmt.Printf("INCONCLUSIVE tr=%d %s\n", scs[i].Tr, inc[i])
			continue
		}
		if err := drv.WriteTrace(of, res[i]); err != nil {
			fatal(err)
		}
	}
	of.Close()
	fmt.Printf("RAN scenarios=%d inconclusive=%d\n", len(scs), nInc)
}

func cmdParse(args []string) {
	fs := flag.NewFlagSet("parse", flag.ExitOnError)
	scen := fs.String("scen", "", "scenario ndjson file")
	out := fs.String("out", "", "trace ndjson output")
	par := fs.Int("par", 16, "parallel")
	fs.Parse(args)
	f, err := os.Open(*scen)
	if err != nil {
		fatal(err)
	}
	var scs []drv.ParseScenario
	rd := bufio.NewScanner(f)
	rd.Buffer(make([]byte, 1<<20), 1<<26)
	for rd.Scan() {
		var sc drv.ParseScenario
		if err := json.Unmarshal(rd.Bytes(), &sc); err != nil {
			fatal(err)
		}
		scs = append(scs, sc)
	}
	f.Close()
	res := make([][]drv.Ev, len(scs))
	var wg sync.WaitGroup
	sem := make(chan struct{}, *par)
	for i := range scs {
		wg.Add(1)
		sem <- struct{}{}
		go func(i int) {
			defer wg.Done()
			defer func() { <-sem }()
			res[i] = drv.RunParse(scs[i])
		}(i)
	}
	wg.Wait()
	of, err := os.Create(*out)
	if err != nil {
		fatal(err)
	}
	for i := range scs {
		if err := drv.WriteTrace(of, res[i]); err != nil {
			fatal(err)
		}
	}
	of.Close()
	fmt.Printf("RAN scenarios=%d inconclusive=0\n", len(scs))
}

func cmdProc(args []string) {
	fs := flag.NewFlagSet("proc", flag.ExitOnError)
	scen := fs.String("scen", "", "scenario ndjson file")
	out := fs.String("out", "", "trace ndjson output")
	par := fs.Int("par", 16, "parallel")
	fs.Parse(args)
	f, err := os.Open(*scen)
	if err != nil {
		fatal(err)
	}
	var scs []drv.ProcScenario
	rd := bufio.NewScanner(f)
	rd.Buffer(make([]byte, 1<<20), 1<<26)
	for rd.Scan() {
		var sc drv.ProcScenario
		if err := json.Unmarshal(rd.Bytes(), &sc); err != nil {
			fatal(err)
		}
		scs = append(scs, sc)
	}
	f.Close()
	res := make([][]drv.Ev, len(scs))
	inc := make([]string, len(scs))
	var wg sync.WaitGroup
	sem := make(chan struct{}, *par)
	for i := range scs {
		wg.Add(1)
		sem <- struct{}{}
		go func(i int) {
			defer wg.Done()
			defer func() { <-sem }()
			res[i], inc[i] = drv.RunProc(scs[i])
		}(i)
	}
	wg.Wait()
	of, err := os.Create(*out)
	if err != nil {
		fatal(err)
	}
	nInc, nDrift := 0, 0
	for i := range scs {
		if inc[i] != "" {
			nInc++
			fmt.Printf("INCONCLUSIVE tr=%d %s\n", scs[i].Tr, inc[i])
			continue
		}
		for _, e := range res[i] {
			if e["e"] == "drift" {
				nDrift++
				break
			}
		}
		if err := drv.WriteTrace(of, res[i]); err != nil {
			fatal(err)
		}
	}
	of.Close()
	fmt.Printf("RAN scenarios=%d inconclusive=%d drift=%d\n", len(scs), nInc, nDrift)
}

func cmdApi(args []string) {
	fs := flag.NewFlagSet("api", flag.ExitOnError)
	scen := fs.String("scen", "", "scenario ndjson file")
	out := fs.String("out", "", "trace ndjson output")
	par := fs.Int("par", 16, "parallel instances")
	fs.Parse(args)
	f, err := os.Open(*scen)
	if err != nil {
		fatal(err)
	}
	var scs []drv.ApiScenario
	rd := bufio.NewScanner(f)
	rd.Buffer(make([]byte, 1<<20), 1<<26)
	for rd.Scan() {
		var sc drv.ApiScenario
		if err := json.Unmarshal(rd.Bytes(), &sc); err != nil {
			fatal(err)
		}
		scs = append(scs, sc)
	}
	f.Close()
	res := make([][]drv.Ev, len(scs))
	inc := make([]string, len(scs))
	var wg sync.WaitGroup
	sem := make(chan struct{}, *par)
	for i := range scs {
		wg.Add(1)
		sem <- struct{}{}
		go func(i int) {
			defer wg.Done()
			defer func() { <-sem }()
			res[i], inc[i] = drv.RunApi(scs[i])
		}(i)
	}
	wg.Wait()
	of, err := os.Create(*out)
	if err != nil {
		fatal(err)
	}
	ninc := 0
	for i := range scs {
		if inc[i] != "" {
			ninc++
			fmt.Printf("INCONCLUSIVE tr=%d %s\n", scs[i].Tr, inc[i])
			continue
		}
		if err := drv.WriteTrace(of, res[i]); err != nil {
			fatal(err)
		}
	}
	of.Close()
	fmt.Printf("RAN scenarios=%d inconclusive=%d\n", len(scs), ninc)
}
