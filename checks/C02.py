import os, sys
sys.path.insert(0, os.path.dirname(os.path.abspath(__file__)))
import win, vlib

ASSUME = ["window output buffer never overflows", "single producer",
          "IDLETIMEOUT: a delivery that the watermark does not justify is accepted only if no row is known to have reached the window during the IDLETIMEOUT before it (wall clock: time before Emit of the last row whose processing was observed, time at sink entry); after such a flush the trace no longer judges lateness",
          "a late row's re-delivery obligation is imposed only when the first delivery was logged before the row was emitted",
          "closure of a window for late rows is judged by the last COMPLETED trigger pass (processed watermark), known from the pwm trace events",
          "far-future rows use now+40h; some runs place event time 20h ahead of the wall clock",
          "session windows are decided by TraceSessionLate (late events only into a fired session of their own key while it is inside the allowance)"]


def run(tier):
    if tier == "quick":
        plan = [("tumbling", dict(size=2, moo=0, al=1, maxts=5, maxev=4, cap=4000, closer=True)),
                ("tumbling", dict(size=2, moo=1, al=2, maxts=5, maxev=4, cap=4000, mc=dict(maxts=6))),
                ("sliding", dict(size=4, slide=2, moo=1, al=1, maxts=5, maxev=4, cap=3000)),
                # a late row in TWO open windows while the trigger goroutine fires a third one between its re-deliveries (Sliding.LateSend)
                ("sliding", dict(size=2, slide=1, moo=0, al=4, maxts=4, maxev=4, cap=6000, closer=True)),
                ("tumbling", dict(size=2, moo=2, al=0, maxts=5, maxev=4, cap=2000))]
        free = [("tumbling", dict(size=2, moo=1, al=2), 60, 40), ("sliding", dict(size=4, slide=2, moo=2, al=2), 40, 40),
                ("tumbling", dict(size=3, moo=0, al=0), 30, 40),
                # long allowances with many late rows: several late rows for one fired window, with newer windows firing in between
                ("tumbling", dict(size=2, moo=0, al=6, latep=0.3), 40, 40), ("sliding", dict(size=4, slide=2, moo=1, al=6, latep=0.3), 40, 40),
                # an allowance SHORTER than the window: a fired window runs out of its allowance while the current one already holds rows
                ("tumbling", dict(size=8, moo=1, al=2), 40, 50), ("tumbling", dict(size=10, moo=1, al=1), 30, 50)]
    else:
        plan = [("tumbling", dict(size=2, moo=0, al=1, maxts=6, maxev=5, cap=40000, closer=True)),
                ("tumbling", dict(size=2, moo=1, al=2, maxts=6, maxev=5, cap=40000)),
                ("tumbling", dict(size=2, moo=1, al=3, maxts=5, maxev=4)),
                ("sliding", dict(size=4, slide=2, moo=1, al=1, maxts=6, maxev=4)),
                ("sliding", dict(size=3, slide=2, moo=0, al=3, maxts=6, maxev=4)),
                ("sliding", dict(size=2, slide=1, moo=0, al=4, maxts=4, maxev=4, closer=True)),
                ("tumbling", dict(size=2, moo=2, al=0, maxts=6, maxev=5, cap=20000))]
        free = [("tumbling", dict(size=2, moo=1, al=2), 400, 60), ("sliding", dict(size=4, slide=2, moo=2, al=2), 300, 60),
                ("tumbling", dict(size=3, moo=0, al=0), 200, 60), ("sliding", dict(size=3, slide=1, moo=1, al=0), 200, 50),
                ("tumbling", dict(size=2, moo=0, al=6, latep=0.3), 300, 60), ("sliding", dict(size=4, slide=2, moo=1, al=6, latep=0.3), 300, 60), ("sliding", dict(size=3, slide=1, moo=0, al=4, latep=0.25), 200, 50),
                ("tumbling", dict(size=8, moo=1, al=2), 300, 60), ("tumbling", dict(size=10, moo=1, al=1), 200, 60)]
    extra = [("tumbling", dict(size=2, moo=1, al=0, maxts=6, maxev=4, chancap=1)), ("sliding", dict(size=4, slide=2, moo=1, al=0, maxts=6, maxev=4, chancap=1))]
    if tier != "quick":
        extra += [("tumbling", dict(size=2, moo=0, al=1, maxts=6, maxev=4, chancap=1)), ("session", dict(size=2, moo=1, al=0, maxts=5, maxev=4, chancap=1))]
    if tier == "quick":
        splan = [("session", dict(size=2, moo=1, al=2, maxts=4, maxev=4, cap=1500, mc=dict(maxts=5, maxev=4))),
                 ("session", dict(size=1, moo=0, al=4, maxts=2, maxev=5, onlylate=True, mc=dict(maxts=4, maxev=4)))]   # two fired sessions of a key inside the allowance
        sfree = [("session", dict(size=2, moo=1, al=2, keys=2), 40, 40), ("session", dict(size=3, moo=0, al=4, keys=2), 30, 40),
                 ("session", dict(size=1, moo=1, al=9, keys=2), 30, 50)]
    else:
        splan = [("session", dict(size=2, moo=1, al=2, maxts=5, maxev=4, cap=30000)), ("session", dict(size=2, moo=0, al=3, maxts=5, maxev=4, cap=20000)),
                 ("session", dict(size=1, moo=0, al=4, maxts=3, maxev=5, onlylate=True, mc=dict(maxts=4, maxev=5)))]
        sfree = [("session", dict(size=2, moo=1, al=2, keys=2), 300, 50), ("session", dict(size=3, moo=0, al=4, keys=2), 300, 60), ("session", dict(size=2, moo=2, al=1, keys=3), 200, 60), ("session", dict(size=1, moo=1, al=9, keys=2), 300, 60)]
    post = lambda res, rng, vh, scen: win.session_late_stage(res, rng, vh, scen, splan, sfree)
    idle = [("tumbling", dict(size=10, moo=2), 6 if tier == "quick" else 60), ("sliding", dict(size=10, slide=5, moo=2), 3 if tier == "quick" else 30)]
    return win.run_family("C02", tier, plan, free, ASSUME, extra, post=post, idle_plan=idle)


if __name__ == "__main__":
    vlib.main(run)
