import itertools, json, os, random, sys
sys.path.insert(0, os.path.dirname(os.path.abspath(__file__)))
import seqfam, vlib

WIN = os.path.join(vlib.VERIF, "spec", "win")
ASSUME = ["STATETTL unset, except in the scenarios that keep a group active across several TTL periods (a trace in which the driver itself paused longer than 0.7 TTL is void)", "single producer, lock-step replay", "predicates compare aggregates (count, sum, avg, min, max) with numeric literals, combined with AND / OR (AND binds tighter)",
          "values are small integers, NULL or missing"]
NUL = -999
MENU = {  # model predicate name -> (SQL text, AST)
    "count>=2": ("COUNT(*) >= 2", {"o": "cmp", "fn": "count_star", "arg": {"k": "star"}, "op": ">=", "lit": 2}),
    "sum>3": ("SUM(v) > 3", {"o": "cmp", "fn": "sum", "arg": {"k": "col", "c": "v"}, "op": ">", "lit": 3}),
    "max>=3": ("MAX(v) >= 3", {"o": "cmp", "fn": "max", "arg": {"k": "col", "c": "v"}, "op": ">=", "lit": 3}),
    "min<0": ("MIN(v) < 0", {"o": "cmp", "fn": "min", "arg": {"k": "col", "c": "v"}, "op": "<", "lit": 0}),
    "avg>=2": ("AVG(v) >= 2", {"o": "cmp", "fn": "avg", "arg": {"k": "col", "c": "v"}, "op": ">=", "lit": 2}),
}
MENU["count>=3|max>=3"] = ("COUNT(*) >= 3 OR MAX(v) >= 3", {"o": "or", "a": dict(MENU["count>=2"][1], lit=3), "b": MENU["max>=3"][1]})
MENU["count>=2&min<0"] = ("COUNT(*) >= 2 AND MIN(v) < 0", {"o": "and", "a": MENU["count>=2"][1], "b": MENU["min<0"][1]})
MENU["max>=3|count>=3"] = ("MAX(v) >= 3 OR COUNT(*) >= 3", {"o": "or", "a": MENU["max>=3"][1], "b": dict(MENU["count>=2"][1], lit=3)})
MENU["min<0&count>=2"] = ("MIN(v) < 0 AND COUNT(*) >= 2", {"o": "and", "a": MENU["min<0"][1], "b": MENU["count>=2"][1]})
MENU["sum>3|count>=3"] = ("SUM(v) > 3 OR COUNT(*) >= 3", {"o": "or", "a": MENU["sum>3"][1], "b": dict(MENU["count>=2"][1], lit=3)})
# COUNT(v) counts the rows in which v is present and not NULL - not the rows (seeded runs only)
MENU["countv>=2"] = ("COUNT(v) >= 2", {"o": "cmp", "fn": "count", "arg": {"k": "col", "c": "v"}, "op": ">=", "lit": 2})
MENU["countv>=3"] = ("COUNT(v) >= 3", {"o": "cmp", "fn": "count", "arg": {"k": "col", "c": "v"}, "op": ">=", "lit": 3})
MENU["median>=2"] = ("MEDIAN(v) >= 2", {"o": "cmp", "fn": "median", "arg": {"k": "col", "c": "v"}, "op": ">=", "lit": 2})
MENU["median<1|count>=4"] = ("MEDIAN(v) < 1 OR COUNT(*) >= 4", {"o": "or", "a": {"o": "cmp", "fn": "median", "arg": {"k": "col", "c": "v"}, "op": "<", "lit": 1}, "b": dict(MENU["count>=2"][1], lit=4)})
MENU["band:sum"] = ("SUM(v) >= 3 AND SUM(v) < 8", {"o": "and", "a": dict(MENU["sum>3"][1], op=">=", lit=3), "b": dict(MENU["sum>3"][1], op="<", lit=8)})
MENU["tier:sum,count"] = ("SUM(v) >= 6 OR COUNT(*) >= 3 AND SUM(v) >= 2", {"o": "or", "a": dict(MENU["sum>3"][1], op=">=", lit=6),
                          "b": {"o": "and", "a": dict(MENU["count>=2"][1], lit=3), "b": dict(MENU["sum>3"][1], op=">=", lit=2)}})
MENU["count>=3|max>=3&min<0"] = ("COUNT(*) >= 3 OR MAX(v) >= 3 AND MIN(v) < 0",
                                 {"o": "or", "a": dict(MENU["count>=2"][1], lit=3), "b": {"o": "and", "a": MENU["max>=3"][1], "b": MENU["min<0"][1]}})
SELECTS = [  # (select list, aggs) : with / without the trigger's aggregates among the selected ones
    ("count(*) AS c, sum(v) AS s, max(v) AS mx, min(v) AS mn, avg(v) AS av, collect(id) AS ids",
     [("c", "count_star"), ("s", "sum"), ("mx", "max"), ("mn", "min"), ("av", "avg"), ("ids", "collect")]),
    ("collect(id) AS ids, count(v) AS cv", [("ids", "collect"), ("cv", "count")]),
    ("SUM(v) AS s, COUNT( * ) AS c, collect(id) AS ids", [("s", "sum"), ("c", "count_star"), ("ids", "collect")]),
]


def lit_scaled(ast):
    a = dict(ast)
    if a["o"] == "cmp":
        a["lit"] = a["lit"] * 10000
    else:
        a["a"], a["b"] = lit_scaled(a["a"]), lit_scaled(a["b"])
    return a


def scenario(pred, hist, sel_i, rng, missing_style, case):
    sqlp, ast = MENU[pred]
    if case == "lower":
        sqlp = sqlp.lower().replace(" and ", " AND ").replace(" or ", " OR ")
    sel, aggl = SELECTS[sel_i]
    aggs = []
    for al, fn in aggl:
        arg = {"k": "star"} if fn == "count_star" else {"k": "col", "c": "id" if al == "ids" else "v"}
        aggs.append({"al": al, "fn": fn, "arg": arg, "p": 0})
    rows = []
    for i, h in enumerate(hist):
        row = {"id": i + 1, "g": h["g"]}
        if h["g"] == "__missing__": del row["g"]
        if h["v"] == NUL:
            if missing_style == "null" or (missing_style == "mix" and i % 2 == 0):
                row["v"] = None
        else:
            row["v"] = h["v"]
        rows.append(row)
    sql = "SELECT g, %s FROM stream GROUP BY g, GLOBAL WINDOW TRIGGER WHEN %s" % (sel, sqlp)
    meta = {"fam": "batch", "carrier": "global", "n": 0, "gcols": ["g"], "gout": ["g"], "aggs": aggs, "pred": lit_scaled(ast)}
    sc = {"meta": meta, "sql": sql, "rows": rows}
    if rng.random() < 0.3:      # the aggregated column under another name (names ending in "or" / "and", a keyword-like name)
        sc = rename_col(sc, rng.choice(["sensor", "error", "floor", "brand", "vand", "motor_rpm", "orv", "deviceTemp", "vMax", "Value"]))
    return sc


def rename_col(sc, name):
    import re
    def ren(x):
        if isinstance(x, dict):
            return {k: (name if (k == "c" and v == "v") else ren(v)) for k, v in x.items()}
        if isinstance(x, list):
            return [ren(y) for y in x]
        return x
    sql = re.sub(r"\(\s*v\s*\)", "(%s)" % name, sc["sql"])
    rows = [{(name if k == "v" else k): v for k, v in r.items()} for r in sc["rows"]]
    return {"meta": ren(sc["meta"]), "sql": sql, "rows": rows}


def run(tier):
    res = vlib.Result("C17", tier)
    rng = random.Random(vlib.seed())
    quick = tier == "quick"
    res.cov["exhaustive"] = True
    scen = []
    for pi, pred in enumerate(MENU):
        maxrows = 4 if quick else 5
        cfg = 'SPECIFICATION Spec\nCONSTANTS Groups = {"a","b"} RawVals = {0, 2, 4} Off = 1 MaxRows = %d Pred = "%s" Emit = TRUE\nINVARIANTS EmitScenario\nCHECK_DEADLOCK FALSE\n' % (maxrows, pred)
        r = vlib.tlc(WIN, "GlobalWin", cfg, workers=1, timeout=600)
        if not r["ok"]:
            raise vlib.Inconclusive("GlobalWin generation failed:\n" + r["out"][-2000:])
        res.cov["states"] += r["distinct"]; res.cov["transitions"] += r["generated"]
        hists = [json.loads(x[1]) for x in vlib.prints(r["out"], "SCEN")]
        cap = 500 if quick else 20000
        if len(hists) > cap:
            hists = rng.sample(hists, cap); res.cov["exhaustive"] = False
        for k, h in enumerate(hists):
            scen.append(scenario(pred, h, k % len(SELECTS), rng, ["null", "missing", "mix"][k % 3], "lower" if k % 4 == 3 else "upper"))
    # longer seeded runs, more groups
    for _ in range(160 if quick else 6000):
        pred = rng.choice(list(MENU))
        L = rng.choice([8, 12, 20])
        groups = ["a", "b", "c", "d"][:rng.choice([1, 2, 4])]
        if rng.random() < 0.3:
            groups = rng.choice([["", None], ["", None, "a"], ["", "__missing__"]])      # the NULL group and the empty-string group are two groups
        hist = [{"g": rng.choice(groups), "v": rng.choice([NUL, -1, -1, 0, 1, 2, 3, 5])} for _ in range(L)]
        if pred in ("max>=3|count>=3", "sum>3|count>=3", "band:sum", "tier:sum,count", "median<1|count>=4"):      # see GlobalWin.LeftNullable: NULL values only in the model-generated behaviours
            for h in hist:
                if h["v"] == NUL:
                    h["v"] = 1
        scen.append(scenario(pred, hist, rng.randrange(len(SELECTS)), rng, "mix", "upper"))
    # a long STATETTL (nothing is reaped while the scenario runs): the group restarts from empty after every firing all the same -
    # what it aggregates for the SELECT list AND what it aggregates for the trigger alone
    import copy
    for sc in [copy.deepcopy(x) for x in rng.sample(scen, min(len(scen), 150 if quick else 5000))]:
        if " WITH " in sc["sql"]: continue
        sc["sql"] += " WITH (STATETTL='%s')" % rng.choice(["60s", "5m", "1h"])
        scen.append(sc)
    # trigger aggregates over a NESTED field only (no COUNT(*) in the predicate)
    for _ in range(40 if quick else 1500):
        pred = rng.choice(["sum>3", "max>=3", "min<0", "avg>=2"])
        groups = ["a", "b"][:rng.choice([1, 2])]
        hist = [{"g": rng.choice(groups), "v": rng.choice([-1, 0, 1, 2, 3, 5])} for _ in range(rng.choice([8, 12]))]
        sc = scenario(pred, hist, 0, rng, "mix", "upper")
        sc["sql"] = sc["sql"].replace("(v)", "(o.v)")
        sc["rows"] = [dict({k: v for k, v in r.items() if k != "v"}, o={"v": r["v"]}) if "v" in r else r for r in sc["rows"]]
        def nest(x):
            if isinstance(x, dict):
                if x.get("k") == "col" and x.get("c") == "v": return {"k": "path", "p": ["o", "v"]}
                return {k: nest(v) for k, v in x.items()}
            if isinstance(x, list): return [nest(y) for y in x]
            return x
        sc["meta"] = nest(sc["meta"]); sc["norename"] = True
        scen.append(sc)
    # STATETTL: a group that keeps receiving rows (gaps well below the TTL) is never reaped, however long it takes to fire
    for _ in range(4 if quick else 24):
        ng = rng.choice([1, 2])
        need = rng.choice([7, 8, 9])
        hist = [{"g": "ab"[i % ng], "v": rng.choice([1, 2, 3])} for i in range(need * ng)]
        sc = scenario("count>=2", hist, 0, rng, "mix", "upper")
        sc["sql"] = sc["sql"].replace("COUNT(*) >= 2", "COUNT(*) >= %d" % need) + " WITH (STATETTL='1s')"
        sc["meta"]["pred"] = lit_scaled(dict(MENU["count>=2"][1], lit=need))
        sc.update(gap_ms=rng.choice([180, 250]) if ng == 2 else rng.choice([300, 400]), ttl_ms=1000, span=ng)
        scen.append(sc)
    # block strategy, a one-slot output queue and a slow consumer: a fire that finds the queue full waits for room (well inside the block
    # timeout) and is delivered - in a first burst and again in a second one that follows after MORE than the block timeout
    for _ in range(2 if quick else 12):
        hist = [{"g": "a", "v": rng.choice([1, 2, 3])} for _ in range(6)]
        sc = scenario("count>=2", hist + hist, 0, rng, "mix", "upper")
        rows = sc.pop("rows")
        ops = [{"op": "emit", "row": r} for r in rows[:6]] + [{"op": "sleep", "ms": 3400}] + [{"op": "emit", "row": r} for r in rows[6:]]
        sc.update(ops=ops, rows=[], burst=True, perf={"strategy": "block", "winout": 1, "blockms": 3000, "slowsink": rng.choice([150000, 200000])}, norename=True)
        scen.append(sc)
    # bursts: the producer outruns the global-window goroutine (held at its first row) by more rows than the window's input queue
    # holds (200 here): every row still counts towards its group's aggregates and trigger, in order
    for _ in range(6 if quick else 150):
        pred = rng.choice(["count>=2", "sum>3", "count>=3|max>=3", "sum>3|count>=3"])
        groups = ["a", "b", "c"][:rng.choice([1, 2, 3])]
        hist = [{"g": rng.choice(groups), "v": rng.choice([0, 1, 2, 3, 5])} for _ in range(rng.choice([230, 260, 300]))]
        sc = scenario(pred, hist, rng.randrange(len(SELECTS)), rng, "mix", "upper")
        # one option sizes the window's input AND output queue: 200 is less than the burst (the input queue is overrun) and more than the
        # results the burst can fire (at most one per two rows: the output queue never overflows - assumption)
        sc.update(burst=True, hold="gw.row", perf={"winout": 200})
        scen.append(sc)
    seqfam.run_scenarios(res, scen, "TraceBatch", tag="global", relayout_p=0.3, retype_p=0.3, rename_p=0.3)
    seqfam.run_pinned(res, "TraceBatch")
    res.cov["distinct_nontrivial"] = len({json.dumps(s["rows"], sort_keys=True) + s["sql"] for s in scen})
    res.cov["rule"] = ("every row sequence (2 groups x values {NULL,-1,1,3}) of the TLA+ GlobalWin model up to the stated length for each of 17 predicates "
                       "(single comparisons, AND, OR, OR-of-AND), 3 SELECT shapes (trigger aggregates selected / not selected / differently spelled), NULL vs missing, "
                       "replayed in lock-step on the real engine, plus seeded longer runs with up to 4 groups, plus unthrottled bursts of 230-300 rows against a window goroutine held at its first row (queue size 200); distinct = distinct (SQL, rows)")
    res.assumptions = ASSUME
    for pred in (["count>=3|max>=3&min<0", "avg>=2"] if quick else list(MENU)):
        mr = 5 if quick else 6
        cfg = 'SPECIFICATION Spec\nCONSTANTS Groups = {"a","b"} RawVals = {0, 2, 4} Off = 1 MaxRows = %d Pred = "%s" Emit = FALSE\nINVARIANTS FiresExactly Conservation NoFireWhileFalse\nCHECK_DEADLOCK FALSE\n' % (mr, pred)
        seqfam.model(res, WIN, "GlobalWin", cfg, "GlobalWin", {"Pred": pred, "MaxRows": mr, "Groups": 2, "Vals": ["NULL", -1, 1, 3]})
    return res.finish()


if __name__ == "__main__":
    vlib.main(run)
