import json, os, random, sys
sys.path.insert(0, os.path.dirname(os.path.abspath(__file__)))
import seqfam, vlib, exprgen
from exprgen import Gen, sql

ASSUME = ["division only by non-zero literals", "numbers are small integers and halves (exact rationals are the definition)",
          "functions decided by value (spec/lib/Expr Call): abs floor ceil ceiling round sign power mod sqrt greatest least length indexof upper lower concat trim ltrim rtrim substring replace lpad rpad startswith endswith coalesce if_null null_if is_null is_not_null is_numeric is_string is_bool, each inside the domain where its one-line documentation is unambiguous (0-based positions as in the source; a NULL / wrong-kind argument may give any value); trigonometric / log / hash / json / array / datetime / regexp / conversion built-ins are not decided here",
          "an expression outside the decided domain (mixed kinds, ordering of strings) may take any value / decision",
          "a not-true comparison in SELECT position may surface as false or NULL"]


def mk(rng, g, depth, nrows, mode, position, kinds=("num", "case", "str", "pred")):
    sel, where = [], None
    g.in_where = False
    if position in ("select", "both"):
        for k in range(rng.choice([1, 2])):
            kind = rng.choice(kinds)
            r = {"num": 0.1, "case": 0.6, "str": 0.7, "pred": 0.9, "cmp": 2, "parcmp": 2, "casechain": 2, "boolchain": 2}[kind]
            if kind == "cmp":
                e = {"t": "cmp", "op": rng.choice(g.cmpops()), "a": g.numatom(), "b": g.numatom()}
            elif kind == "casechain":   # top-level CASE whose conditions are flat AND / OR chains without parentheses (AND binds tighter), non-NULL data
                e = {"t": "case", "whens": [{"c": g.flatchain(rng.choice([2, 3, 3])), "r": g.numatom(False) if rng.random() < 0.7 else exprgen.strlit(rng.choice(["p", "q"]))} for _ in range(rng.choice([1, 2]))]}
                if rng.random() < 0.7: e["else"] = exprgen.num(rng.choice([0, 7]))
            elif kind == "boolchain":   # a flat AND / OR chain as a boolean select item
                e = g.flatchain(rng.choice([2, 3, 3]))
            elif kind == "parcmp":      # (col OP literal) as a select item: evaluated through the compiled-program cache of the expression bridge
                e = exprgen.par({"t": "cmp", "op": rng.choice(["!=", ">", ">=", "<", "<=", "!="]), "a": exprgen.col(rng.choice(exprgen.NUMCOLS)), "b": exprgen.num(rng.choice([0, 1, 2, 3, 5]))})
            elif r < 0.5:
                e = g.numexpr(depth)
                while e["t"] == "num":          # a bare numeric literal item is C05's business (known finding)
                    e = g.numexpr(depth)
            elif r < 0.65:
                e = g.case(depth - 1)
            elif r < 0.8:
                e = g.strexpr(depth)
            else:
                e = g.pred(depth - 1)
            tries = 0
            while (("-" in sql(e).replace(" - ", "") and "." in sql(e)) or e["t"] == "num") and tries < 50:   # unary minus + '.' in the text: KNOWN_FINDINGS UnaryMinusWithDot
                e = g.numexpr(depth) if kind == "num" else exprgen.col("x")
                tries += 1
            sel.append({"al": "r%d" % k, "e": e})
    else:
        sel.append({"al": "id", "e": exprgen.col("id")})
    if position in ("where", "both"):
        g.in_where = True
        where = g.flatchain(rng.choice([2, 3, 3, 4])) if g.f.get("flat") else g.pred(depth)
        g.in_where = False
    sqltxt = "SELECT " + ", ".join("%s AS %s" % (sql(it["e"]), it["al"]) if it["e"]["t"] != "col" or it["e"]["c"] != it["al"] else it["al"] for it in sel) + " FROM stream"
    meta = {"fam": "direct", "star": 0, "chan": 0, "sel": sel}
    if where is not None:
        sqltxt += " WHERE " + sql(where)
        meta["where"] = where
    rows = [g.row(i + 1) for i in range(nrows)]
    sc = {"meta": meta, "sql": sqltxt, "rows": rows}
    if mode == "sync":
        sc["mode"] = "sync"
    return sc


def lazycase_scen(rng, mode):
    """searched CASE: the first true branch decides, and the conditions AFTER it are not consulted - they may refer to a column the row
    lacks or order a text against a number. (A condition that cannot be evaluated BEFORE the true branch is the recorded deviation
    CaseNullOperandPoisons: rows are built so that this does not happen.)"""
    lit1 = rng.choice([0, 1, 2])
    op2 = rng.choice([">", "<", ">=", "<="])
    whens = [{"c": {"t": "cmp", "op": ">", "a": exprgen.col("y"), "b": exprgen.num(lit1)}, "r": exprgen.num(10)},
             {"c": {"t": "cmp", "op": op2, "a": exprgen.col("x"), "b": exprgen.num(rng.choice([1, 2, 3]))}, "r": exprgen.num(20)}]
    if rng.random() < 0.4:
        whens.append({"c": {"t": "cmp", "op": ">", "a": exprgen.col("x"), "b": exprgen.num(5)}, "r": exprgen.strlit("big")})
    e = {"t": "case", "whens": whens}
    if rng.random() < 0.7: e["else"] = exprgen.num(30)
    rows = []
    for i in range(rng.choice([4, 6, 8])):
        y = rng.choice([0, 1, 2, 3, 5])
        row = {"id": i + 1, "y": y}
        if y > lit1:            # first branch true: what x holds must not matter
            k = rng.random()
            if k < 0.4: pass
            elif k < 0.6: row["x"] = rng.choice(["abc", "txt"])
            else: row["x"] = rng.choice([0, 2, 4, 9])
        else:
            row["x"] = rng.choice([0, 1, 2, 3, 4, 9])
        rows.append(row)
    sel = [{"al": "r0", "e": e}]
    sc = {"meta": {"fam": "direct", "star": 0, "chan": 0, "sel": sel, "profile": "case_lazy"}, "sql": "SELECT id, %s AS r0 FROM stream" % sql(e), "rows": rows}
    sc["meta"]["sel"] = [{"al": "id", "e": exprgen.col("id")}] + sel
    if mode == "sync": sc["mode"] = "sync"
    return sc


PROFILES = [  # (name, generator flags, positions, select-item kinds, share)   -- the envelope in which the engine follows SQL semantics on the unchanged tree;
             #  everything deliberately outside it is a recorded finding with a pinned input (KNOWN_FINDINGS.json)
    ("arith", dict(cases=False, nots=False, explicit_null=False), ["select"], ("num",), 0.12),
    ("arith_null", dict(cases=False, nots=False, plus=False), ["select"], ("num",), 0.10),
    ("case_top", dict(nulls=False, cases=False, nots=False, isnull_sel=False), ["select"], ("case",), 0.10),
    ("string_fn", dict(cases=False, nots=False), ["select"], ("str",), 0.08),
    ("select_cmp", dict(cases=False, nots=False, neq=False), ["select"], ("cmp",), 0.08),
    ("select_chain", dict(nulls=False, cases=False, nots=False, paths=False, neq=False), ["select"], ("casechain", "boolchain"), 0.08),
    ("select_parcmp", dict(nulls=False, cases=False, nots=False, paths=False), ["select"], ("parcmp",), 0.06),
    ("where_full", dict(nulls=False, cases=False, nots=False), ["where", "both"], ("num", "str"), 0.20),
    ("where_flat", dict(nulls=False, cases=False, nots=False, flat=True), ["where"], ("num",), 0.12),
    ("where_null", dict(cases=False, nots=False, neq=False, ors=False, eqcols=False, plus=False), ["where", "both"], ("num",), 0.20),
]


def run(tier):
    res = vlib.Result("C06", tier)
    rng = random.Random(vlib.seed())
    quick = tier == "quick"
    scen = []
    n = 3000 if quick else 100000
    for name, flags, positions, kinds, share in PROFILES:
        g = Gen(rng, **flags)
        for i in range(int(n * share)):
            depth = 1 if i % 4 == 0 else 2 if i % 4 in (1, 2) or quick else 3
            sc = mk(rng, g, depth, rng.choice([3, 5, 6]), "sync" if i % 2 else "emit", positions[i % len(positions)], kinds)
            sc["meta"]["profile"] = name
            scen.append(sc)
    # function library: calls of the built-in scalar functions inside each function's decided domain, as select items and in WHERE
    g = Gen(rng, nulls=False)
    for i in range(int(n * 0.25)):
        sel = []
        for k in range(rng.choice([1, 2, 3])):
            e = rng.choice([g.fn_num, g.fn_num, g.fn_str, g.fn_str, g.fn_bool, g.fn_misc])()
            if e["t"] != "fn":
                e = g.fn_num(1)
            sel.append({"al": "r%d" % k, "e": e})
        meta = {"fam": "direct", "star": 0, "chan": 0, "sel": sel, "profile": "fn_lib"}
        sqltxt = "SELECT " + ", ".join("%s AS %s" % (sql(it["e"]), it["al"]) for it in sel) + " FROM stream"
        if i % 3 == 0:
            meta["where"] = g.fn_pred()
            sqltxt += " WHERE " + sql(meta["where"])
        sc = {"meta": meta, "sql": sqltxt, "rows": [g.fn_row(j + 1) for j in range(rng.choice([4, 6, 8]))]}
        if i % 2:
            sc["mode"] = "sync"
        scen.append(sc)
    for i in range(int(n * 0.04)):
        scen.append(lazycase_scen(rng, "sync" if i % 2 else "emit"))
    # != against an explicit NULL / a missing column is not true, in a CASE condition and as a select item, whatever rows came before
    # (also after a row whose value makes the fast path fail: a text where a number is expected)
    for i in range(int(n * 0.03)):
        lit = rng.choice([0, 1, 2, 5])
        cmpe = {"t": "cmp", "op": "!=", "a": exprgen.col("x"), "b": exprgen.num(lit)}
        if i % 2:
            e = {"t": "case", "whens": [{"c": cmpe, "r": exprgen.strlit("diff")}], "else": exprgen.strlit("other")}
        else:
            e = cmpe
        rows = []
        for j in range(rng.choice([5, 7])):
            k = rng.random()
            r = {"id": j + 1}
            if k < 0.5: r["x"] = rng.choice([0, 1, 2, 5, {"$f": 2.0}])
            elif k < 0.85: r["x"] = None          # (a MISSING column makes x != 5 true / the CASE NULL: recorded family NullNotEqualIsTrue / CaseNullOperandPoisons)
            else: r["x"] = "abc"                 # outside the decided domain for this row (any value) - but it must not change what later rows give
            if i % 2 == 0 and j in (1, 3):
                r.pop("x", None)                 # select-item variant: a row WITHOUT the column (its own value is left open) makes the fast path fail
            rows.append(r)
        meta = {"fam": "direct", "star": 0, "chan": 0, "sel": [{"al": "id", "e": exprgen.col("id")}, {"al": "r0", "e": e}], "profile": "neq_null_hist"}
        if i % 2 == 0: meta["neqmissing_open"] = 1
        sc = {"meta": meta, "sql": "SELECT id, %s AS r0 FROM stream" % sql(e), "rows": rows, "noretype": True}
        if i % 3 == 0: sc["mode"] = "sync"
        scen.append(sc)
    # constant sub-expressions whose value has no short decimal form (1 / 3, 22 / 7) scaled back up by a large literal: the value of the
    # item is that of the arithmetic as written (exact rationals in the model), whatever the engine computes ahead of the rows
    for i in range(40 if quick else 1500):
        c2 = rng.choice([3, 7, 9, 11, 13])
        c1 = rng.choice([1, 2, 5, 22])
        frac = {"t": "bin", "op": "/", "a": exprgen.num(c1), "b": exprgen.num(c2)}
        big = {"t": "bin", "op": "*", "a": frac, "b": exprgen.num(c2 * rng.choice([1000, 3000]))}
        x = exprgen.col(rng.choice(["x", "y"]))
        shape = i % 4
        if shape == 0: e = {"t": "bin", "op": "+", "a": big, "b": x}                               # 1 / 3 * 3000 + x
        elif shape == 1: e = {"t": "bin", "op": "+", "a": x, "b": big}                             # x + 1 / 3 * 3000
        elif shape == 2: e = {"t": "bin", "op": "*", "a": exprgen.par(big), "b": x}                # (1 / 3 * 3000) * x
        else: e = {"t": "case", "whens": [{"c": {"t": "cmp", "op": ">", "a": x, "b": exprgen.num(1)}, "r": big}], "else": exprgen.num(0)}
        rows = [{"id": j + 1, "x": rng.choice([0, 1, 2, 5]), "y": rng.choice([1, 2, 3])} for j in range(rng.choice([3, 5]))]
        meta = {"fam": "direct", "star": 0, "chan": 0, "sel": [{"al": "id", "e": exprgen.col("id")}, {"al": "r0", "e": e}], "profile": "const_subexpr"}
        sc = {"meta": meta, "sql": "SELECT id, %s AS r0 FROM stream" % sql(e), "rows": rows}
        if i % 2: sc["mode"] = "sync"
        scen.append(sc)
    # long predicates (30-40 comparisons, well over 100 tokens): a long WHERE is a WHERE
    gl = Gen(rng, nulls=False, cases=False, nots=False, flat=True)
    for i in range(20 if quick else 600):
        gl.in_where = True
        w = gl.flatchain(rng.choice([30, 36, 40]))
        gl.in_where = False
        meta = {"fam": "direct", "star": 0, "chan": 0, "sel": [{"al": "id", "e": exprgen.col("id")}], "where": w, "profile": "where_long"}
        sc = {"meta": meta, "sql": "SELECT id FROM stream WHERE " + sql(w), "rows": [gl.row(j + 1) for j in range(6)]}
        if i % 2: sc["mode"] = "sync"
        scen.append(sc)
    # several goroutines evaluate the SAME compiled predicate / select item at the same time (EmitSync callers): the value of an expression
    # is a function of its row, not of what another goroutine is evaluating. vpark(x) = x gives the processor away inside the
    # evaluation, so the evaluations overlap for certain.
    gc = Gen(rng, nulls=False, cases=False, nots=False, explicit_null=False, strs=False, paths=False, fns=False, negs=False)
    def park(e):
        """wrap the first column reference of a predicate into vpark()"""
        import copy
        e = copy.deepcopy(e)
        done = [False]
        def walk(x):
            if done[0] or not isinstance(x, dict): return x
            if x.get("t") == "col":
                done[0] = True
                return {"t": "fn", "f": "vpark", "args": [x]}
            for k in ("a", "b"):
                if k in x and not done[0]: x[k] = walk(x[k])
            return x
        return walk(e)
    for i in range(40 if quick else 1500):
        gc.in_where = True
        w = park(gc.flatchain(rng.choice([1, 2, 3])) if i % 2 else gc.pred(2))
        gc.in_where = False
        sel = [{"al": "id", "e": exprgen.col("id")}, {"al": "r0", "e": park(gc.numexpr(2))}]
        if sel[1]["e"]["t"] == "num": sel.pop()
        meta = {"fam": "direct", "star": 0, "chan": 0, "sel": sel, "where": w, "profile": "concurrent", "conc": 1}
        sc = {"meta": meta, "sql": "SELECT " + ", ".join(it["al"] if it["al"] == "id" else "%s AS %s" % (sql(it["e"]), it["al"]) for it in sel) + " FROM stream WHERE " + sql(w),
              "rows": [gc.row(j + 1) for j in range(rng.choice([8, 12]))], "mode": "sync", "concsync": rng.choice([4, 8]), "seed": rng.randrange(1 << 30), "chan": False}
        scen.append(sc)
    seqfam.run_scenarios(res, scen, "TraceDirect", tag="expr", relayout_p=0.3, retype_p=0.3, rename_p=0.3)
    seqfam.run_pinned(res, "TraceDirect")
    nerr = sum(1 for w, _ in res.violations if w.startswith("engine_execerr"))
    res.cov["exhaustive"] = False
    res.cov["distinct_nontrivial"] = len({s["sql"] for s in scen if len(s["sql"]) > 40})
    res.cov["profiles"] = [p[0] for p in PROFILES]
    res.cov["rule"] = ("seeded expression ASTs of depth <= %d in six profiles (arithmetic incl. NULL/missing/nested paths; top-level CASE; string functions; comparisons as select items; "
                       "full WHERE predicates with AND/OR/parentheses/strings/functions on non-NULL data; WHERE on NULL/missing data), rows mixing int / float64 / string / NULL / missing / nested values; "
                       "all scenarios of a run share one process (hence the process-wide compiled-program and preprocess caches), both Emit and EmitSync; "
                       "plus the pinned inputs of the recorded findings; distinct = distinct non-trivial SQL texts") % (2 if quick else 3)
    res.assumptions = ASSUME
    cfg = "SPECIFICATION Spec\nINVARIANTS Laws\nCHECK_DEADLOCK FALSE\n"
    seqfam.model(res, seqfam.SEM, "ExprLaws", cfg, "ExprLaws", {"values": "x,y in {NULL,-1,0,2,5/2}", "ops": "+ - * / cmp and or not case"})
    return res.finish()


if __name__ == "__main__":
    vlib.main(run)
