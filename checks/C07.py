import json, os, random, sys
from fractions import Fraction
sys.path.insert(0, os.path.dirname(os.path.abspath(__file__)))
import seqfam, vlib, exprgen
from exprgen import sql, col, num, par

ASSUME = ["one event-time tumbling batch with 3-4 groups closed by a flush row; results observed at a synchronous sink",
          "aggregates count/sum/avg/min/max over a plain column; expression arguments are C03's business",
          "when LIMIT is present the ORDER BY keys are pairwise different across groups (no ties), so 'the first n rows' is unambiguous",
          "division only by non-zero literals; small integer inputs",
          "an addition with a NULL aggregate operand (a group whose inputs are all NULL) is screened out of the seeded programs: pinned finding AggNullPlusIsString"]
FNS = ["sum", "avg", "min", "max", "count"]


def aggref_mul(fn, c, k):
    """the aggregate's argument is the column times a literal (sum(v * 2)): evaluated per row before aggregation"""
    return {"t": "col", "c": "%s_m%d_%s" % (fn, k, c), "_fn": fn, "_arg": "%s * %d" % (c, k), "_col": c, "_mul": k}


def aggref(fn, c, absf=False):
    if absf:        # the aggregate's argument is abs(column): evaluated per row before aggregation
        return {"t": "col", "c": "%s_abs_%s" % (fn, c), "_fn": fn, "_arg": "abs(%s)" % c, "_col": c, "_abs": 1}
    return {"t": "col", "c": "%s_%s" % (fn, c), "_fn": fn, "_arg": c}


def aggref_nth(c, n):
    """nth_value(c, n): a parameterised aggregate - calls that differ in the parameter only are different aggregates"""
    return {"t": "col", "c": "nth%d_%s" % (n, c), "_fn": "nth_value", "_arg": "%s, %d" % (c, n), "_col": c, "_p": n}


def agg_sql(e):
    """render an AST whose column references are aggregate keys"""
    t = e["t"]
    if t == "col" and "_fn" in e:
        return "%s(%s)" % (e["_fn"], e["_arg"])
    if t == "col":
        return e["c"]
    if t == "bin":
        p = exprgen.PREC[e["op"]]
        def w(x, pp):
            s = agg_sql(x)
            return "(" + s + ")" if exprgen.prec(x) < pp else s
        return w(e["a"], p) + " " + e["op"] + " " + w(e["b"], p + 1)
    if t == "par":
        return "(" + agg_sql(e["a"]) + ")"
    if t == "cmp":
        return agg_sql(e["a"]) + " " + e["op"] + " " + agg_sql(e["b"])
    if t == "and":
        return agg_sql(e["a"]) + " AND " + agg_sql(e["b"])
    return sql(e)


def strip(e):
    if isinstance(e, dict):
        return {k: strip(v) for k, v in e.items() if not k.startswith("_")}
    if isinstance(e, list):
        return [strip(x) for x in e]
    return e


def collect(e, acc):
    if isinstance(e, dict):
        if "_fn" in e:
            acc[e["c"]] = {"key": e["c"], "fn": "count" if e["_fn"] == "count" else e["_fn"], "arg": e.get("_col", e["_arg"]), "abs": e.get("_abs", 0), "p": e.get("_p", 0), "mul": e.get("_mul", 0)}
        for v in e.values():
            collect(v, acc)
    elif isinstance(e, list):
        for x in e:
            collect(x, acc)


def item(rng, shape):
    a = aggref(rng.choice(FNS), rng.choice(["v", "w"]))
    lit = num(rng.choice([1, 2, 3, 10]))
    op = rng.choice(["+", "-", "*", "/"])
    if shape == 0: return a
    if shape == 1: return {"t": "bin", "op": op, "a": a, "b": lit}
    if shape == 2: return {"t": "bin", "op": rng.choice(["+", "-", "*"]), "a": lit, "b": a}
    b = aggref(rng.choice(FNS), rng.choice(["v", "w"]))
    if shape == 3: return {"t": "bin", "op": rng.choice(["+", "-", "*"]), "a": a, "b": b}
    if shape == 4: return {"t": "bin", "op": rng.choice(["*", "/", "+"]), "a": par({"t": "bin", "op": rng.choice(["+", "-"]), "a": a, "b": b}), "b": num(rng.choice([2, 4]))}
    if shape == 9:     # an aggregate followed by a PARENTHESISED literal expression
        return {"t": "bin", "op": rng.choice(["*", "/", "+"]), "a": a, "b": par({"t": "bin", "op": rng.choice(["+", "*"]), "a": num(rng.choice([1, 2])), "b": num(rng.choice([2, 3, 5]))})}
    if shape == 8:     # two aggregates over DIFFERENT expression arguments in one item: each aggregates its own expression
        f1, f2 = rng.choice(["sum", "max", "min", "avg"]), rng.choice(["sum", "max", "min"])
        return {"t": "bin", "op": rng.choice(["+", "-", "*"]), "a": aggref(f1, "v", True), "b": aggref(f2, "w", True)}
    if shape == 10:    # two calls of a PARAMETERISED aggregate over one column that differ in the parameter only
        n1, n2 = rng.sample([1, 2, 3], 2)
        return {"t": "bin", "op": rng.choice(["-", "*", "-"]), "a": aggref_nth(rng.choice(["v", "w"]) if False else "w", n1), "b": aggref_nth("w", n2)}
    if shape == 11:    # aggregates over ARITHMETIC arguments inside an arithmetic item: sum(v * 2) - sum(w * 3), 2 * max(v * 3)
        f1, f2 = rng.choice(["sum", "max", "min", "avg"]), rng.choice(["sum", "max", "min"])
        if rng.random() < 0.4:
            return {"t": "bin", "op": rng.choice(["*", "+", "-"]), "a": num(rng.choice([2, 3])), "b": aggref_mul(f1, "w", rng.choice([2, 3]))}
        return {"t": "bin", "op": rng.choice(["-", "+", "*"]), "a": aggref_mul(f1, "w", rng.choice([2, 3])), "b": aggref_mul(f2, "w", rng.choice([4, 5]))}
    if shape == 6: return {"t": "bin", "op": "+", "a": num(1), "b": {"t": "bin", "op": "*", "a": num(2), "b": a}}      # 1 + 2*agg(x)
    return {"t": "bin", "op": "+", "a": {"t": "bin", "op": "*", "a": a, "b": num(2)}, "b": num(1)}      # agg(x)*2+1


def absv(x, d):
    if d.get("mul") and x is not None: return x * d["mul"]
    return abs(x) if (d.get("abs") and x is not None) else x


def pyagg(fn, vals, p=0):
    u = [Fraction(x) for x in vals if x is not None]
    if fn == "count": return Fraction(len(u))
    if fn == "nth_value": return u[p - 1] if len(u) >= p else None
    if not u: return None
    return {"sum": sum(u), "avg": sum(u) / len(u), "min": min(u), "max": max(u)}[fn]


def pyeval(e, env):
    t = e["t"]
    if t == "col": return env.get(e["c"])
    if t == "num": return Fraction(e["n"], e["d"])
    if t == "par": return pyeval(e["a"], env)
    a, b = pyeval(e["a"], env), pyeval(e["b"], env)
    if a is None or b is None: return None
    if e["op"] == "/": return a / b if b != 0 else None
    return {"+": a + b, "-": a - b, "*": a * b}[e["op"]]


def null_plus(e, env):
    """does evaluating e hit  NULL + x  or  x + NULL ?"""
    if not isinstance(e, dict) or "t" not in e:
        return False
    if e["t"] == "bin":
        if e["op"] == "+" and (pyeval(e["a"], env) is None or pyeval(e["b"], env) is None):
            return True
        return null_plus(e["a"], env) or null_plus(e["b"], env)
    if e["t"] in ("par",):
        return null_plus(e["a"], env)
    if e["t"] in ("cmp", "and"):
        return null_plus(e["a"], env) or null_plus(e["b"], env)
    return False


def mk(rng, nsel, having_kind, norder, limit, distinct, tie_first=False):
    groups = ["a", "b", "c", "d"][:rng.choice([3, 3, 4])]
    rows, rid = [], 0
    for _ in range(rng.choice([7, 9, 11])):
        rid += 1
        rows.append({"id": rid, "ts": 1000 + rid, "g": rng.choice(groups), "v": rng.choice([1, 2, 3, 5, 8, 13, None, -4]), "w": rng.choice([0, 1, 4, 6, 9, -2])})
    n = len(rows)
    rows.append({"id": n + 1, "ts": 40000, "g": "zz", "v": 1, "w": 1})
    gsel = 0 if (distinct and rng.random() < 0.6) else 1
    sel = []
    for k in range(nsel):
        # shapes 1 and 5 (an item that STARTS with one aggregate call followed by arithmetic, e.g. avg(v) + 3) are a pinned finding (AggThenArithmeticPerRow)
        sel.append({"al": "c%d" % k, "e": item(rng, rng.choice([0, 2, 3, 4, 0, 2, 3, 4, 6, 8, 9, 10, 11]))})
    if distinct and not gsel and rng.random() < 0.5:
        # un-aliased plain aggregates (reported under their text, e.g. max(v)): DISTINCT still sees every delivered column
        sel = [{"al": "%s(%s)" % (f, c), "e": aggref(f, c), "unaliased": 1} for f, c in rng.sample([(f, c) for f in FNS for c in ("v", "w")], nsel)]
    if rng.random() < 0.15 and not sel[0].get("unaliased"):      # an alias that CONTAINS a keyword (cases, ordering): it is a name
        sel[0]["al"] = rng.choice(["cases", "case_n", "ordering"])
    if tie_first:      # first select item = count(v) (few distinct values: ties), the others as usual
        sel[0] = {"al": "c0", "e": aggref("count", "v")}
    having = None
    if having_kind == "alias":
        having = {"t": "cmp", "op": rng.choice([">", ">=", "<", "<="]), "a": col(sel[0]["al"]), "b": num(rng.choice([2, 5, 10, 20]))}
    elif having_kind == "agg":
        having = {"t": "cmp", "op": rng.choice([">", ">=", "<", "<="]), "a": aggref(rng.choice(FNS), rng.choice(["v", "w"])), "b": num(rng.choice([2, 5, 10]))}
    elif having_kind == "and2":
        f = rng.choice(FNS)
        having = {"t": "and", "a": {"t": "cmp", "op": ">", "a": aggref(f, "v"), "b": num(rng.choice([1, 3]))},
                  "b": {"t": "cmp", "op": "<", "a": aggref(f, "w"), "b": num(rng.choice([5, 8, 20]))}}      # same function, different columns, both possibly unselected
    order = []
    for k in range(norder):
        al = sel[k % len(sel)]["al"]
        if not any(o["al"] == al for o in order):
            order.append({"al": al, "desc": rng.choice([0, 1])})
    # reject scenarios whose first order key ties across groups when LIMIT or a multi-key order is used (python only screens inputs; TLC decides)
    defs = {}
    collect(sel, defs); collect(having, defs)
    if order:
        keyvals = []
        for g in set(r["g"] for r in rows[:n]):
            env = {k: pyagg(d["fn"], [absv(r.get(d["arg"]), d) for r in rows[:n] if r["g"] == g], d.get("p", 0)) for k, d in defs.items()}
            keyvals.append(tuple(pyeval(strip(ItemE(sel, o["al"])), env) for o in order))
        # the order must be total on the batch: key tuples pairwise different (ties on the FIRST key are welcome when a second key breaks them)
        if any(v is None for kv in keyvals for v in kv) or len(set(keyvals)) != len(keyvals):
            return None
        if limit and len(set(kv[0] for kv in keyvals)) != len(keyvals):
            return None              # with LIMIT the first key alone decides which rows are "the first n"
        for o in order:
            o["bare"] = 1 if (o["desc"] == 0 and rng.random() < 0.5) else 0      # ASC is the default: a key may be written without a direction
    # a '+' with a NULL aggregate operand (all inputs of the group NULL) is the pinned finding AggNullPlusIsString: screen it out
    for g in set(r["g"] for r in rows[:n]):
        env = {k: pyagg(d["fn"], [absv(r.get(d["arg"]), d) for r in rows[:n] if r["g"] == g], d.get("p", 0)) for k, d in defs.items()}
        if any(null_plus(strip(it["e"]), env) for it in sel) or (having is not None and null_plus(strip(having), env)):
            return None
    txt = "SELECT " + ("DISTINCT " if distinct else "") + ("g, " if gsel else "") + ", ".join(agg_sql(it["e"]) if it.get("unaliased") else "%s AS %s" % (agg_sql(it["e"]), it["al"]) for it in sel)
    txt += " FROM stream GROUP BY g, TumblingWindow('10s')"
    if having is not None:
        txt += " HAVING " + agg_sql(having)
    txt += " WITH (TIMESTAMP='ts', TIMEUNIT='ms')"
    if order:
        txt += " ORDER BY " + ", ".join(o["al"] if o.get("bare") else "%s %s" % (o["al"], "DESC" if o["desc"] else "ASC") for o in order)
    if limit:
        txt += " LIMIT %d" % limit
    meta = {"fam": "postagg", "n": n, "aggdefs": list(defs.values()), "sel": strip(sel), "gsel": gsel, "order": order, "limit": limit, "distinct": 1 if distinct else 0}
    if having is not None:
        meta["having"] = strip(having)
    sc = {"meta": meta, "sql": txt, "rows": rows}
    if any(it.get("unaliased") for it in sel):
        sc["nofnupper"] = True        # an un-aliased item is reported under its text: the spelling of the function name is the column name
    return sc


def mk_multi(rng):
    """several consecutive batches of one statement with a HAVING over an aggregate that is NOT selected (or over an alias): each batch is
    judged from its own rows alone - also after batches in which HAVING kept nothing (the very first one, or one in the middle)"""
    groups = ["a", "b", "c"][:rng.choice([2, 3])]
    nb = rng.choice([2, 3, 4])
    fn = rng.choice(["max", "sum", "min", "count"])
    thr = rng.choice([5, 8, 10])
    small = rng.random() < 0.8       # most scenarios: at least one batch (the first, half of the time) in which no group passes
    empties = {0} if rng.random() < 0.5 else {rng.randrange(nb)}
    rows, rid, bounds = [], 0, []
    for b in range(nb):
        for _ in range(rng.choice([4, 5, 6])):
            rid += 1
            hi = [1, 2, 3] if (small and b in empties and fn != "count") else [1, 2, 3, 5, 8, 13, None, 9]
            rows.append({"id": rid, "ts": b * 10000 + 1000 + rid, "g": rng.choice(groups), "v": rng.choice(hi), "w": rng.choice([0, 1, 4, 6, 9, -2])})
        bounds.append(rid)
    rows.append({"id": rid + 1, "ts": nb * 10000 + 30000, "g": "zz", "v": 1, "w": 1})
    sel = [{"al": "c0", "e": aggref(rng.choice(["sum", "avg", "min", "count"]), rng.choice(["v", "w"]))}]
    if rng.random() < 0.5:
        sel.append({"al": "c1", "e": item(rng, rng.choice([0, 2, 3]))})
    if rng.random() < 0.7:
        having = {"t": "cmp", "op": rng.choice([">", ">="]), "a": aggref(fn, "v"), "b": num(thr if fn != "count" else 2)}      # usually not selected
    else:
        having = {"t": "cmp", "op": rng.choice([">", ">="]), "a": col("c0"), "b": num(rng.choice([3, 6, 10]))}
    defs = {}
    collect(sel, defs); collect(having, defs)
    lo = 0
    for hi_ in bounds:
        for g in set(r["g"] for r in rows[lo:hi_]):
            env = {k: pyagg(d["fn"], [absv(r.get(d["arg"]), d) for r in rows[lo:hi_] if r["g"] == g], d.get("p", 0)) for k, d in defs.items()}
            if any(null_plus(strip(it["e"]), env) for it in sel) or null_plus(strip(having), env):
                return None
        lo = hi_
    txt = "SELECT g, " + ", ".join("%s AS %s" % (agg_sql(it["e"]), it["al"]) for it in sel) + " FROM stream GROUP BY g, TumblingWindow('10s') HAVING " + agg_sql(having) + " WITH (TIMESTAMP='ts', TIMEUNIT='ms')"
    meta = {"fam": "postagg", "n": bounds[0], "bounds": bounds, "aggdefs": list(defs.values()), "sel": strip(sel), "gsel": 1, "order": [], "limit": 0, "distinct": 0, "having": strip(having)}
    return {"meta": meta, "sql": txt, "rows": rows}


def mk_multi_order(rng):
    """several consecutive batches under ORDER BY (and LIMIT): every batch is sorted and cut on its own rows - also when it holds fewer
    groups than an earlier batch did (nothing of an earlier batch takes part in a later sort)"""
    nb = rng.choice([2, 3, 4])
    sizes = sorted([rng.choice([2, 3, 4]) for _ in range(nb)], reverse=rng.random() < 0.7)       # mostly shrinking batches
    allg = ["a", "b", "c", "d", "e", "f", "h", "i"]
    rows, rid, bounds = [], 0, []
    desc = rng.choice([0, 1])
    for b in range(nb):
        groups = rng.sample(allg, sizes[b])
        # later batches hold values that sort BEHIND / AHEAD of the earlier ones, so that a leftover row of an earlier batch would surface
        base = (b * 40) if (desc == 0) else ((nb - b) * 40)
        vals = rng.sample(range(1, 30), sizes[b])
        for g, v in zip(groups, vals):
            for _ in range(rng.choice([1, 2])):
                rid += 1
                rows.append({"id": rid, "ts": b * 10000 + 1000 + rid, "g": g, "v": base + v, "w": rng.choice([0, 1, 4, 6])})
        bounds.append(rid)
    rows.append({"id": rid + 1, "ts": nb * 10000 + 30000, "g": "zz", "v": 1, "w": 1})
    sel = [{"al": "c0", "e": aggref(rng.choice(["max", "min"]), "v")}, {"al": "c1", "e": aggref(rng.choice(["sum", "count"]), "w")}]
    order = [{"al": "c0", "desc": desc, "bare": 0}]
    limit = rng.choice([0, 0, 1, 2])
    defs = {}
    collect(sel, defs)
    lo = 0
    for hi_ in bounds:      # the order must be total on every batch
        keys = []
        for g in set(r["g"] for r in rows[lo:hi_]):
            env = {k: pyagg(d["fn"], [absv(r.get(d["arg"]), d) for r in rows[lo:hi_] if r["g"] == g], d.get("p", 0)) for k, d in defs.items()}
            keys.append(pyeval(strip(sel[0]["e"]), env))
        if any(k is None for k in keys) or len(set(keys)) != len(keys):
            return None
        lo = hi_
    txt = ("SELECT g, " + ", ".join("%s AS %s" % (agg_sql(it["e"]), it["al"]) for it in sel) + " FROM stream GROUP BY g, TumblingWindow('10s') WITH (TIMESTAMP='ts', TIMEUNIT='ms') ORDER BY c0 "
           + ("DESC" if desc else "ASC") + (" LIMIT %d" % limit if limit else ""))
    meta = {"fam": "postagg", "n": bounds[0], "bounds": bounds, "aggdefs": list(defs.values()), "sel": strip(sel), "gsel": 1, "order": order, "limit": limit, "distinct": 0}
    return {"meta": meta, "sql": txt, "rows": rows}


def join_variant(sc, rng):
    """the same statement with the group column taken from a joined table and reported under an alias (SELECT m.loc AS site ...
    GROUP BY m.loc), HAVING naming it by its qualified name: the post-aggregation clauses see the same groups. The table maps g to
    itself, so the monitor's grouping by the stream column g is the grouping by m.loc; the driver maps the output column back."""
    if not sc["meta"]["gsel"] or sc["meta"]["distinct"]:
        return None
    groups = sorted({r["g"] for r in sc["rows"]})
    sql0 = sc["sql"]
    if "SELECT g, " not in sql0 or " FROM stream GROUP BY g, " not in sql0:
        return None
    txt = sql0.replace("SELECT g, ", "SELECT m.loc AS site, ", 1).replace(" FROM stream GROUP BY g, ", " FROM stream JOIN meta m ON g = m.g GROUP BY m.loc, ", 1)
    guard = rng.choice(["m.loc IS NOT NULL", "m.loc LIKE '%'", "m.loc != 'qq'"])      # true for every group
    if " HAVING " in txt:
        txt = txt.replace(" HAVING ", " HAVING %s AND " % guard, 1)
    else:
        txt = txt.replace(" WITH (TIMESTAMP", " HAVING %s WITH (TIMESTAMP" % guard, 1)
    out = dict(sc, sql=txt, tables=[{"name": "meta", "rows": [{"g": x, "loc": x} for x in groups], "keys": ["g"]}], colmap={"g": "site"}, norename=True)
    return out


def ItemE(sel, al):
    return [it["e"] for it in sel if it["al"] == al][0]


sys.path.insert(0, os.path.dirname(os.path.abspath(__file__)))


def run(tier):
    res = vlib.Result("C07", tier)
    rng = random.Random(vlib.seed())
    quick = tier == "quick"
    scen = []
    want = 1500 if quick else 40000
    while len(scen) < want:
        i = len(scen)
        sc = mk(rng, rng.choice([1, 2, 2, 3]), [None, "alias", "agg", "and2"][i % 4], [0, 1, 1, 2][(i // 4) % 4], [0, 0, 1, 2, 5][(i // 16) % 5] if (i // 4) % 4 else ([1, 2][(i // 64) % 2] if (i // 32) % 2 else 0), i % 11 == 0)      # LIMIT also without ORDER BY: any n of the survivors
        if sc is not None:
            scen.append(sc)
    nj = 0
    for sc in list(scen):
        if nj >= (150 if quick else 4000): break
        if "and" in json.dumps(sc["meta"].get("having", {})): continue
        jv = join_variant(sc, rng)
        if jv is not None:
            scen.append(jv); nj += 1
    # ORDER BY with ties on the first key broken by a second key (the first key is a small count)
    made = 0
    while made < (150 if quick else 5000):
        sc = mk(rng, 3, None, 2, 0, False, tie_first=True)
        if sc is not None:
            scen.append(sc); made += 1
    # HAVING built from LIKE / IS [NOT] NULL over a text aggregate (the carrier C13 uses): rejected groups stay out
    import C13
    for _ in range(100 if quick else 4000):
        scen.append(C13.having_scen(rng, ["like", "notnull", "isnull", "like_and_notnull", "notnull_and_like"], ["a%", "%b", "a_", "%", "%a%", "a%b", "_"]))
    made = 0
    while made < (120 if quick else 4000):
        sc = mk_multi(rng)
        if sc is not None:
            scen.append(sc); made += 1
    made = 0
    while made < (100 if quick else 3000):
        sc = mk_multi_order(rng)
        if sc is not None:
            scen.append(sc); made += 1
    seqfam.run_scenarios(res, scen, "TracePostAgg", tag="postagg", relayout_p=0.3, retype_p=0.3, rename_p=0.3)
    seqfam.run_pinned(res, "TracePostAgg")
    res.cov["exhaustive"] = False
    res.cov["distinct_nontrivial"] = len({s["sql"] for s in scen})
    res.cov["rule"] = ("seeded programs from the grammar: 1-3 select items of the shapes agg(x), agg(x) op lit, lit op agg(x), agg(x) op agg(y), (agg(x) op agg(y)) op lit, agg(x)*2+1; "
                       "HAVING none / alias cmp lit / agg cmp lit (selected or not) / conjunction of two calls of the same function over different columns; ORDER BY 0-2 keys ASC/DESC; LIMIT none/1/2/5; DISTINCT with or without the group column; "
                       "each on a batch of 7-11 rows in 3-4 groups with NULLs; distinct = distinct SQL texts")
    res.assumptions = ASSUME
    cfg = "SPECIFICATION Spec\nINVARIANTS Laws\nCHECK_DEADLOCK FALSE\n"
    seqfam.model(res, seqfam.SEM, "ExprLaws", cfg, "ExprLaws", {"purpose": "the interpreter that evaluates post-aggregation arithmetic and HAVING"})
    return res.finish()


if __name__ == "__main__":
    vlib.main(run)
