import itertools, json, os, random, sys
sys.path.insert(0, os.path.dirname(os.path.abspath(__file__)))
import seqfam, vlib, exprgen
from exprgen import sql, col, num

ASSUME = ["function definitions as implemented and commented in functions/analytic_*.go / functions_analytical.go (the user documentation gives syntax only)",
          "live partitions stay below the configured cap except in the dedicated cap scenarios, where only partitions never evicted are judged",
          "WHEN / start / reset / WHERE conditions are simple comparisons of a column with a literal", "single producer, lock-step"]
MISSING = "__missing__"


def call_sql(c, conds):
    fn, v = c["fn"], c["col"]
    if fn == "lag":
        args = [v]
        if c["off"] != 1 or c["hasdef"] or c["ign"] == 0: args.append(str(c["off"]))
        if c["hasdef"] or c["ign"] == 0: args.append(c["defcol"] if c["hasdef"] == 2 else str(c["_defpy"]) if c["hasdef"] else "0")
        if c["ign"] == 0: args.append("false")
        return "lag(%s)" % ", ".join(args)
    if fn == "latest":
        return "latest(%s%s)" % (v, ", %s" % c["_defpy"] if c["hasdef"] else "")
    if fn in ("had_changed", "changed_col"):
        return "%s(%s, %s)" % (fn, "true" if c["ign"] else "false", v)
    args = [v]
    if c["start"]: args.append(sql(conds[c["start"] - 1]))
    if c["reset"]: args.append(sql(conds[c["reset"] - 1]))
    return "%s(%s)" % (fn, ", ".join(args))


def absnum(n):
    return {"k": "num", "v": n * 10000}


def mk(rng, quick):
    conds = [{"t": "cmp", "op": ">", "a": col("v"), "b": num(1)}, {"t": "cmp", "op": "<", "a": col("v"), "b": num(0)}, {"t": "cmp", "op": "=", "a": col("w"), "b": num(1)}]
    ncalls = rng.choice([1, 2, 2, 3])
    calls = []
    for i in range(ncalls):
        fn = rng.choice(["lag", "lag", "latest", "had_changed", "changed_col", "acc_sum", "acc_count", "acc_avg", "acc_min", "acc_max"])
        c = {"al": "a%d" % i, "fn": fn, "col": "v", "off": 1, "hasdef": 0, "def": {"k": "null"}, "ign": 1, "start": 0, "reset": 0, "show": 1}
        if fn == "lag":
            c["off"] = rng.choice([1, 1, 2])
            r0 = rng.random()
            if r0 < 0.4:
                c["hasdef"], c["_defpy"] = 1, -1
                c["def"] = absnum(-1)
                if rng.random() < 0.5:
                    c["ign"] = 0
            elif r0 < 0.6:
                # the default is a column: evaluated on the row that needs it (offset 2, or leading NULLs under ignoreNull)
                c["hasdef"], c["defcol"] = 2, "w"
                c["off"] = rng.choice([1, 2, 2])
        elif fn == "latest":
            if rng.random() < 0.4:
                c["hasdef"], c["_defpy"], c["def"] = 1, 7, absnum(7)
        elif fn in ("had_changed", "changed_col"):
            c["ign"] = rng.choice([0, 1])
        else:
            r = rng.random()
            if r < 0.3: c["start"] = 1
            elif r < 0.5: c["start"], c["reset"] = 1, 2
        calls.append(c)
    ccgroup = None
    if rng.random() < 0.15:
        # changed_cols(prefix, ignoreNull, v, w): ONE call that reports every listed column that changed under prefix + its name (the others are
        # absent); per column it is changed_col's state machine - a NULL / missing value under ignoreNull neither counts as a change nor
        # replaces the baseline
        ign = rng.choice([0, 1, 1])
        calls = [{"al": "c_" + cname, "fn": "changed_col", "col": cname, "off": 1, "hasdef": 0, "def": {"k": "null"}, "ign": ign, "start": 0, "reset": 0, "show": 1} for cname in ("v", "w")]
        ccgroup = 'changed_cols("c_", %s, v, w)' % ("true" if ign else "false")
    part = rng.choice(["", "k", "k"])
    when = None
    if rng.random() < 0.3:
        when = conds[2]
    wmode, where, wop, wlit = "plain", None, ">", 0
    r = rng.random()
    if r < 0.25:
        where = {"t": "cmp", "op": rng.choice([">", ">="]), "a": col("w"), "b": num(rng.choice([0, 1]))}
    elif r < 0.4:
        wmode = "analytic"
    over = ""
    if part or when is not None:
        over = " OVER (" + ("PARTITION BY k" if part else "") + ((" " if part else "") + "WHEN " + sql(when) if when is not None else "") + ")"
    if ccgroup:
        wmode = "plain"
    if wmode == "analytic":
        c0 = calls[0]
        if c0["fn"] in ("had_changed", "changed_col", "latest") or c0["fn"] == "lag":
            c0.update(fn="acc_sum", off=1, hasdef=0, ign=1, start=0, reset=0)
            c0["def"] = {"k": "null"}
        c0["show"] = 0
        wop, wlit = rng.choice([">", "<"]), rng.choice([2, 4, 6])
        if rng.random() < 0.5:
            calls = calls[:1]
        # analytic calls in the SELECT list next to an analytic WHERE: they, too, see EVERY row (the WHERE is evaluated after them)
        txt = "SELECT id, v%s FROM stream WHERE %s%s %s %d" % ("".join(", %s%s AS %s" % (call_sql(c, conds), over, c["al"]) for c in calls[1:]), call_sql(c0, conds), over, wop, wlit)
    else:
        txt = "SELECT id, " + ", ".join("%s%s AS %s" % (call_sql(c, conds), over, c["al"]) for c in calls) + " FROM stream"
        if ccgroup:
            txt = "SELECT id, " + ccgroup + over + " FROM stream"
        if where is not None:
            txt += " WHERE " + sql(where)
    nparts = rng.choice([1, 2, 3])
    # partition values: texts, small integers, or float64 values that agree in their first six significant digits
    pool = rng.choice([["p", "q", "r"], ["p", "q", "r"], [7, 8, 9], [{"$f": 100001.5}, {"$f": 100002.5}, {"$f": 100002.25}]])
    rows = []
    for i in range(rng.choice([4, 6, 8] if quick else [6, 8, 12])):
        row = {"id": i + 1, "k": rng.choice(pool[:nparts]), "w": rng.choice([0, 1, 1, 2])}
        x = rng.choice([None, MISSING, 1, 1, 2, 3, -1, {"$f": 2.5}])
        if x != MISSING: row["v"] = x
        if ccgroup:      # values that come back after a gap (v, NULL, v), in both columns
            row["v"] = rng.choice([1, 1, 2, None]); row["w"] = rng.choice([5, 5, None, 6])
            if rng.random() < 0.2: del row["v"]
            if rng.random() < 0.2: del row["w"]
        rows.append(row)
    wraps = []
    numeric = lambda c: c["fn"] not in ("had_changed", "changed_col")
    if wmode == "plain" and len(calls) >= 2 and numeric(calls[0]) and numeric(calls[1]) and rng.random() < 0.5:
        # a wrapper expression over two calls: both are applied to every row; the item is their arithmetic
        op = rng.choice(["-", "*", "-"])
        wraps.append({"al": "wr", "op": op, "a": 1, "b": 2})
        calls[0]["show"] = 0; calls[1]["show"] = 0
        # one trailing OVER governs the whole wrapper
        items = ["%s %s %s%s AS wr" % (call_sql(calls[0], conds), op, call_sql(calls[1], conds), over)] + ["%s%s AS %s" % (call_sql(c, conds), over, c["al"]) for c in calls[2:]]
        txt = "SELECT id, " + ", ".join(items) + " FROM stream" + (" WHERE " + sql(where) if where is not None else "")
    meta = {"fam": "analytic", "wraps": wraps, "calls": [{k: v for k, v in c.items() if not k.startswith("_")} for c in calls], "part": part, "conds": conds, "wmode": wmode, "wop": wop, "wlit": wlit * 10000}
    if when is not None: meta["when"] = when
    if where is not None: meta["where"] = where
    if ccgroup:      # the output columns are named after the data columns (c_v): the name layer does not apply
        return {"meta": meta, "sql": txt, "rows": rows, "norename": True}
    return {"meta": meta, "sql": txt, "rows": rows}


def star_scen(rng):
    """had_changed(ign, *): whole rows (no unique id column) over columns a, b with values coming and going"""
    ign = rng.choice([0, 1, 1])
    part = rng.choice(["", "k"])
    call = {"al": "a0", "fn": "had_changed_star", "col": "a", "off": 1, "hasdef": 0, "def": {"k": "null"}, "ign": ign, "start": 0, "reset": 0, "show": 1}
    over = " OVER (PARTITION BY k)" if part else ""
    rows = []
    for i in range(rng.choice([5, 7, 9])):
        r = {}
        if part: r["k"] = rng.choice(["p", "q"])
        for c in ("a", "b"):
            x = rng.choice([1, 1, 2, None, MISSING])
            if x != MISSING: r[c] = x
        rows.append(r)
    meta = {"fam": "analytic", "wraps": [], "calls": [call], "part": part, "conds": [], "wmode": "plain", "wop": ">", "wlit": 0}
    return {"meta": meta, "sql": "SELECT had_changed(%s, *)%s AS a0 FROM stream" % ("true" if ign else "false", over), "rows": rows}


def cols_scen(rng):
    """had_changed(ign, c1, c2, c3): the listed columns one by one, NULLs and absent columns in any position of the list"""
    ign = rng.choice([0, 1, 1, 1])
    part = rng.choice(["", "k"])
    cols = rng.choice([["a", "b"], ["a", "b", "c"], ["b", "a"]])
    call = {"al": "a0", "fn": "had_changed_cols", "col": "a", "cols": cols, "off": 1, "hasdef": 0, "def": {"k": "null"}, "ign": ign, "start": 0, "reset": 0, "show": 1}
    over = " OVER (PARTITION BY k)" if part else ""
    rows = []
    for i in range(rng.choice([6, 8, 10])):
        r = {"id": i + 1}
        if part: r["k"] = rng.choice(["p", "q"])
        for c in ("a", "b", "c"):
            x = rng.choice([1, 1, 1, 2, None, None, MISSING])
            if x != MISSING: r[c] = x
        rows.append(r)
    meta = {"fam": "analytic", "wraps": [], "calls": [call], "part": part, "conds": [], "wmode": "plain", "wop": ">", "wlit": 0}
    return {"meta": meta, "sql": "SELECT id, had_changed(%s, %s)%s AS a0 FROM stream" % ("true" if ign else "false", ", ".join(cols), over), "rows": rows}


def casewrap_scen(rng):
    """a boolean analytic call inside a CASE: the item is the CASE of the call's value on this row (had_changed over one column, over
    several, over the whole row)"""
    ign = rng.choice([0, 1, 1])
    kind = rng.choice(["one", "cols", "star", "star"])
    rows = []
    for i in range(rng.choice([5, 7, 9])):
        r = {}
        for c in ("a", "b"):
            x = rng.choice([1, 1, 2, None, MISSING])
            if x != MISSING: r[c] = x
        rows.append(r)
    t = "true" if ign else "false"
    if kind == "one":
        call = {"al": "a0", "fn": "had_changed", "col": "a", "off": 1, "hasdef": 0, "def": {"k": "null"}, "ign": ign, "start": 0, "reset": 0, "show": 0}
        txt = "had_changed(%s, a)" % t
    elif kind == "cols":
        call = {"al": "a0", "fn": "had_changed_cols", "col": "a", "cols": ["a", "b"], "off": 1, "hasdef": 0, "def": {"k": "null"}, "ign": ign, "start": 0, "reset": 0, "show": 0}
        txt = "had_changed(%s, a, b)" % t
    else:
        call = {"al": "a0", "fn": "had_changed_star", "col": "a", "off": 1, "hasdef": 0, "def": {"k": "null"}, "ign": ign, "start": 0, "reset": 0, "show": 0}
        txt = "had_changed(%s, *)" % t
    meta = {"fam": "analytic", "wraps": [{"al": "x", "op": "case01", "a": 1, "b": 1}], "calls": [call], "part": "", "conds": [], "wmode": "plain", "wop": ">", "wlit": 0}
    return {"meta": meta, "sql": "SELECT CASE WHEN %s THEN 1 ELSE 0 END AS x FROM stream" % txt, "rows": rows, "norename": True}


def nested_part_scen(rng):
    """PARTITION BY a nested column while the row also carries a top-level column named like its last segment"""
    fn = rng.choice(["lag", "acc_sum", "acc_count", "latest"])
    call = {"al": "a0", "fn": fn, "col": "v", "off": 1, "hasdef": 0, "def": {"k": "null"}, "ign": 1, "start": 0, "reset": 0, "show": 1}
    rows = []
    for i in range(rng.choice([6, 8, 10])):
        rows.append({"id": i + 1, "v": rng.choice([1, 2, 3, 5]), "w": 1, "dev": {"kk": rng.choice(["p", "q"])}, "kk": rng.choice(["x", "y", "z"])})
    meta = {"fam": "analytic", "wraps": [], "calls": [call], "part": "dev.kk", "partpath": ["dev", "kk"], "conds": [], "wmode": "plain", "wop": ">", "wlit": 0}
    return {"meta": meta, "sql": "SELECT id, %s(v) OVER (PARTITION BY dev.kk) AS a0 FROM stream" % fn, "rows": rows}


def twoover_scen(rng, quick):
    """WHERE with the SAME call text under two different OVER clauses: each occurrence keeps a state of its own, partitioned its own way"""
    fn = rng.choice(["acc_sum", "acc_count", "acc_max", "acc_min", "acc_sum"])
    first_part = rng.choice(["k", ""])
    c1 = {"al": "a0", "fn": fn, "col": "v", "off": 1, "hasdef": 0, "def": {"k": "null"}, "ign": 1, "start": 0, "reset": 0, "show": 0, "part": first_part}
    c2 = dict(c1, al="a1", part="" if first_part else "k")
    wop = rng.choice(["<", ">", "<", ">", ">=", "<="])   # not "=": NULL = NULL is the recorded deviation NullEqualsNullIsTrue (C06)
    ov = lambda c: " OVER (PARTITION BY k)" if c["part"] else ""
    txt = "SELECT id, v FROM stream WHERE %s(v)%s %s %s(v)%s" % (fn, ov(c1), wop, fn, ov(c2))
    rows = []
    for i in range(rng.choice([5, 7, 9] if quick else [8, 10, 12])):
        row = {"id": i + 1, "k": rng.choice(["p", "q", "r"][:rng.choice([2, 3])]), "w": 1}
        x = rng.choice([None, MISSING, 1, 1, 2, 3, -1, 0])
        if x != MISSING: row["v"] = x
        rows.append(row)
    meta = {"fam": "analytic", "wraps": [], "calls": [c1, c2], "part": "", "conds": [], "wmode": "analytic2", "wop": wop, "wlit": 0}
    return {"meta": meta, "sql": txt, "rows": rows}


COMPOSITE = [[1, 2], [1, 2], [2, 1], [1], {"a": 1}, {"a": 1}, {"a": 2}, {"a": 1, "b": "x"}, "s", 1, None, MISSING]


def composite_scen(rng, quick):
    """had_changed / changed_col / lag / latest over a column that carries lists and objects (decoded JSON): equal contents = unchanged"""
    calls = []
    for i in range(rng.choice([1, 2])):
        fn = rng.choice(["had_changed", "changed_col", "had_changed", "changed_col", "lag", "latest"])
        c = {"al": "a%d" % i, "fn": fn, "col": "v", "off": 1, "hasdef": 0, "def": {"k": "null"}, "ign": rng.choice([0, 1]) if fn in ("had_changed", "changed_col") else 1, "start": 0, "reset": 0, "show": 1}
        calls.append(c)
    part = rng.choice(["", "k", "k"])
    over = " OVER (PARTITION BY k)" if part else ""
    rows = []
    for i in range(rng.choice([5, 7, 9] if quick else [8, 10, 12])):
        row = {"id": i + 1, "k": rng.choice(["p", "q"]), "w": 1}
        x = rng.choice(COMPOSITE)
        if x != MISSING: row["v"] = x
        rows.append(row)
    meta = {"fam": "analytic", "wraps": [], "calls": calls, "part": part, "conds": [], "wmode": "plain", "wop": ">", "wlit": 0}
    return {"meta": meta, "sql": "SELECT id, " + ", ".join("%s%s AS %s" % (call_sql(c, []), over, c["al"]) for c in calls) + " FROM stream", "rows": rows}


def run(tier):
    res = vlib.Result("C14", tier)
    rng = random.Random(vlib.seed())
    quick = tier == "quick"
    scen = []
    for i in range(2500 if quick else 100000):
        sc = mk(rng, quick)
        # the synchronous and the asynchronous path must produce identical sequences: run the same scenario through both
        scen.append(sc)
        scen.append(dict(sc, mode="sync"))
    for i in range(150 if quick else 3000):
        sc = star_scen(rng)
        scen.append(sc); scen.append(dict(sc, mode="sync"))
    for i in range(150 if quick else 3000):
        sc = cols_scen(rng)
        scen.append(sc); scen.append(dict(sc, mode="sync"))
    for i in range(100 if quick else 2000):
        sc = casewrap_scen(rng)
        scen.append(sc); scen.append(dict(sc, mode="sync"))
    for i in range(80 if quick else 1500):
        sc = nested_part_scen(rng)
        scen.append(sc); scen.append(dict(sc, mode="sync"))
    for i in range(150 if quick else 3000):
        sc = twoover_scen(rng, quick)
        scen.append(sc); scen.append(dict(sc, mode="sync"))
    for i in range(200 if quick else 4000):
        sc = composite_scen(rng, quick)
        scen.append(sc); scen.append(dict(sc, mode="sync"))
    seqfam.run_scenarios(res, scen, "TraceAnalytic", tag="analytic", relayout_p=0.3, retype_p=0.3, rename_p=0.3)
    res.cov["exhaustive"] = False
    res.cov["distinct_nontrivial"] = len({s["sql"] + json.dumps(s["rows"], sort_keys=True) for s in scen})
    res.cov["rule"] = ("seeded queries with 1-3 analytic calls (lag with offset/default/ignoreNull, latest, had_changed, changed_col, acc_sum/count/avg/min/max with start and reset conditions), "
                       "optional OVER (PARTITION BY k [WHEN cond]), optional analytic-free WHERE or a WHERE that itself calls an analytic function; 4-12 rows over 1-3 interleaved partitions with NULL / missing / int / float values; "
                       "a WHERE that compares the same call text under two different OVER clauses (own state and partitioning per occurrence); had_changed / changed_col / lag / latest over list- and object-valued columns; had_changed(ign, *) and had_changed(ign, c1, c2[, c3]) with NULL / absent columns anywhere in the list; "
                       "every scenario through Emit and through EmitSync; distinct = distinct (SQL, rows)")
    res.assumptions = ASSUME
    cfg = "SPECIFICATION Spec\nINVARIANTS Laws\nCHECK_DEADLOCK FALSE\n"
    seqfam.model(res, seqfam.SEM, "ExprLaws", cfg, "ExprLaws", {"purpose": "interpreter of WHEN / start / reset / WHERE conditions"})
    return res.finish()


if __name__ == "__main__":
    vlib.main(run)
