import itertools, json, os, random, sys
sys.path.insert(0, os.path.dirname(os.path.abspath(__file__)))
import seqfam, vlib

ASSUME = ["the general engine's decision is observed on the parenthesised equivalent of the predicate text, which the shape recogniser declines",
          "predicates in expr-lang form (&&, ||, ==) for direct evaluation and in SQL form (AND, OR, =) through a WHERE clause with EmitSync",
          "HAVING / OVER-WHEN / TRIGGER-WHEN use the same condition.NewExprCondition entry point; they are exercised through C07/C14/C17's checks"]
VAL = {"f64": {"$f": 2.5}, "f64int": {"$f": 3.0}, "f32": {"$f32": 2.5}, "int": {"$i": 3}, "i64": {"$i64": 3}, "i32": {"$i32": 3}, "u": {"$u": 3}, "u64": {"$u64": 3}, "u32": {"$u32": 3},
       "i8": {"$i8": 3}, "i16": {"$i16": 3}, "u8": {"$u8": 3}, "u16": {"$u16": 3}, "nan": {"$nan": 1}, "pinf": {"$inf": 1}, "ninf": {"$inf": -1},
       "p53": {"$big": "9007199254740992", "t": "int64"}, "p53p1": {"$big": "9007199254740993", "t": "int64"}, "maxi64": {"$big": "9223372036854775807", "t": "int64"},
       "maxu64": {"$big": "18446744073709551615", "t": "uint64"}, "numstr": "3", "text": "ab", "boolt": True, "null": None,
       "f32x": {"$f32": 2.3}, "f32y": {"$f32": 0.1}, "f64x": {"$f": 2.3}, "tabtext": "a\tb", "rawtext": "a\\tb"}      # float32 values that are no binary fractions: widened as float64(x), not through their decimal spelling
LIT = {"int": "3", "neg": "-3", "frac": "2.5", "big": "9007199254740992", "str": "'ab'", "strnum": "'3'"}
LITX = dict(LIT, fracx="2.3", fracy="0.1", big1="9007199254740993", esc="'a\\tb'")      # an integer literal beyond 2^53; a text literal with an escape sequence      # chains only (the single-comparison space is the TLA+ model's)


def row(kinds):
    r = {}
    for c, k in kinds.items():
        if k != "missing":
            r[c] = VAL[k]
    return r


def term(c, op, lit):
    if c == "1": return "1 %s 1" % op            # a literal-only filler member (1 = 1)
    return "%s %s %s" % (c, op, LITX[lit])


MIRROR = {">": "<", ">=": "<=", "<": ">", "<=": ">=", "==": "==", "!=": "!="}


def rterm(c, op, lit):
    """the same comparison written literal-first"""
    if c == "1": return "1 %s 1" % op
    return "%s %s %s" % (LITX[lit], MIRROR[op], c)


def sqlop(op):
    return "=" if op == "==" else op


def run(tier):
    res = vlib.Result("C12", tier)
    rng = random.Random(vlib.seed())
    quick = tier == "quick"
    # (G) the single-comparison space, enumerated by TLC from the decision-table model
    cfg = "SPECIFICATION Spec\nINVARIANTS Emit CoversBoth\nCHECK_DEADLOCK FALSE\n"
    r = vlib.tlc(seqfam.SEM, "FastPath", cfg, workers=1, timeout=600)
    if not r["ok"]:
        raise vlib.Inconclusive("FastPath enumeration failed:\n" + r["out"][-2000:])
    res.add_model("FastPath", r, {"ops": 6, "literal_kinds": 6, "value_kinds": 25})
    pts = [json.loads(x[1]) for x in vlib.prints(r["out"], "SCEN")]
    seen, scen = set(), []
    for p in pts:
        key = (p["op"], p["lit"], p["kind"])
        if key in seen:
            continue
        seen.add(key)
        flat = term("x", p["op"], p["lit"])
        sc = {"meta": {"fam": "fast", "op": p["op"], "lit": p["lit"], "kind": p["kind"], "handled": p["handled"]}, "flat": flat, "general": "(" + flat + ")",
              "rows": [row({"x": p["kind"]})], "alt": [rterm("x", p["op"], p["lit"])]}
        if p["lit"] != "big" or True:
            sc["sql"] = "SELECT * FROM stream WHERE x %s %s" % (sqlop(p["op"]), LIT[p["lit"]])
        scen.append(sc)
    nsingle = len(scen)
    # flat AND / OR chains of 2-3 comparisons over x, y, z (pure chains take the compound fast path; mixed ones must fall back)
    kinds = list(VAL) + ["missing"]
    ops = [">", ">=", "<", "<=", "==", "!="]
    for _ in range(2500 if quick else 150000):
        n = rng.choice([2, 2, 3])
        cols = ["x", "y", "z"][:n]
        terms = [(c, rng.choice(ops), rng.choice(list(LITX))) for c in cols]
        if rng.random() < 0.15:      # the filler "1 = 1" (or a false one) among the members of a flat chain
            terms.insert(rng.randrange(len(terms) + 1), ("1", rng.choice(["==", "==", "!="]), "int"))
            n = len(terms)
        style = rng.choice(["and", "or", "mixed"])
        conns = {"and": ["&&"] * (n - 1), "or": ["||"] * (n - 1), "mixed": [rng.choice(["&&", "||"]) for _ in range(n - 1)]}[style]
        flat = term(*terms[0])
        for cn, t in zip(conns, terms[1:]):
            flat += " %s %s" % (cn, term(*t))
        # parenthesised equivalent honouring precedence (&& binds tighter than ||)
        gen = "(" + term(*terms[0]) + ")"
        for cn, t in zip(conns, terms[1:]):
            gen += " %s (%s)" % (cn, term(*t))
        rows = []
        for _r in range(4):
            ks = {c: (rng.choice(["int", "f64", "f64int", "text", "numstr", "f32x", "f32y", "f64x", "p53", "p53p1", "tabtext", "rawtext"]) if rng.random() < 0.6 else rng.choice(kinds)) for c in cols}
            rows.append(row(ks))
        sqlw = flat.replace("&&", "AND").replace("||", "OR").replace("==", "=")
        alt = rterm(*terms[0])
        for cn, t in zip(conns, terms[1:]):
            alt += " %s %s" % (cn, rterm(*t) if rng.random() < 0.7 else term(*t))
        sc = {"meta": {"fam": "fast", "style": style}, "flat": flat, "general": gen, "rows": rows, "sql": "SELECT * FROM stream WHERE " + sqlw, "alt": [alt]}
        if len(scen) % 10 == 0:
            sc["conc"] = 8          # several goroutines evaluate the compiled predicates at once
        scen.append(sc)
    # predicates that differ from an EARLIER one of the same process only in letter case / blanks inside a text literal or in the column's
    # spelling: each text has its own decision (exact string comparison; a column the row lacks is NULL: equal to no text, different from every text), whatever was compiled before
    nstr = 0
    for a, b in [("ab", "AB"), ("Ab", "aB"), ("a b", "a  b"), ("on", "ON"), ("x y", "x\ty")]:
        for op in ["==", "!="]:
            for lit in (a, b):
                for col, have in (("x", "x"), ("X", "x"), ("x", "X")):
                    vals = [a, b, lit.lower(), lit + " "]
                    rows = [{have: v} for v in vals]
                    flat = "%s %s '%s'" % (col, op, lit)
                    sv = [{"m": 0 if col == have else 1, "s": v} for v in vals]
                    scen.append({"meta": {"fam": "fast", "style": "strpair", "strq": {"op": op, "lit": lit, "vals": sv}}, "flat": flat, "general": "(" + flat + ")", "rows": rows,
                                 "sql": "SELECT * FROM stream WHERE %s %s '%s'" % (col, sqlop(op), lit), "alt": ["'%s' %s %s" % (lit, op, col)]})
                    nstr += 1
    seqfam.run_scenarios(res, scen, "TraceFastPath", tag="fast", sub="cond")
    res.cov["string_pair_predicates"] = nstr
    res.cov["exhaustive"] = True
    res.cov["distinct_nontrivial"] = len({s["flat"] + json.dumps(s["rows"], sort_keys=True) for s in scen})
    res.cov["rule"] = ("every single comparison of the decision-table model (6 operators x 6 literal kinds x 25 value kinds = %d points, enumerated by TLC, exhaustive) plus seeded flat chains of 2-3 comparisons "
                       "(pure &&, pure ||, mixed) over rows of all value kinds; each decided three ways on the real code: shortcut-eligible text, parenthesised text (general engine), and WHERE through EmitSync; "
                       "distinct = distinct (predicate, rows)") % nsingle
    res.assumptions = ASSUME
    return res.finish()


if __name__ == "__main__":
    vlib.main(run)
