"""Equivalent spellings of a statement (C11: keyword case and the amount of whitespace / line breaks between tokens change nothing).
Applied at random to the SQL of the sequential families, so that every family also exercises the parser's layout handling."""
import re

KEYWORDS = ["SELECT", "DISTINCT", "FROM", "WHERE", "GROUP BY", "HAVING", "WITH", "ORDER BY", "LIMIT", "AND", "OR", "AS", "JOIN", "LEFT", "ON", "DESC", "ASC",
            "CASE", "WHEN", "THEN", "ELSE", "END", "LIKE", "IS", "NOT", "NULL", "OVER", "PARTITION BY"]


def relayout(txt, rng):
    style = rng.choice([("upper", "plain"), ("lower", "plain"), ("mixed", "wide"), ("lower", "wide"), ("upper", "wide")])
    parts = re.split(r"('[^']*'|\"[^\"]*\"|`[^`]*`)", txt)
    out = []
    for p in parts:
        if p[:1] in ("'", '"', "`"):
            out.append(p)
            continue
        for kw in KEYWORDS:
            def rep(m):
                w = m.group(0)
                return {"lower": w.lower(), "mixed": "".join(c.upper() if i % 2 else c.lower() for i, c in enumerate(w)), "upper": w.upper()}[style[0]]
            p = re.sub(r"(?<![\w.])%s(?![\w.(])" % kw.replace(" ", r"\s+"), rep, p)
        if style[1] == "wide":
            p = re.sub(r" ", lambda m: rng.choice([" ", "  ", " \n ", "\t", "\r\n"]), p)
        out.append(p)
    return "".join(out)
