"""Equivalent spellings of a statement (C11: keyword case and the amount of whitespace / line breaks between tokens change nothing).
Applied at random to the SQL of the sequential families, so that every family also exercises the parser's layout handling."""
import re

KEYWORDS = ["SELECT", "DISTINCT", "FROM", "WHERE", "GROUP BY", "HAVING", "WITH", "ORDER BY", "LIMIT", "AND", "OR", "AS", "JOIN", "LEFT", "ON", "DESC", "ASC",
            "CASE", "WHEN", "THEN", "ELSE", "END", "LIKE", "IS", "NOT", "NULL", "OVER", "PARTITION BY", "TRUE", "FALSE", "true", "false"]


KEEP = {"vboom", "vboomsum", "vpark", "in", "and", "or", "not", "as", "on", "when", "then", "else", "over", "with", "by", "like", "is"}      # user functions registered under one spelling; words that may precede "("


def relayout(txt, rng, allow_fnupper=True):
    style = rng.choice([("upper", "plain"), ("lower", "plain"), ("mixed", "wide"), ("lower", "wide"), ("upper", "wide")])
    fnupper = allow_fnupper and rng.random() < 0.35
    parts = re.split(r"('[^']*'|\"[^\"]*\"|`[^`]*`)", txt)
    out = []
    for p in parts:
        if p[:1] in ("'", '"', "`"):
            out.append(p)
            continue
        for kw in KEYWORDS:
            def rep(m):
                w = m.group(0)
                return {"lower": w.lower(), "mixed": "".join(c.upper() if i % 2 else c.lower() for i, c in enumerate(w)), "upper": w.upper()}[style[0]]
            p = re.sub(r"(?<![\w.])%s(?![\w.(])" % kw.replace(" ", r"\s+"), rep, p)
        if fnupper:
            # function names in upper case (SUM(v), FIRST_VALUE(v), UPPER(s)): a function is the same function however it is spelled.
            # (mIxEd case function names are not resolved by the engine: pinned finding MixedCaseFunctionNameIsNull.)
            p = re.sub(r"(?<![\w.`])([a-z_][a-z0-9_]*)(?=\s*\()", lambda m: m.group(1) if m.group(1) in KEEP else m.group(1).upper(), p)
        if style[1] == "wide":
            p = re.sub(r" ", lambda m: rng.choice([" ", "  ", " \n ", "\t", "\r\n"]), p)
        out.append(p)
    return "".join(out)
