import itertools, json, os, random, re, sys
sys.path.insert(0, os.path.dirname(os.path.abspath(__file__)))
import seqfam, vlib

ASSUME = ["totality is decided for all token sequences up to the stated length over a 26-token alphabet plus seeded longer sequences and byte-level mutations of valid statements - not for all byte strings",
          "non-termination = no answer within 3 s", "faithfulness is compared on the clauses' projection of types.Config (select items in order with aliases, WHERE/HAVING text modulo spacing and the documented lowering of = / AND / OR, GROUP BY, window kind and parameters, WITH options, ORDER BY, LIMIT, DISTINCT, JOIN)",
          "'results unchanged by layout' is implied by equal configurations (the engine is built from the configuration alone)"]

LONGCASE = "CASE " + " ".join("WHEN v = %d THEN 'x%d'" % (i, i) for i in range(24)) + " ELSE 'z' END"      # about 150 tokens in ONE select item
SEL = {"cols": ("id, limit_x, order1", ["id", "limit_x", "order1"]), "aliases": ("id AS fromage, v AS selectee, 'a LIMIT 3' AS lit", ["fromage", "selectee", "lit"]),
       "index": ("id, m[1][0] AS mm, cfg['a']['b'] AS cb, rows[0].v AS rv, o.f AS of1", ["id", "mm", "cb", "rv", "of1"]),
       "indexkw": ("id, rows[0].limit AS rl, m[1].order AS mo, o.group AS og", ["id", "rl", "mo", "og"]),
       "longitem": ("id, " + LONGCASE + " AS big, w", ["id", "big", "w"]),
       "aggs": ("g, count(*) AS c, sum(v) AS s", ["g", "c", "s"]), "aggs2": ("g, avg(v) AS a, max(v) AS mx", ["g", "a", "mx"])}
LONGW = " AND ".join("v%d > %d" % (i, i) for i in range(45))          # 45 comparisons, about 180 tokens: a long clause is a clause
WHERE = {"none": ("", ""), "long": (LONGW, LONGW.replace(" AND ", "&&").replace(" ", "")), "cmp": ("v > 1", "v>1"), "pathkw": ("items[0].order > 1 AND v > 2 AND cfg['a'].limit < 9", "items[0].order>1&&v>2&&cfg['a'].limit<9"), "kwlit": ("v > 1 AND name != 'ORDER BY x'", "v>1&&name!='ORDERBYx'"), "andor": ("v >= 2 AND w < 5 OR g = 'WHERE'", "v>=2&&w<5||g=='WHERE'")}
WIN = {"none": ("", "", []), "tumbling": ("TumblingWindow('10s')", "tumbling", ["10000ms"]), "sliding": ("SlidingWindow('30s', '10s')", "sliding", ["30000ms", "10000ms"]),
       "counting": ("CountingWindow(5)", "counting", ["5"]), "session": ("SessionWindow('5m')", "session", ["300000ms"]), "global": ("GLOBAL WINDOW TRIGGER WHEN COUNT(*) >= 10", "global", [])}
HAVING = {"none": ("", ""), "alias": ("{a0} > 1", "{a0}>1"), "agg": ("max(w) >= 3", None)}    # an unselected aggregate is lowered to a hidden column: only "HAVING present" is compared
WITH = {"none": ("", "", 0, 0), "ts": ("TIMESTAMP='ts', TIMEUNIT='ms'", "ts", 1000, 0), "tsmoo": ("TIMESTAMP='evt', TIMEUNIT='ms', MAXOUTOFORDERNESS='2s'", "evt", 1000, 2000),
        # every unit name the parser and the engine's own messages mention (the projection gives the unit in microseconds)
        "uss": ("TIMESTAMP='ts', TIMEUNIT='ss'", "ts", 10**6, 0), "us_s": ("TIMESTAMP='ts', TIMEUNIT='s'", "ts", 10**6, 0), "uus": ("TIMESTAMP='ts', TIMEUNIT='us'", "ts", 1, 0),
        "umi": ("TIMESTAMP='ts', TIMEUNIT='mi'", "ts", 60 * 10**6, 0), "uhh": ("TIMESTAMP='ts', TIMEUNIT='hh', MAXOUTOFORDERNESS='1m'", "ts", 3600 * 10**6, 60000)}
ORDER = {"none": ("", []), "one": ("{a0} DESC", ["{a0}:DESC"]), "two": ("{a0} ASC, {a1} DESC", ["{a0}:ASC", "{a1}:DESC"]),
         "descbare": ("{a0} DESC, {a1}", ["{a0}:DESC", "{a1}:ASC"]), "barefirst": ("{a0}, {a1} DESC", ["{a0}:ASC", "{a1}:DESC"])}
JOIN = {"none": ("", []), "inner": ("JOIN meta m ON k = m.k", ["meta|m|INNER|k=k"]), "left": ("LEFT JOIN meta m ON k = m.k AND t = m.tenant", ["meta|m|LEFT|k=k&t=tenant"]),
        # the stream under an alias, ON keys qualified by the aliases with nested paths behind them (the alias is cut off, the path stays)
        "aliasnested": ("s JOIN meta m ON s.device.id = m.profile.id AND dev.k2 = m.k2", ["meta|m|INNER|device.id=profile.id&dev.k2=k2"]),
        "aliasflat": ("s LEFT JOIN meta AS m ON s.k = m.k", ["meta|m|LEFT|k=k"]),
        # no table alias: the table's own name qualifies its columns
        "noalias": ("JOIN meta ON k = meta.k AND t = meta.tenant", ["meta|meta|INNER|k=k&t=tenant"]),
        # the table's column written on the LEFT of "=": which side is the table's is decided by the qualifier, not by the position
        "reversed": ("s JOIN meta m ON m.k = s.k AND t = m.tenant", ["meta|m|INNER|k=k&t=tenant"]),
        "reversedbare": ("LEFT JOIN meta m ON m.k = dev", ["meta|m|LEFT|dev=k"])}
# MATCH_RECOGNIZE sub-clauses (spec/sem/MrGrammar.tla): text and the part of MatchRecognizeSpec it must produce
MR_PART = {"none": ("", []), "one": ("PARTITION BY g ", ["g"]), "two": ("PARTITION BY g, `site id` ", ["g", "site id"])}
MR_ROWS = {"default": ("", 0), "one": ("ONE ROW PER MATCH ", 0), "all": ("ALL ROWS PER MATCH ", 1)}
MR_SKIP = {"default": ("", 0, ""), "past": ("AFTER MATCH SKIP PAST LAST ROW ", 0, ""), "next": ("AFTER MATCH SKIP TO NEXT ROW ", 1, ""),
           "first": ("AFTER MATCH SKIP TO FIRST B ", 2, "B"), "last": ("AFTER MATCH SKIP TO LAST B ", 3, "B")}
MR_WITHIN = {"none": ("", 0), "quoted": ("WITHIN '5s' ", 5 * 10**6), "quotedfrac": ("WITHIN '1.5s' ", 1500000), "intsec": ("WITHIN 5 SECONDS ", 5 * 10**6),
             "fracsec": ("WITHIN 1.5 SECONDS ", 1500000), "fracmin": ("WITHIN 0.5 MINUTES ", 30 * 10**6), "ms": ("WITHIN 250 MS ", 250000), "fracms": ("WITHIN 2.5 ms ", 2500),
             "hours": ("WITHIN 2 HOURS ", 7200 * 10**6), "fracshort": ("WITHIN 0.25 h ", 900 * 10**6)}
MR_PAT = {"seq": ("A B", 2), "quant": ("A{2,} B?", 2), "alt": ("A (B | C)+", 3), "reluct": ("A+? B*? C{1,2}?", 3)}
MR_DEF = {2: "A AS v > 0, B AS v < 0", 3: "A AS v > 0, B AS v < 0, C AS v = 0"}
MR_SUBSET = {"none": ("", 0), "one": ("SUBSET S = (A, B) ", 1)}


def build_mr(o):
    pt, pexp = MR_PART[o["part"]]
    rt, rexp = MR_ROWS[o["rows"]]
    st, sexp, ssym = MR_SKIP[o["skip"]]
    wt, wexp = MR_WITHIN[o["within"]]
    pat, ndef = MR_PAT[o["pat"]]
    sub, nsub = MR_SUBSET[o["subset"]]
    txt = ("SELECT * FROM stream MATCH_RECOGNIZE (%sORDER BY ts MEASURES MATCH_NUMBER() AS mn, LAST(id) AS li %s%sPATTERN (%s) %s%sDEFINE %s)"
           % (pt, rt, st, pat, sub, wt, MR_DEF[ndef]))
    exp = {"order": [], "limit": 0, "mr_within_us": wexp, "mr_skip": sexp, "mr_rows": rexp, "mr_sym": ssym, "mr_part": pexp, "mr_ndef": ndef, "mr_nmeas": 2, "mr_nsub": nsub}
    return txt, exp
KEYWORDS = ["SELECT", "DISTINCT", "FROM", "WHERE", "GROUP BY", "HAVING", "WITH", "ORDER BY", "LIMIT", "AND", "OR", "AS", "JOIN", "LEFT", "ON", "DESC", "ASC", "GLOBAL WINDOW TRIGGER WHEN",
            "MATCH_RECOGNIZE", "PARTITION BY", "MEASURES", "ONE ROW PER MATCH", "ALL ROWS PER MATCH", "AFTER MATCH SKIP PAST LAST ROW", "AFTER MATCH SKIP TO NEXT ROW", "AFTER MATCH SKIP TO FIRST",
            "AFTER MATCH SKIP TO LAST", "PATTERN", "SUBSET", "WITHIN", "DEFINE", "SECONDS", "MINUTES", "HOURS", "MS", "MATCH_NUMBER", "LAST"]


def build(o):
    sel_txt, fields = SEL[o["sel"]]
    aggs = o["sel"] in ("aggs", "aggs2")
    txt = "SELECT " + ("DISTINCT " if o["distinct"] else "") + sel_txt + " FROM stream"
    jt, jexp = JOIN[o["join"]]
    if jt: txt += " " + jt
    wt, wexp = WHERE[o["where"]]
    if wt: txt += " WHERE " + wt
    wtxt, wtype, wparams = WIN[o["win"]]
    groups = []
    if wtxt:
        txt += (" GROUP BY " + wtxt + ", g") if o.get("gbl") == "wk" else (" GROUP BY g, " + wtxt)
        groups = ["g"]
    ht, hexp = HAVING[o["having"]]
    a0, a1 = (fields[1], fields[2]) if len(fields) > 2 else (fields[0], fields[0])
    if ht: txt += " HAVING " + ht.format(a0=a0)
    wi, tsprop, unit, moo = WITH[o["with"]]
    if wi: txt += " WITH (" + wi + ")"
    ot, oexp = ORDER[o["order"]]
    a0, a1 = (fields[1], fields[2]) if len(fields) > 2 else (fields[0], fields[0])
    if ot: txt += " ORDER BY " + ot.format(a0=a0, a1=a1)
    if o["limit"]: txt += " LIMIT %d" % o["limit"]
    exp = {"fields": fields, "where": wexp, "limit": o["limit"], "distinct": 1 if o["distinct"] else 0, "order": [x.format(a0=a0, a1=a1) for x in oexp],
           "joins": jexp, "groups": groups, "nsel": len(fields)}
    if o["sel"] == "indexkw":
        exp["simple"] = ["id", "rows[0].limit:rl", "m[1].order:mo", "o.group:og"]
    if o["sel"] == "index":      # the item texts as the parser must keep them (a blank inside m[1][0] changes what is selected)
        exp["simple"] = ["id", "m[1][0]:mm", "cfg['a']['b']:cb", "rows[0].v:rv", "o.f:of1"]
    if hexp is not None:
        exp["having"] = hexp.format(a0=a0)
    if wtxt:
        exp["wtype"] = wtype
        if wparams: exp["wparams"] = wparams
    if wi:
        exp["tsprop"], exp["unit"], exp["moo"] = tsprop, unit, moo
    return txt, exp


def relayout(txt, rng, style):
    """keyword case and inter-token whitespace / line breaks; string literals are left alone"""
    parts = re.split(r"('[^']*'|`[^`]*`)", txt)
    out = []
    for p in parts:
        if p.startswith("'") or p.startswith("`"):
            out.append(p); continue
        for kw in KEYWORDS:
            def rep(m):
                w = m.group(0)
                return {"lower": w.lower(), "mixed": "".join(c.upper() if i % 2 else c.lower() for i, c in enumerate(w)), "upper": w.upper()}[style[0]]
            p = re.sub(r"\b%s\b" % kw.replace(" ", r"\s+"), rep, p)
        if style[1] == "wide":
            p = re.sub(r" ", lambda m: rng.choice(["  ", " \n ", "\t", " \n\t ", "\r\n", " \r\n  ", "\r"]), p)
        elif style[1] == "tight":
            p = re.sub(r"\s*,\s*", ",", p)
            p = re.sub(r"\s*(>=|<=|!=|>|<|=)\s*", r"\1", p)
        out.append(p)
    return "".join(out)


TOKENS = ["SELECT", "FROM", "WHERE", "GROUP", "BY", "HAVING", "ORDER", "LIMIT", "WITH", "AS", "AND", "stream", "x", "*", ",", "(", ")", "'", "'a", "`", "1", "=", ">", "count(", "TumblingWindow('1s')", "MATCH_RECOGNIZE", "é", "--"]


def run(tier):
    res = vlib.Result("C11", tier)
    rng = random.Random(vlib.seed())
    quick = tier == "quick"
    cfg = "SPECIFICATION Spec\nINVARIANTS Emit\nCHECK_DEADLOCK FALSE\n"
    r = vlib.tlc(seqfam.SEM, "SqlGrammar", cfg, workers=1, timeout=900)
    if not r["ok"]:
        raise vlib.Inconclusive("SqlGrammar enumeration failed:\n" + r["out"][-2000:])
    res.add_model("SqlGrammar", r, {"clauses": 9})
    opts = [json.loads(x[1]) for x in vlib.prints(r["out"], "SCEN")]
    if quick and len(opts) > 1500:
        opts = rng.sample(opts, 1500)
    scen = []
    styles = [("upper", "plain"), ("lower", "wide"), ("mixed", "tight")] if quick else [(c, w) for c in ("upper", "lower", "mixed") for w in ("plain", "wide", "tight")]
    for o in opts:
        txt, exp = build(o)
        scen.append({"meta": {"mode": "grammar", "exp": exp, "opts": o}, "texts": [relayout(txt, rng, st) for st in styles]})
    r2 = vlib.tlc(seqfam.SEM, "MrGrammar", cfg, workers=1, timeout=900)
    if not r2["ok"]:
        raise vlib.Inconclusive("MrGrammar enumeration failed:\n" + r2["out"][-2000:])
    res.add_model("MrGrammar", r2, {"subclauses": 6})
    mropts = [json.loads(x[1]) for x in vlib.prints(r2["out"], "SCEN")]
    if quick and len(mropts) > 600:
        mropts = rng.sample(mropts, 600)
    for o in mropts:
        txt, exp = build_mr(o)
        texts = [relayout(txt, rng, st) for st in styles]
        if o["pat"] == "reluct":      # the reluctant marker is a token of its own: blanks, tabs and line breaks before it are layout
            texts += [re.sub(r"([*+}])\?", lambda m: m.group(1) + rng.choice([" ", "  ", "\n", "\t"]) + "?", t) for t in texts]
        scen.append({"meta": {"mode": "grammar", "exp": exp, "opts": o}, "texts": texts})
    # statements that differ ONLY inside a string literal (blanks, tabs, line breaks, letter case) are different statements: each keeps
    # its own literal, whatever was parsed before in this process (all texts of a run are parsed by one process)
    for base in ("line down", "ORDER BY x", "a, b"):
        variants = {base, base.replace(" ", "  "), base.replace(" ", "\t"), base.replace(" ", "\n"), base.lower(), base.upper(), base + " ", " " + base, base.replace(" ", "")}
        for lit in sorted(variants):
            for shape in (0, 1, 2):
                if shape == 0:
                    txt = "SELECT id, v FROM stream WHERE status = '%s' AND v > 1" % lit
                    exp = {"lits": [lit], "fields": ["id", "v"], "nsel": 2}
                elif shape == 1:
                    txt = "SELECT id, concat(name, '%s') AS c FROM stream WHERE v > 1" % lit
                    exp = {"lits": [lit], "fields": ["id", "c"], "nsel": 2}
                else:
                    txt = "SELECT g, count(*) AS c, last_value(s) AS ls FROM stream GROUP BY g, CountingWindow(2) HAVING ls LIKE '%s'" % lit
                    exp = {"lits": [lit], "fields": ["g", "c", "ls"], "nsel": 3}
                scen.append({"meta": {"mode": "grammar", "exp": exp, "opts": {"litvariant": lit}}, "texts": [relayout(txt, rng, st) for st in styles]})
    ngr = len(scen)
    # totality: every token sequence up to length L, seeded long sequences, truncations and byte mutations of valid statements
    L = 3 if quick else 4
    batch = []
    for n in range(1, L + 1):
        for t in itertools.product(TOKENS, repeat=n):
            batch.append(" ".join(t))
            if len(batch) == 400:
                scen.append({"meta": {"mode": "total", "exp": {}}, "texts": batch}); batch = []
    valid = [build(o)[0] for o in rng.sample(opts, min(len(opts), 60 if quick else 400))]
    valid.append("SELECT * FROM stream MATCH_RECOGNIZE (PARTITION BY `g` ORDER BY `ts` MEASURES MATCH_NUMBER() AS mn, A.v AS `peak` ONE ROW PER MATCH AFTER MATCH SKIP TO FIRST `A` PATTERN (A{2,} B?) SUBSET `S` = (`A`, `B`) DEFINE A AS v > 0)")
    for v in valid:
        batch += [v[:k] for k in range(0, len(v), 3 if quick else 1)]
        for _ in range(10 if quick else 60):
            b = bytearray(v.encode())
            for _m in range(rng.choice([1, 2, 4])):
                pos = rng.randrange(len(b)); op = rng.random()
                if op < 0.4: b[pos] = rng.choice(b"'`()\",;*=\\\x00\xff ")
                elif op < 0.7: del b[pos]
                else: b.insert(pos, rng.choice(b"'`()\", "))
            batch.append(b.decode("utf8", "replace"))
        if len(batch) >= 400:
            scen.append({"meta": {"mode": "total", "exp": {}}, "texts": batch}); batch = []
    # statements that are WRONG in one place (an unknown function with many arguments, long operator chains without blanks, unknown
    # keywords): the answer is an error, never a panic - the error-reporting path formats an excerpt of the statement
    for k in range(1, 14):
        args = ["a%d" % i for i in range(k)]
        for sep in (",", ", ", " , "):
            batch.append("SELECT nosuchfn(%s) FROM stream" % sep.join(args))
            batch.append("SELECT id, nosuchfn(%s) AS r FROM stream WHERE nosuch2(%s) > 1" % (sep.join(args), sep.join(args[:3])))
        batch.append("SELECT %s FROM stream" % "+".join(args))
        batch.append("SELECT nosuchfn(%s) FROM stream GROUP BY nosuch3(%s), TumblingWindow('1s')" % ("+".join(args), ",".join(args)))
    for _ in range(2000 if quick else 150000):
        batch.append(" ".join(rng.choice(TOKENS) for _ in range(rng.choice([5, 9, 20, 40]))))
        if len(batch) == 400:
            scen.append({"meta": {"mode": "total", "exp": {}}, "texts": batch}); batch = []
    if batch:
        scen.append({"meta": {"mode": "total", "exp": {}}, "texts": batch})
    seqfam.run_scenarios(res, scen, "TraceSql", tag="sql", sub="parse", timeout=2400)
    ntexts = sum(len(s["texts"]) for s in scen)
    res.cov["exhaustive"] = not quick
    res.cov["distinct_nontrivial"] = ntexts
    res.cov["evaluations"] = ntexts
    res.cov["rule"] = ("grammar: %d statements = clause choices enumerated by TLC from SqlGrammar.tla%s, each in %d layouts (keyword case upper/lower/mIxEd x spacing plain/wide with line breaks/tight), compared with the expected configuration and with each other; "
                       "totality: every token sequence of length <= %d over a %d-token alphabet (unbalanced quotes, backticks, parentheses, non-ASCII, comment introducer), seeded sequences of 5-40 tokens, every prefix and random byte mutations of valid statements incl. MATCH_RECOGNIZE; "
                       "distinct = texts parsed") % (ngr, " (sampled)" if quick else "", len(styles), L, len(TOKENS))
    res.assumptions = ASSUME
    return res.finish()


if __name__ == "__main__":
    vlib.main(run)
