import itertools, json, os, random, sys
sys.path.insert(0, os.path.dirname(os.path.abspath(__file__)))
import seqfam, vlib

WIN = os.path.join(vlib.VERIF, "spec", "win")
ASSUME = ["STATETTL unset, except in the scenarios that keep a key active across several TTL periods (a trace in which the driver itself paused longer than 0.7 TTL is void)", "single producer, rows fed in lock-step (one row fully processed before the next), plus bursts of 70-130 rows against a held window goroutine",
          "window output buffer never overflows", "results observed through a synchronous sink"]
NIL = "<NIL>"


def gen(res, n, keyset, maxrows, cap, rng):
    cfg = 'SPECIFICATION Spec\nCONSTANTS N = %d MaxRows = %d Encoder = "tagged" Emit = TRUE KeySet = "%s"\nINVARIANTS EmitScenario\nCHECK_DEADLOCK FALSE\n' % (n, maxrows, keyset)
    r = vlib.tlc(WIN, "Counting", cfg, workers=1, timeout=600)
    if not r["ok"]:
        raise vlib.Inconclusive("Counting generation failed:\n" + r["out"][-2000:])
    res.cov["states"] += r["distinct"]; res.cov["transitions"] += r["generated"]
    seqs = [json.loads(x[1]) for x in vlib.prints(r["out"], "SCEN")]
    if cap and len(seqs) > cap:
        seqs = rng.sample(seqs, cap)
        res.cov["exhaustive"] = False
    return seqs


def scenario(n, seq, rng, nullstyle):
    ncol = len(seq[0])
    cols = ["k%d" % (i + 1) for i in range(ncol)]
    rows = []
    for i, t in enumerate(seq):
        row = {"id": i + 1, "v": rng.choice([1, 2, 3, {"$f": 2.5}, -4, 0])}
        for c, comp in zip(cols, t):
            if comp == NIL:
                if nullstyle == "null" or (nullstyle == "mix" and i % 2 == 0):
                    row[c] = None
            else:
                row[c] = comp
        rows.append(row)
    aggs = [{"al": "c", "fn": "count_star", "arg": {"k": "star"}, "p": 0},
            {"al": "ids", "fn": "collect", "arg": {"k": "col", "c": "id"}, "p": 0},
            {"al": "s", "fn": "sum", "arg": {"k": "col", "c": "v"}, "p": 0},
            {"al": "fv", "fn": "first_value", "arg": {"k": "col", "c": "v"}, "p": 0},
            {"al": "lv", "fn": "last_value", "arg": {"k": "col", "c": "v"}, "p": 0}]
    sql = "SELECT %s, count(*) AS c, collect(id) AS ids, sum(v) AS s, first_value(v) AS fv, last_value(v) AS lv FROM stream GROUP BY %s, CountingWindow(%d)" % (
        ", ".join(cols), ", ".join(cols), n)
    return {"meta": {"fam": "batch", "carrier": "counting", "n": n, "gcols": cols, "gout": cols, "aggs": aggs}, "sql": sql, "rows": rows}


def fnkey_scenario(n, rng):
    """GROUP BY a scalar function of a column: rows are batched per VALUE OF THE FUNCTION, whether the key is selected under an alias,
    selected as it stands, or not selected at all"""
    f = rng.choice(["upper", "lower"])
    img = lambda x: x.upper() if f == "upper" else x.lower()
    style = rng.choice(["alias", "bare", "absent", "absent", "bare"])
    vals = rng.choice([["a", "A", "b", "B"], ["ab", "Ab", "aB", "cd", "CD"]])
    rows = [{"id": i + 1, "v": rng.choice([1, 2, 3, -4, 0]), "k1": rng.choice(vals)} for i in range(rng.choice([n * 5, n * 6 + 1, 17]))]
    aggs = [{"al": "c", "fn": "count_star", "arg": {"k": "star"}, "p": 0}, {"al": "ids", "fn": "collect", "arg": {"k": "col", "c": "id"}, "p": 0},
            {"al": "s", "fn": "sum", "arg": {"k": "col", "c": "v"}, "p": 0}]
    key = "%s(k1)" % f
    selkey = {"alias": key + " AS kk, ", "bare": key + ", ", "absent": ""}[style]
    gout = {"alias": "kk", "bare": key, "absent": ""}[style]
    sql = "SELECT %scount(*) AS c, collect(id) AS ids, sum(v) AS s FROM stream GROUP BY %s, CountingWindow(%d)" % (selkey, key, n)
    meta = {"fam": "batch", "carrier": "counting", "n": n, "gcols": ["k1"], "gout": [gout], "gmap": [[[x, img(x)] for x in vals]], "aggs": aggs}
    return {"meta": meta, "sql": sql, "rows": rows, "nolayout": style == "bare", "norename": True}


def run(tier):
    res = vlib.Result("C09", tier)
    res.cov["exhaustive"] = True
    rng = random.Random(vlib.seed())
    quick = tier == "quick"
    plan = [(1, "two", 4, None), (2, "one", 6 if quick else 7, 1500 if quick else 6000), (3, "two", 7 if quick else 9, 1500 if quick else None),
            (2, "collide", 5 if quick else 6, 600 if quick else None), (2, "nulls", 5 if quick else 6, 600 if quick else None),
            (2, "pairs", 5 if quick else 6, 1000 if quick else 4000),
            (2, "esc", 5 if quick else 6, 600 if quick else None), (2, "escnull", 5 if quick else 6, 800 if quick else None)]
    scen = []
    for n, ks, maxrows, cap in plan:
        for seq in gen(res, n, ks, maxrows, cap, rng):
            scen.append(scenario(n, seq, rng, rng.choice(["null", "missing", "mix"])))
    # seeded longer free inputs: many keys, exact multiples and remainders
    for _ in range(60 if quick else 2000):
        n = rng.choice([1, 2, 3, 4, 5])
        keys = [("k%d" % i,) for i in range(rng.choice([1, 2, 5, 9]))]
        L = rng.choice([n * 6, n * 7 + 1, 23, 40])
        scen.append(scenario(n, [rng.choice(keys) for _ in range(L)], rng, "mix"))
    # the application reads and resets the statistics while keys hold partial batches: monitoring calls change nothing of what is buffered
    for _ in range(40 if quick else 1500):
        n = rng.choice([2, 3, 4])
        keys = [("k%d" % i,) for i in range(rng.choice([1, 2, 3]))]
        sc = scenario(n, [rng.choice(keys) for _ in range(rng.choice([n * 4, n * 5 + 1, 13]))], rng, "mix")
        ops = []
        for r in sc["rows"]:
            ops.append({"op": "emit", "row": r})
            if rng.random() < 0.3: ops.append({"op": "stats"})
        sc["ops"] = ops
        sc["norename"] = True       # (the operations carry the rows as they are)
        scen.append(sc)
    # HAVING on top of the counting window: a batch the predicate rejects is consumed all the same; the key's next batch starts from empty
    for _ in range(60 if quick else 3000):
        n = rng.choice([2, 3])
        keys = [("k%d" % i,) for i in range(rng.choice([1, 2, 3]))]
        sc = scenario(n, [rng.choice(keys) for _ in range(rng.choice([n * 5, n * 6 + 1, 17]))], rng, "mix")
        txt, ast = rng.choice([("sum(v) > 3", {"o": "cmp", "fn": "sum", "arg": {"k": "col", "c": "v"}, "op": ">", "lit": 30000}),
                               ("max(v) >= 3", {"o": "cmp", "fn": "max", "arg": {"k": "col", "c": "v"}, "op": ">=", "lit": 30000}),
                               ("min(v) < 0", {"o": "cmp", "fn": "min", "arg": {"k": "col", "c": "v"}, "op": "<", "lit": 0}),
                               ("sum(v) <= 2", {"o": "cmp", "fn": "sum", "arg": {"k": "col", "c": "v"}, "op": "<=", "lit": 20000})])
        sc["sql"] += " HAVING " + txt
        sc["meta"]["having"] = ast
        scen.append(sc)
    # STATETTL: a key that keeps receiving rows (gaps well below the TTL) keeps its partial batch, however long it takes to fill
    for _ in range(3 if quick else 20):
        ng = rng.choice([1, 2])
        n = rng.choice([7, 8])
        sc = scenario(n, [("k%d" % (i % ng),) for i in range(n * ng + 2)], rng, "mix")
        sc["sql"] += " WITH (STATETTL='1s')"
        sc.update(gap_ms=rng.choice([180, 250]) if ng == 2 else rng.choice([300, 400]), ttl_ms=1000, span=ng)
        scen.append(sc)
    for _ in range(60 if quick else 3000):
        scen.append(fnkey_scenario(rng.choice([2, 3]), rng))
    # a function key with several arguments (the commas of its argument list do not end the GROUP BY item); k1 is a top-level copy
    # of the key's value for the monitor
    for _ in range(20 if quick else 600):
        n = rng.choice([2, 3])
        rows = []
        for i in range(rng.choice([n * 5, n * 6 + 1, 17])):
            a, b = rng.choice(["x", "y"]), rng.choice(["1", "2"])
            rows.append({"id": i + 1, "v": rng.choice([1, 2, 3]), "a": a, "b": b, "k1": a + b})
        aggs = [{"al": "c", "fn": "count_star", "arg": {"k": "star"}, "p": 0}, {"al": "ids", "fn": "collect", "arg": {"k": "col", "c": "id"}, "p": 0}]
        key = rng.choice(["concat(a, b)", "concat(a,b)", "concat( a , b )"])      # (a literal argument inside a GROUP BY function key is rejected by the parser: not used)
        scen.append({"meta": {"fam": "batch", "carrier": "counting", "n": n, "gcols": ["k1"], "gout": ["kk"], "aggs": aggs},
                     "sql": "SELECT %s AS kk, count(*) AS c, collect(id) AS ids FROM stream GROUP BY %s, CountingWindow(%d)" % (key, key, n), "rows": rows, "norename": True})
    # bursts: the producer outruns the counting-window goroutine (held at its first row) by more rows than the window's
    # input queue holds (200 here): every row still counts, in order
    for _ in range(8 if quick else 200):
        n = rng.choice([2, 3, 5])
        keys = [("k%d" % i,) for i in range(rng.choice([1, 2, 4]))]
        sc = scenario(n, [rng.choice(keys) for _ in range(rng.choice([260, 300, 330]))], rng, "mix")
        sc["burst"] = True
        sc["hold"] = "cw.row"
        # one option sizes the window's input AND output queue: 200 is less than the burst (the input queue is overrun) and more than the
        # batches the burst can fire once the goroutine is released (at most one per two rows: the output queue never overflows - assumption)
        sc["perf"] = {"winout": 200}
        scen.append(sc)
    # the input buffer has to be EXPANDED (several times) while the rows come in: the stream's consumer goroutine is held inside the window's
    # Add of the first row (it holds no buffer reference there, so the recorded reorder race of C19 cannot occur): each row counts once, in order
    for _ in range(6 if quick else 150):
        n = rng.choice([2, 3, 5])
        keys = [("k%d" % i,) for i in range(rng.choice([1, 2, 3]))]
        sc = scenario(n, [rng.choice(keys) for _ in range(rng.choice([60, 90, 140]))], rng, "mix")
        sc["burst"] = True
        sc["hold"] = "cw.add"
        sc["perf"] = {"strategy": "expand", "data": rng.choice([2, 4, 8]), "max": 1024, "mininc": 4, "winout": 1024}
        scen.append(sc)
    # bursts without a gate under each overflow strategy (buffers large enough to lose nothing): batches that fire within microseconds
    # of each other are still delivered per key in firing order
    for i in range(12 if quick else 300):
        n = rng.choice([1, 2, 2, 3])
        keys = [("k%d" % j,) for j in range(rng.choice([1, 2, 3]))]
        sc = scenario(n, [rng.choice(keys) for _ in range(rng.choice([200, 300, 400]))], rng, "mix")
        sc["burst"] = True
        sc["perf"] = {"strategy": ["block", "block", "expand", "drop"][i % 4], "blockms": 5000}
        if i % 4 < 2 and i % 2 == 0:      # block strategy with a lagging consumer: many fired batches wait in the window's output queue, each stays a batch of its own
            sc["perf"]["slowsink"] = rng.choice([500, 1000])
        if i % 4 >= 2:      # "drop" and "expand" shed a batch that finds the window's output queue full (assumption: it never overflows): room for every batch of the burst
            sc["perf"]["winout"] = 1024
        # (an input buffer that has to be EXPANDED during the burst is C19's and C05's subject: the recorded reorder race ExpansionReordersRows
        #  would show up here as a batch of other rows)
        scen.append(sc)
    # a batch abandoned because user code panicked (a scalar function on one row, or a user aggregate's Result) leaves nothing behind:
    # the next batches - of the same key and of other keys - hold exactly their own N rows
    import C03
    for i in range(40 if quick else 1200):
        scen.append(C03.poison_query(rng, rng.choice([2, 2, 3])))
    seqfam.run_scenarios(res, scen, "TraceBatch", tag="batch", relayout_p=0.3, retype_p=0.3, rename_p=0.3)
    seqfam.run_pinned(res, "TraceBatch")
    res.cov["distinct_nontrivial"] = len({json.dumps(s["rows"], sort_keys=True) + s["sql"] for s in scen if len(s["rows"]) > 1})
    res.cov["rule"] = ("every key sequence of the TLA+ Counting model at the stated bounds (universes: plain keys, separator-like keys, NULL/missing/empty keys, two-column keys) "
                       "plus seeded longer inputs, each replayed in lock-step on the real engine; distinct = distinct (SQL, rows)")
    res.assumptions = ASSUME
    for n, ks in [(2, "one"), (2, "collide"), (3, "pairs"), (2, "nulls")]:
        mr = 7 if quick else 8
        cfg = 'SPECIFICATION Spec\nCONSTANTS N = %d MaxRows = %d Encoder = "tagged" Emit = FALSE KeySet = "%s"\nINVARIANTS Contract EncoderInjective\nCHECK_DEADLOCK FALSE\n' % (n, mr, ks)
        seqfam.model(res, WIN, "Counting", cfg, "Counting", {"N": n, "KeySet": ks, "MaxRows": mr, "Encoder": "tagged"})
    return res.finish()


if __name__ == "__main__":
    vlib.main(run)
