"""Shared runner for sequential (lock-step, single producer) families: scenarios -> real engine (vh seq) -> TLC trace monitor."""
import json, os, sys
sys.path.insert(0, os.path.join(os.path.dirname(os.path.abspath(__file__)), "..", "lib"))
import vlib

SEM = os.path.join(vlib.VERIF, "spec", "sem")


def run_scenarios(res, scen_list, monitor, spec_dir=SEM, tag="", timeout=1500, sub="seq", par=16, procs=1, race=False, crash_is_violation=True, relayout_p=0.0, retype_p=0.0, rename_p=0.0):
    """scen_list: list of scenario dicts without 'tr'. Returns number of traces validated. Adds violations to res."""
    if not scen_list:
        return 0
    vh = vlib.build_vh(race=race)
    base = os.path.join(vlib.scratch(), "s%s_%d" % (tag, len(os.listdir(vlib.scratch()))))
    sp, tp = base + ".scen", base + ".trace"
    scen = {}
    lrng = None
    if relayout_p > 0:
        import random, layout
        lrng = random.Random(vlib.seed() * 7919 + len(scen_list))
    nrng = None
    if rename_p > 0:
        import random
        nrng = random.Random(vlib.seed() * 15485863 + len(scen_list))
    trng = None
    if retype_p > 0:
        import random
        trng = random.Random(vlib.seed() * 104729 + len(scen_list))
    with open(sp, "w") as f:
        for i, sc in enumerate(scen_list):
            sc = dict(sc, tr=i + 1)
            if nrng is not None and not sc.get("norename") and "sql" in sc and nrng.random() < rename_p:
                sc = rename_cols(sc, nrng)
            if trng is not None and not sc.get("noretype") and trng.random() < retype_p:
                # the same numbers under other Go types (int / int32 / int64 / float32 / float64): values, not types, decide
                sc["rows"] = [retype_row(r, trng) for r in sc.get("rows", [])]
                if sc.get("ops"):
                    sc["ops"] = [dict(o, row=retype_row(o["row"], trng)) if o.get("op") in ("emit", "sync") and isinstance(o.get("row"), dict) else o for o in sc["ops"]]
            if lrng is not None and "sql" in sc and not sc.get("nolayout") and lrng.random() < relayout_p:
                # C11: keyword case and whitespace / line breaks between tokens change nothing - every family runs part of its
                # statements in another layout (the monitor still judges by the meta line, which describes the statement)
                sc["sql"] = layout.relayout(sc["sql"], lrng, allow_fnupper=not sc.get("nofnupper"))
            scen[i + 1] = sc
            f.write(json.dumps(sc) + "\n")
    if procs > 1:
        # several driver processes side by side (scenarios that must run one at a time within a process: goroutine accounting)
        import subprocess
        lines = open(sp).read().splitlines()
        parts = [lines[i::procs] for i in range(procs)]
        ps = []
        for i, part in enumerate(parts):
            if not part:
                continue
            open("%s.%d" % (sp, i), "w").write("\n".join(part) + "\n")
            ps.append((i, subprocess.Popen([vh, sub, "-scen", "%s.%d" % (sp, i), "-out", "%s.%d" % (tp, i), "-par", str(par)],
                                           stdout=subprocess.PIPE, stderr=subprocess.STDOUT, text=True)))
        out, rc = "", 0
        with open(tp, "w") as f:
            for i, pr in ps:
                try:
                    o, _ = pr.communicate(timeout=timeout)
                except subprocess.TimeoutExpired:
                    pr.kill()
                    raise vlib.Inconclusive("driver process %d timed out" % i)
                out += o
                rc = rc or pr.returncode
                if os.path.exists("%s.%d" % (tp, i)):
                    f.write(open("%s.%d" % (tp, i)).read())
    else:
        rc, out = vlib.sh([vh, sub, "-scen", sp, "-out", tp, "-par", str(par)], timeout)
    races = vlib.race_reports(out)
    for tops, eng, text in races:
        if eng:     # the Go race detector saw two unsynchronised accesses, at least one of them in engine code, during a replayed schedule
            res.violation("data_race_reported_by_the_go_race_detector between %s" % " and ".join(tops[:2]), {"family": tag, "race_report": text})
        else:
            res.notes.append("race detector report concerning only the harness: %s" % (tops[:2],))
    if rc == 66 and races:
        rc = 0          # exit code of a race-enabled binary that reported races; the trace is still validated
    if rc != 0 and crash_is_violation and ("fatal error:" in out or "\npanic:" in out) and "github.com/rulego/streamsql" in out:
        # the Go runtime killed the driver process from engine code (unrecoverable: concurrent map access, nil dereference in an engine goroutine ...)
        import re as _re
        m = _re.search(r"(fatal error:[^\n]*|panic:[^\n]*)", out)
        i = out.find(m.group(1)) if m else 0
        res.violation("engine_crashed_the_process: %s" % (m.group(1) if m else "?"), {"family": tag, "crash": out[i:i + 4000]})
        return 0
    if rc != 0:
        raise vlib.Inconclusive("driver failed:\n" + out[-3000:])
    inc = [l for l in out.splitlines() if l.startswith("INCONCLUSIVE")]
    if len(inc) > max(3, len(scen_list) // 50):
        raise vlib.Inconclusive("%d of %d scenarios inconclusive, e.g. %s" % (len(inc), len(scen_list), inc[0]))
    if inc:
        res.notes.append("%d scenarios inconclusive (driver could not reach quiescence), e.g. %s" % (len(inc), inc[0]))
    rej, _, nlines = vlib.validate(spec_dir, monitor, tp, set())
    if rej:
        kd = vlib.known_devs(res.prop)
        rej2, devs, _ = vlib.validate(spec_dir, monitor, tp, set(kd)) if kd else (rej, [], 0)
        still = {r[0] for r in rej2}
        cnt = {}
        for tr, _, d in devs:
            if tr not in still and d in kd:
                cnt.setdefault(d, set()).add(tr)
        for d, trs in cnt.items():
            res.known[d] = res.known.get(d, 0) + len(trs)
        seen = set()
        bad = {tr for tr, _, _ in rej2}
        excerpt = {}
        if bad:      # keep the recorded events of the rejected traces with the violation (the scratch trace file is removed afterwards)
            for ln in open(tp):
                try:
                    e = json.loads(ln)
                except ValueError:
                    continue
                t = e.get("tr")
                if t in bad and len(excerpt.setdefault(t, [])) < 400:
                    excerpt[t].append(ln.strip()[:3000])
        for tr, line, code in rej2:
            if tr in seen:
                continue
            seen.add(tr)
            res.violation("%s at trace line %d (%s)" % (code, line, monitor), dict(scen.get(tr, {}), family=tag, trace_excerpt=excerpt.get(tr, [])))
    n = len(scen_list) - len(inc)
    res.cov["traces_validated_against_impl"] += n
    res.cov["evaluations"] += len(scen_list)
    res.cov["trace_events"] = res.cov.get("trace_events", 0) + nlines
    if len(res.cov["samples"]) < 4:
        res.cov["samples"].append(scen[1])
        if len(scen) > 1:
            res.cov["samples"].append(scen[len(scen)])
    return n


RENAMES = {"x": ["xor", "sensor", "band", "x_1", "order1", "X", "xVal"], "y": ["yand", "iso", "limit_y", "y2", "nulls", "yMax"], "s": ["desc1", "likes", "s_text", "asc", "sName"],
           "v": ["vor", "valueand", "v_1", "deviceTemp", "Vv"], "w": ["wor", "width", "isW"]}


def rename_cols(sc, rng):
    """the same scenario with its data columns under other names (names ending in or / and, keyword-like names, digits, upper case):
    SQL text (outside quoted parts) and rows are renamed together; the driver maps the names back when it logs"""
    import copy, re
    present = [c for c in RENAMES if any(c in r for r in sc.get("rows", []))]
    if not present:
        return sc
    mp = {c: rng.choice(RENAMES[c]) for c in present if rng.random() < 0.6}
    if "v" in present and "w" in present and rng.random() < 0.2:
        mp.update(v="Aa", w="BB")      # names whose call texts sum(Aa) / sum(BB) collide under a multiply-by-31 string hash
    if not mp:
        return sc
    sc = copy.deepcopy(sc)
    parts = re.split(r"('[^']*'|\"[^\"]*\"|`[^`]*`)", sc["sql"])
    for i, p in enumerate(parts):
        if p[:1] == "`" and p[1:-1] in mp:
            parts[i] = "`" + mp[p[1:-1]] + "`"
            continue
        if p[:1] in ("'", '"', "`"):
            continue
        for c, n in mp.items():
            p = re.sub(r"(?<![\w.'])%s(?![\w(])" % c, n, p)
        parts[i] = p
    sc["sql"] = "".join(parts)
    sc["colmap"] = mp      # the driver logs rows under their original names: monitors and meta stay as they are
    sc["rows"] = [{mp.get(k, k): v for k, v in r.items()} for r in sc["rows"]]
    return sc


def retype_row(r, rng):
    out = {}
    for k, v in r.items():
        # not retyped: timestamps, and partition / grouping columns (whether 8 and 8.0 are one partition is not claimed: the engine's
        # partition key is type-tagged); float32 only where it represents the number exactly
        if isinstance(v, bool) or not isinstance(v, int) or k in ("ts", "g", "k", "kk"):
            out[k] = v
        else:
            t = rng.choice(["$i", "$i", "$i64", "$i32", "$f", "$f32"] if abs(v) <= 4096 else ["$i", "$i64", "$f"])
            if t == "$i32" and abs(v) >= 2 ** 31: t = "$i64"
            out[k] = {t: float(v) if t in ("$f", "$f32") else v}
    return out


def model(res, spec_dir, module, cfg_text, name, constants, workers=8, timeout=900, must_hold=True):
    r = vlib.tlc(spec_dir, module, cfg_text, workers=workers, timeout=timeout)
    res.add_model(name, r, constants)
    if not r["ok"]:
        if r["violated"] and not must_hold:
            return r
        if r["violated"]:
            res.notes.append("MODEL-COUNTEREXAMPLE %s: %s violated (decided by replay on the real engine)" % (name, r["violated"]))
        else:
            raise vlib.Inconclusive("TLC failed on %s:\n%s" % (name, r.get("error", r["out"][-2000:])))
    return r


def run_pinned(res, monitor, spec_dir=SEM, sub="seq"):
    """Known findings pinned by their exact input: each listed scenario is executed and validated strictly.
    Still rejected with the recorded clause -> KNOWN-FINDING line; rejected with another clause -> VIOLATION;
    accepted -> noted (the finding no longer reproduces on this tree)."""
    pins = [f for f in vlib.known_findings()["findings"] if res.prop in f["properties"] and f.get("pinned")]
    if not pins:
        return
    vh = vlib.build_vh()
    base = os.path.join(vlib.scratch(), "pinned_%s" % res.prop)
    sp, tp = base + ".scen", base + ".trace"
    with open(sp, "w") as f:
        for i, fd in enumerate(pins):
            f.write(json.dumps(dict(fd["pinned"], tr=i + 1)) + "\n")
    rc, out = vlib.sh([vh, sub, "-scen", sp, "-out", tp, "-par", "8"], 300)
    if rc != 0:
        raise vlib.Inconclusive("driver failed on pinned findings:\n" + out[-2000:])
    rej, _, _ = vlib.validate(spec_dir, monitor, tp, set())
    byt = {}
    for tr, line, code in rej:
        byt.setdefault(tr, code)
    for i, fd in enumerate(pins):
        code = byt.get(i + 1)
        if code is None:
            res.notes.append("known finding %s did not reproduce on this tree (its pinned input is now accepted)" % fd["dev"])
            print("NOTE: known finding %s no longer reproduces" % fd["dev"])
        elif any(code.startswith(c) for c in fd.get("codes", [code])):
            res.known[fd["dev"]] = res.known.get(fd["dev"], 0) + 1
        else:
            res.violation("pinned input of known finding %s now fails differently: %s (recorded: %s)" % (fd["dev"], code, fd.get("codes")), dict(fd["pinned"], family="pinned"))
    res.cov["pinned_findings_run"] = len(pins)
    # a finding may also carry its deviation AS RECORDED: scenarios with a description of what the engine does instead (a monitor that
    # must ACCEPT them). The engine deviating in ANOTHER way on that input is a different violation and is reported
    for fd in pins:
        ar = fd.get("as_recorded")
        if not ar:
            continue
        sp2, tp2 = base + "_%s.scen" % fd["dev"], base + "_%s.trace" % fd["dev"]
        with open(sp2, "w") as f:
            for i, sc in enumerate(ar["scenarios"]):
                f.write(json.dumps(dict(sc, tr=i + 1)) + "\n")
        rc, out = vlib.sh([vh, sub, "-scen", sp2, "-out", tp2, "-par", "8"], 300)
        if rc != 0:
            raise vlib.Inconclusive("driver failed on the recorded deviation of %s:\n%s" % (fd["dev"], out[-2000:]))
        rej2, _, _ = vlib.validate(spec_dir, ar["monitor"], tp2, set())
        seen = set()
        for tr, line, code in rej2:
            if tr in seen: continue
            seen.add(tr)
            res.violation("known finding %s: the engine no longer deviates as recorded (%s): %s" % (fd["dev"], ar.get("what", "")[:80], code), dict(ar["scenarios"][tr - 1], family="pinned"))
        res.cov["recorded_deviation_scenarios"] = res.cov.get("recorded_deviation_scenarios", 0) + len(ar["scenarios"])
