"""Shared runner for sequential (lock-step, single producer) families: scenarios -> real engine (vh seq) -> TLC trace monitor."""
import json, os, sys
sys.path.insert(0, os.path.join(os.path.dirname(os.path.abspath(__file__)), "..", "lib"))
import vlib

SEM = os.path.join(vlib.VERIF, "spec", "sem")


def run_scenarios(res, scen_list, monitor, spec_dir=SEM, tag="", timeout=1500, sub="seq"):
    """scen_list: list of scenario dicts without 'tr'. Returns number of traces validated. Adds violations to res."""
    if not scen_list:
        return 0
    vh = vlib.build_vh()
    base = os.path.join(vlib.scratch(), "s%s_%d" % (tag, len(os.listdir(vlib.scratch()))))
    sp, tp = base + ".scen", base + ".trace"
    scen = {}
    with open(sp, "w") as f:
        for i, sc in enumerate(scen_list):
            sc = dict(sc, tr=i + 1)
            scen[i + 1] = sc
            f.write(json.dumps(sc) + "\n")
    rc, out = vlib.sh([vh, sub, "-scen", sp, "-out", tp, "-par", "16"], timeout)
    if rc != 0:
        raise vlib.Inconclusive("driver failed:\n" + out[-3000:])
    inc = [l for l in out.splitlines() if l.startswith("INCONCLUSIVE")]
    if len(inc) > max(3, len(scen_list) // 50):
        raise vlib.Inconclusive("%d of %d scenarios inconclusive, e.g. %s" % (len(inc), len(scen_list), inc[0]))
    if inc:
        res.notes.append("%d scenarios inconclusive (driver could not reach quiescence), e.g. %s" % (len(inc), inc[0]))
    rej, _, nlines = vlib.validate(spec_dir, monitor, tp, set())
    if rej:
        kd = vlib.known_devs(res.prop)
        rej2, devs, _ = vlib.validate(spec_dir, monitor, tp, set(kd)) if kd else (rej, [], 0)
        still = {r[0] for r in rej2}
        cnt = {}
        for tr, _, d in devs:
            if tr not in still and d in kd:
                cnt.setdefault(d, set()).add(tr)
        for d, trs in cnt.items():
            res.known[d] = res.known.get(d, 0) + len(trs)
        seen = set()
        for tr, line, code in rej2:
            if tr in seen:
                continue
            seen.add(tr)
            res.violation("%s at trace line %d (%s)" % (code, line, monitor), dict(scen.get(tr, {}), family=tag))
    n = len(scen_list) - len(inc)
    res.cov["traces_validated_against_impl"] += n
    res.cov["evaluations"] += len(scen_list)
    res.cov["trace_events"] = res.cov.get("trace_events", 0) + nlines
    if len(res.cov["samples"]) < 4:
        res.cov["samples"].append(scen[1])
        if len(scen) > 1:
            res.cov["samples"].append(scen[len(scen)])
    return n


def model(res, spec_dir, module, cfg_text, name, constants, workers=8, timeout=900, must_hold=True):
    r = vlib.tlc(spec_dir, module, cfg_text, workers=workers, timeout=timeout)
    res.add_model(name, r, constants)
    if not r["ok"]:
        if r["violated"] and not must_hold:
            return r
        if r["violated"]:
            res.notes.append("MODEL-COUNTEREXAMPLE %s: %s violated (decided by replay on the real engine)" % (name, r["violated"]))
        else:
            raise vlib.Inconclusive("TLC failed on %s:\n%s" % (name, r.get("error", r["out"][-2000:])))
    return r
