import itertools, json, os, random, sys
sys.path.insert(0, os.path.dirname(os.path.abspath(__file__)))
import seqfam, vlib, exprgen
from exprgen import sql, col, num, strlit

ASSUME = ["texts and patterns over the alphabet {%, _, a, b, .} (the . stands for regex metacharacters) plus upper-case variants for the case-sensitivity scenarios, plus a set of patterns / texts holding double-quote characters",
          "carriers: WHERE, searched-CASE condition in SELECT (exhaustive like WHERE), parenthesised SELECT expression, HAVING over the alias of last_value(s); an un-parenthesised x LIKE p as a SELECT expression is a pinned finding",
          "x LIKE p with x NULL or missing: the row is rejected / the value is not true"]
ALPHA = ["%", "_", "a", "b", "."]


def strings(maxlen):
    out = [""]
    for n in range(1, maxlen + 1):
        out += ["".join(t) for t in itertools.product(ALPHA, repeat=n)]
    return out


def like_scen(pat, texts, carrier, mode, neg=False):
    like = {"t": "like", "a": col("s"), "pat": list(pat), "neg": neg}
    rows = [{"id": i + 1, "s": t} for i, t in enumerate(texts)]
    if carrier == "where":
        sel = [{"al": "id", "e": col("id")}]
        meta = {"fam": "direct", "star": 0, "chan": 0, "sel": sel, "where": like}
        txt = "SELECT id FROM stream WHERE " + sql(like)
    elif carrier == "case":
        e = {"t": "case", "whens": [{"c": like, "r": num(1)}], "else": num(0)}
        meta = {"fam": "direct", "star": 0, "chan": 0, "sel": [{"al": "id", "e": col("id")}, {"al": "m", "e": e}]}
        txt = "SELECT id, %s AS m FROM stream" % sql(e)
    elif carrier == "selpar":       # a parenthesised LIKE as a select item (evaluated through the expression bridge and its preprocess cache)
        meta = {"fam": "direct", "star": 0, "chan": 0, "sel": [{"al": "id", "e": col("id")}, {"al": "m", "e": exprgen.par(like)}]}
        txt = "SELECT id, (%s) AS m FROM stream" % sql(like)
    else:
        meta = {"fam": "direct", "star": 0, "chan": 0, "sel": [{"al": "id", "e": col("id")}, {"al": "m", "e": like}]}
        txt = "SELECT id, %s AS m FROM stream" % sql(like)
    sc = {"meta": meta, "sql": txt, "rows": rows}
    if mode == "sync":
        sc["mode"] = "sync"
    return sc


def aggcase_scen(rng, pats, texts):
    """CASE conditions INSIDE aggregate arguments: sum(CASE WHEN s LIKE p THEN 1 ELSE 0 END) counts the rows that match, several such
    aggregates in one statement (patterns that differ in letter case only are different patterns), IS [NOT] NULL over a column the row
    may lack altogether"""
    n = rng.choice([4, 6, 8])
    rows = []
    for i in range(n):
        r = {"id": i + 1}
        x = rng.choice(texts + [None, "__missing__", "__missing__"])
        if x != "__missing__": r["s"] = x
        if rng.random() < 0.6: r["v"] = rng.choice([1, 2, 3])       # (some rows hold nothing but their id)
        rows.append(r)
    conds = []
    p1 = rng.choice(pats)
    conds.append({"t": "like", "a": col("s"), "pat": list(p1), "neg": False})
    p2 = p1.swapcase() if p1.swapcase() != p1 and rng.random() < 0.6 else rng.choice(pats)
    if p2 != p1:
        conds.append({"t": "like", "a": col("s"), "pat": list(p2), "neg": False})
    conds.append({"t": "isnull", "a": col("s"), "neg": rng.random() < 0.4})
    rng.shuffle(conds)
    items, aggs = [], []
    for k, c in enumerate(conds):
        items.append("sum(CASE WHEN %s THEN 1 ELSE 0 END) AS a%d" % (sql(c), k))
        aggs.append({"al": "a%d" % k, "fn": "sum", "arg": {"k": "cond", "e": c}, "p": 0})
    items.append("count(*) AS cn"); aggs.append({"al": "cn", "fn": "count_star", "arg": {"k": "star"}, "p": 0})
    meta = {"fam": "batch", "carrier": "counting", "n": n, "gcols": [], "gout": [], "aggs": aggs}
    return {"meta": meta, "sql": "SELECT %s FROM stream GROUP BY CountingWindow(%d)" % (", ".join(items), n), "rows": rows, "norename": True}


def having_scen(rng, preds, pats, texts=None):
    """HAVING carrier: predicates over the alias of last_value(s) in a tumbling batch of 4 groups"""
    groups = ["a", "b", "c", "d"]
    rows, rid = [], 0
    texts = texts or ["ab", "a", "b%", "", "aab", "xaab", "a.b"]
    for g in groups:
        for k in range(rng.choice([1, 2])):
            rid += 1
            r = {"id": rid, "ts": 1000 + rid, "g": g}
            x = rng.choice(texts + [None, "__missing__"])
            if x != "__missing__":
                r["s"] = x
            rows.append(r)
    n = len(rows)
    rows.append({"id": n + 1, "ts": 40000, "g": "zz", "s": "zz"})
    ls = col("ls")
    kind = rng.choice(preds)
    like = {"t": "like", "a": ls, "pat": list(rng.choice(pats)), "neg": False}
    notnull = {"t": "isnull", "a": ls, "neg": True}
    isnull = {"t": "isnull", "a": ls, "neg": False}
    cnt2 = {"t": "cmp", "op": ">=", "a": col("c"), "b": num(2)}
    having = {"like": like, "notnull": notnull, "isnull": isnull, "like_and_notnull": {"t": "and", "a": like, "b": notnull},
              "notnull_and_like": {"t": "and", "a": notnull, "b": like},
              "like_and_count": {"t": "and", "a": like, "b": cnt2}, "count_and_like": {"t": "and", "a": cnt2, "b": like}}[kind]
    # an aggregate CALL written in HAVING (here the selected count(*)) next to a quoted literal, before and after it
    hsql = {"like_and_count": sql(like) + " AND count(*) >= 2", "count_and_like": "count(*) >= 2 AND " + sql(like)}.get(kind) or sql(having)
    sel = [{"al": "ls", "e": col("lv_s")}, {"al": "c", "e": col("cnt")}]
    meta = {"fam": "postagg", "n": n, "aggdefs": [{"key": "lv_s", "fn": "last_value", "arg": "s"}, {"key": "cnt", "fn": "count_star", "arg": "s"}],
            "sel": sel, "gsel": 1, "order": [], "limit": 0, "distinct": 0, "having": having}
    txt = "SELECT g, last_value(s) AS ls, count(*) AS c FROM stream GROUP BY g, TumblingWindow('10s') HAVING %s WITH (TIMESTAMP='ts', TIMEUNIT='ms')" % hsql
    return {"meta": meta, "sql": txt, "rows": rows}


def null_scen(colexpr, rows, carrier, neg, mode):
    isn = {"t": "isnull", "a": colexpr, "neg": neg}
    if carrier == "where":
        meta = {"fam": "direct", "star": 0, "chan": 0, "sel": [{"al": "id", "e": col("id")}], "where": isn}
        txt = "SELECT id FROM stream WHERE " + sql(isn)
    else:
        e = {"t": "case", "whens": [{"c": isn, "r": num(1)}], "else": num(0)}
        meta = {"fam": "direct", "star": 0, "chan": 0, "sel": [{"al": "id", "e": col("id")}, {"al": "m", "e": e}]}
        txt = "SELECT id, %s AS m FROM stream" % sql(e)
    sc = {"meta": meta, "sql": txt, "rows": rows}
    if mode == "sync":
        sc["mode"] = "sync"
    return sc


def run(tier):
    res = vlib.Result("C13", tier)
    rng = random.Random(vlib.seed())
    quick = tier == "quick"
    L = 3 if quick else 4
    S = strings(L)
    scen = []
    texts_all = S
    pats = S[1:]                      # patterns of length >= 1
    for k, pat in enumerate(pats):
        if quick or len(pat) <= 3:
            texts = texts_all          # exhaustive: every text against this pattern
        else:
            texts = rng.sample(texts_all, 160)
        scen.append(like_scen(pat, texts, "where", "sync" if k % 2 else "emit"))
        if quick or len(pat) <= 3:      # the CASE carrier has a matcher of its own: every text against the pattern there too
            scen.append(like_scen(pat, texts_all + [None], "case", "sync" if k % 2 else "emit"))
        if k % (10 if quick else 20) == 0:
            scen.append(like_scen(pat, rng.sample(texts_all, 60) + [None, None], "case", "sync"))      # an explicit NULL text: not true, the ELSE branch
            pass  # SELECT-expression carrier: x LIKE p as a select item is NULL on the unchanged tree (pinned finding LikeInSelectIsNull)
            scen.append(like_scen(pat, rng.sample(texts_all, 60) + [None], "where", "sync", neg=False))
    # IS [NOT] NULL: present / NULL / missing x flat and nested columns x carriers
    flat_rows = [{"id": 1, "s": "a"}, {"id": 2, "s": None}, {"id": 3}, {"id": 4, "s": ""}, {"id": 5, "s": 0}, {"id": 6, "s": False}]
    nest_rows = [{"id": 1, "o": {"f": 1}}, {"id": 2, "o": {"f": None}}, {"id": 3, "o": {"g": 1}}, {"id": 4}, {"id": 5, "o": None}]
    for carrier in ("where", "case"):
        for neg in (False, True):
            for mode in ("sync", "emit"):
                scen.append(null_scen(col("s"), flat_rows, carrier, neg, mode))
                # WHERE o.f IS NULL with the parent object absent is a pinned finding (NestedIsNullParentAbsent)
                scen.append(null_scen({"t": "path", "p": ["o", "f"]}, nest_rows[:3] if carrier == "where" else nest_rows, carrier, neg, mode))
    # columns whose NAME contains an operator word (note / Notes / annotation contain "not", nullable "null", island "is"): the name decides nothing
    for name in ("note", "Notes", "annotation", "nullable", "island", "s_not_null", "is_tag", "or_code", "IS_x", "not_a", "like_b"):
        rows_n = [{"id": 1, name: "a"}, {"id": 2, name: None}, {"id": 3}, {"id": 4, name: ""}]
        for carrier in ("where", "case"):
            for neg in (False, True):
                scen.append(dict(null_scen(col(name), rows_n, carrier, neg, "sync" if neg else "emit"), norename=True))
    # quote characters inside patterns and texts (a double quote at the edge of a single-quoted pattern is a character like any other)
    qpats = ['"a%', '%"', '"_', 'a"%', '"', '%"%', '_"', '"%"', '%IS NULL%', 'x IS NOT NULL', '%lag(x)%']      # also operator text INSIDE the pattern
    qtexts = ['"ab', 'ab', 'a"', '"', 'x"', 'a"b', '""', '', '"a"', 'a', 'the value IS NULL here', 'x IS NOT NULL', 'a lag(x) b']
    for k, pat in enumerate(qpats):
        for carrier in ("where", "case", "selpar"):
            if "(" in pat and carrier != "where":
                continue      # a CASE / parenthesised item holding parentheses in a literal is the recorded family CaseInsideExpressionIsNull
            scen.append(like_scen(pat, qtexts, carrier, "sync" if k % 2 else "emit"))
    # LIKE conditions over columns whose names begin with an operator word and an underscore (is_tag, or_code)
    for name in ("is_tag", "or_code", "like_b"):
        for k, pat in enumerate(["a%", "%b", "a_"]):
            for carrier in ("where", "case", "selpar"):
                sc = like_scen(pat, ["ab", "b", "a", "xb"] + ([None] if carrier != "selpar" else []), carrier, "sync" if k % 2 else "emit")
                sc = json.loads(json.dumps(sc).replace('"c": "s"', '"c": "%s"' % name))
                sc["sql"] = sc["sql"].replace("s LIKE", name + " LIKE")
                sc["rows"] = [{(name if kk == "s" else kk): vv for kk, vv in r.items()} for r in sc["rows"]]
                sc["norename"] = True
                scen.append(sc)
    # literal characters outside ASCII in patterns and texts (the wildcards stand for ASCII characters here: the engine's "_" is one BYTE)
    upats = ["é_b%", "%é%7%", "传感器_%", "café-_-%", "%器", "é%", "_", "_é", "传_器%", "__"]      # "_" is one CHARACTER, whatever its byte length
    utexts = ["éab", "éxbzz", "xé17", "传感器1号", "传感器", "café-x-y", "cafe-x-y", "温度传感器", "é", "eab", "é7", "器é", "éé", "e"]
    for k, pat in enumerate(upats):
        for carrier in ("where", "case", "selpar"):
            scen.append(dict(like_scen(pat, utexts, carrier, "sync" if k % 2 else "emit"), norename=True))
    # CASE carrier with NULL texts for the patterns that a stringified NULL could match by accident
    for k, pat in enumerate(["%", "%%", "_____", "<%", "%i%", "%l>", "<nil>", "<___>", "nil", "%n%", "NULL", "%U%"]):
        scen.append(like_scen(pat, ["a", None, "<nil>", None, "null", "NULL"], "case", "sync" if k % 2 else "emit"))
    # parenthesised select items; patterns and texts that differ only in letter case (a cache keyed case-insensitively would mix them up)
    cased = ["a%", "A%", "%b", "%B", "a_", "A_", "%ab%", "%AB%", "%aB%", "ab", "AB", "Ab"]
    ctexts = ["ab", "Ab", "aB", "AB", "b", "B", "xab", "xAB", ""]
    for k, pat in enumerate(cased * (1 if quick else 3)):
        scen.append(like_scen(pat, ctexts + rng.sample(texts_all, 20), "selpar", "sync" if k % 2 else "emit"))
        scen.append(like_scen(pat, ctexts, "where", "sync"))
    for k, pat in enumerate(rng.sample(pats, 40 if quick else 200)):
        scen.append(like_scen(pat, rng.sample(texts_all, 40), "selpar", "sync" if k % 2 else "emit"))
    seqfam.run_scenarios(res, scen, "TraceDirect", tag="like", relayout_p=0.3, rename_p=0.3)
    hav = [having_scen(rng, ["like", "notnull", "isnull", "like_and_notnull", "notnull_and_like"], ["a%", "%b", "a_", "%", "%a%", "a%b", "x%aab", "_"]) for _ in range(150 if quick else 5000)]
    # text that looks like an aggregate call INSIDE the pattern literal of a HAVING clause is a run of characters like any other
    hav += [having_scen(rng, ["like", "like_and_notnull", "notnull_and_like"], ["%max(x)%", "%count(*)%", "max(s)", "%avg(v)", "sum(%"],
                        texts=["a max(x) b", "max(s)", "count(*)", "x avg(v)", "ab", "sum(v)", "max(x)"]) for _ in range(40 if quick else 1000)]
    hav += [having_scen(rng, ["like_and_count", "count_and_like"], ["a%", "%b", "%", "%a%", "a%b", "%max(x)%", "x y z%"],
                        texts=["ab", "a", "b", "x y z", "a max(x) b", "aab"]) for _ in range(60 if quick else 1500)]
    # a keyword standing as a word of its own INSIDE the pattern literal is a run of characters like any other
    hav += [having_scen(rng, ["like", "like_and_notnull", "notnull_and_like", "like_and_count"], ["case-%", "%case-%", "% case %", "case %", "%when %", "% end", "%and %", "% or %"],
                        texts=["case-1", "box-1", "suitcase-2", "a case b", "case x", "when x", "the end", "a and b", "a or b", "ab"]) for _ in range(80 if quick else 2000)]
    seqfam.run_scenarios(res, hav, "TracePostAgg", tag="having")
    scen += hav
    agc = [aggcase_scen(rng, ["a%", "A%", "%b", "%B", "a_", "ab", "Ab", "%a%", "%"], ["ab", "Ab", "AB", "b", "aB", "xb", "", "a"]) for _ in range(120 if quick else 4000)]
    seqfam.run_scenarios(res, agc, "TraceBatch", tag="aggcase", relayout_p=0.3)
    scen += agc
    seqfam.run_pinned(res, "TraceDirect")
    res.cov["exhaustive"] = True
    npairs = sum(len(s["rows"]) for s in scen)
    res.cov["distinct_nontrivial"] = npairs
    res.cov["rule"] = ("WHERE carrier: every pattern of length 1..%d over {%%, _, a, b, .} against every text of length 0..%d (exhaustive, %d patterns x %d texts%s); "
                       "CASE-condition and SELECT-expression carriers on a sample of patterns; IS [NOT] NULL for present / NULL / missing / empty / zero / false values of flat and nested columns "
                       "in WHERE and CASE; distinct = (text, pattern) evaluations") % (L, L, len(pats), len(texts_all), "" if quick else "; length-4 patterns against a 160-text sample")
    res.assumptions = ASSUME
    cfg = 'SPECIFICATION Spec\nCONSTANTS Alphabet = {"%%", "_", "a", "b"} MaxLen = %d\nINVARIANTS Laws\nCHECK_DEADLOCK FALSE\n' % (3 if quick else 4)
    seqfam.model(res, seqfam.SEM, "LikeLaws", cfg, "LikeLaws", {"Alphabet": "%_ab", "MaxLen": 3 if quick else 4}, timeout=1500)
    return res.finish()


if __name__ == "__main__":
    vlib.main(run)
