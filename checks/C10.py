import os, sys
sys.path.insert(0, os.path.dirname(os.path.abspath(__file__)))
import win, vlib

ASSUME = ["window output buffer never overflows", "single producer", "IDLETIMEOUT: a delivery the watermark does not justify is accepted only after the source was idle for the timeout (wall-clock brackets); after such a flush the trace no longer judges lateness",
          "two on-time events of a key exactly one timeout apart may be in the same or in different sessions (half-open slot)",
          "late rows (older than the watermark on arrival) are outside C10's guarantee; only C02's rules apply to them"]


def run(tier):
    if tier == "quick":
        plan = [("session", dict(size=2, moo=1, al=0, maxts=6, maxev=3, mc=dict(maxts=6, maxev=4))),
                ("session", dict(size=2, moo=0, al=0, maxts=5, maxev=4, cap=4000)),
                ("session", dict(size=2, moo=1, al=2, maxts=4, maxev=4, cap=1500, mc=dict(maxts=5, maxev=4)))]     # late updates: only into the key's own fired session
        free = [("session", dict(size=2, moo=1, al=0, keys=2), 60, 30), ("session", dict(size=3, moo=3, al=0, keys=3), 50, 40),
                ("session", dict(size=2, moo=0, al=0, keys=1), 30, 30), ("session", dict(size=3, moo=1, al=3, keys=2), 30, 40)]
    else:
        plan = [("session", dict(size=2, moo=1, al=0, maxts=7, maxev=4, cap=60000)),
                ("session", dict(size=2, moo=0, al=0, maxts=6, maxev=4, cap=40000)),
                ("session", dict(size=3, moo=2, al=0, maxts=8, maxev=4, cap=40000)),
                ("session", dict(size=2, moo=1, al=2, maxts=6, maxev=4, cap=40000))]
        free = [("session", dict(size=2, moo=1, al=0, keys=2), 400, 40), ("session", dict(size=3, moo=3, al=0, keys=3), 300, 60),
                ("session", dict(size=2, moo=0, al=0, keys=1), 200, 40), ("session", dict(size=4, moo=2, al=3, keys=2), 200, 50)]
    # "block" strategy with a small window output buffer in front of a slowed consumer: many sessions closed by one watermark step are
    # all delivered (each result is taken well within the BlockTimeout, the whole batch takes longer than it)
    free += [("session", dict(size=3, moo=1, al=0, manykeys=36, perf={"strategy": "block", "blockms": 500, "winout": 2, "slowsink": 30000}), 3 if tier == "quick" else 12, 0),
             ("session", dict(size=3, moo=0, al=0, manykeys=12, perf={"strategy": "expand", "winout": 2, "slowsink": 2000}), 2 if tier == "quick" else 12, 0)]
    # two grouping columns (keys that agree in the first one are different keys); manual flushes (TriggerWindow) between the rows
    free += [("session", dict(size=2, moo=1, al=0, keys=2, twocol=True), 30 if tier == "quick" else 200, 40),
             ("session", dict(size=3, moo=0, al=0, keys=2, mtrig=0.08), 30 if tier == "quick" else 200, 40),
             ("session", dict(size=2, moo=1, al=0, keys=3, twocol=True, mtrig=0.05), 20 if tier == "quick" else 150, 40)]
    free += [("session", dict(size=2, moo=1, al=0, keys=2, nullkeys=True), 30 if tier == "quick" else 300, 30),
             ("session", dict(size=3, moo=0, al=2, keys=2, nullkeys=True), 20 if tier == "quick" else 200, 30)]
    idle = [("session", dict(size=10, moo=2), 6 if tier == "quick" else 50)]      # IDLETIMEOUT: ties and stragglers keep a source alive
    post = lambda res, rng, vh, scen: win.proc_session_stage(res, rng, vh, scen, quick=(tier == "quick"))
    return win.run_family("C10", tier, plan, free, ASSUME, idle_plan=idle, post=post)


if __name__ == "__main__":
    vlib.main(run)
