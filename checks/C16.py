import itertools, json, os, random, sys
sys.path.insert(0, os.path.dirname(os.path.abspath(__file__)))
import seqfam, vlib

ASSUME = ["a NULL or missing ON-key component leaves match / no-match open (the statement is silent)", "single caller, operations in sequence: an update that returned is visible to the next row",
          "WHERE on joined columns is a comparison of a table column with a numeric literal; GROUP BY on joined columns is exercised on the window path by one scenario shape",
          "concurrent replay: one updater goroutine (updates in sequence) and two EmitSync callers; a row may have been enriched from the table after any prefix of the updates between 'all that had returned before its call' and 'all that were called before its return' (TraceJoinConc)"]
KEYVALS = [1, 2, {"$f": 1.0}, {"$f": 2.5}, "1", "a", "b", 16777216, 16777217, 1700000000, 1700000001, {"$i8": 1}, {"$i16": 2}, {"$u8": 2}, {"$u16": 1},
           # integers beyond 2^53 that differ by one (distinct keys), texts holding the separator of the table store's own key encoding
           {"$big": "9007199254740992", "t": "int64"}, {"$big": "9007199254740993", "t": "int64"}, "x", "x\x1fs:y", "y\x1fs:z", "z",
           # the zero values are keys like any other
           0, {"$f": 0.0}, "", 0, ""]


def samekey(a, b):
    """reference equality used only to build interesting inputs (the verdict is TLC's)"""
    return json.dumps(a) == json.dumps(b)


def mk(rng, quick):
    sc = mk0(rng, quick)
    return sc


def variant(sc, rng):
    """the same scenario with the stream under an alias and its key columns inside a nested object (s.dev.k1 = m.k1)"""
    import copy, re
    sc = copy.deepcopy(sc)
    sc["sql"] = sc["sql"].replace(" FROM stream", " FROM stream s")
    for j in sc["meta"]["joins"]:
        a = {"meta": "m", "dim": "d"}[j["name"]]
        for pr in j["on"]:
            c = pr[0]
            sc["sql"] = sc["sql"].replace(" %s = %s.%s" % (c, a, c), " s.dev.%s = %s.%s" % (c, a, c)).replace(" %s.%s = %s" % (a, c, c), " %s.%s = s.dev.%s" % (a, c, c))
            pr[0] = "dev." + c
            pr.append(["dev", c])
    # selected stream key columns stay top-level columns of the row; the join keys move into dev (with decoy values on top level)
    for o in sc["ops"]:
        if o["op"] in ("sync", "emit"):
            r = o["row"]
            dev = {}
            for c in ("k1", "k2"):
                if c in r:
                    dev[c] = r[c]
                    r[c] = rng.choice([r[c], "decoy", 99])
            r["dev"] = dev
    return sc


def mk0(rng, quick):
    njoin = rng.choice([1, 1, 1, 2])
    names = ["meta", "dim"][:njoin]
    alias = {"meta": "m", "dim": "d"}
    pool = [rng.sample(KEYVALS, 4) for _ in range(2)]
    joins, tables, sel, frm = [], [], [], ""
    allcols = set()
    for name in names:
        ncomp = rng.choice([1, 1, 2])
        scols = rng.sample(["k1", "k2"], ncomp) if njoin == 2 else ["k1", "k2"][:ncomp]
        scols.sort()
        allcols.update(scols)
        kind = rng.choice(["inner", "left"])
        def keyt(scols=scols):
            return [rng.choice(pool[int(c[1]) - 1]) for c in scols]
        trows = []
        for i in range(rng.choice([1, 2, 3])):
            r = {"loc": "%s%d" % (name[0].upper(), i), "n": rng.choice([5, 10, 20])}
            for c, v in zip(scols, keyt()): r[c] = v
            trows.append(r)
        a = alias[name]
        joins.append({"name": name, "kind": kind, "on": [[c, c] for c in scols], "tcols": [{"al": a + "loc", "c": "loc"}, {"al": a + "n", "c": "n"}], "_scols": scols, "_keyt": keyt})
        tables.append({"name": name, "rows": trows})
        frm += " %sJOIN %s %s ON %s" % ("LEFT " if kind == "left" else "", name, a, " AND ".join(("%s = %s.%s" % (c, a, c)) if rng.random() < 0.7 else ("%s.%s = %s" % (a, c, c)) for c in scols))      # the table's column on either side of "="
        sel += ["%s.loc AS %sloc" % (a, a), "%s.n AS %sn" % (a, a)]
    where, wtxt = None, ""
    if rng.random() < 0.25:
        j = rng.randrange(njoin)
        where = {"j": j + 1, "c": "n", "op": rng.choice([">", ">=", "<"]), "lit": rng.choice([5, 10, 15]) * 10000}
        wtxt = " WHERE %s.n %s %d" % (alias[names[j]], where["op"], where["lit"] // 10000)
    scols_all = sorted(allcols)
    sql = "SELECT id, %s, %s FROM stream%s%s" % (", ".join(scols_all), ", ".join(sel), frm, wtxt)
    ops, rid = [], 0
    shadow = rng.sample([alias[n] for n in names] + names, rng.choice([1, 2])) if rng.random() < 0.25 else []
    mode = rng.choice(["sync", "emit"])
    for _ in range(rng.choice([4, 6, 8])):
        r = rng.random()
        if r < 0.6:
            rid += 1
            row = {"id": rid}
            if rng.random() < 0.4:      # the stream row carries columns of its own that are named like the table's: they never stand in for m.loc / m.n
                row["loc"] = "own%d" % rid
                if rng.random() < 0.5: row["n"] = 77
            if shadow:                  # ... nor does a column of the row named like the table or its alias (an object with loc / n, or a scalar)
                for nm in shadow:
                    row[nm] = rng.choice([{"loc": "shadow", "n": 99}, {"loc": "shadow"}, "text", 5])
            for c in scols_all:
                v = rng.choice(pool[int(c[1]) - 1])
                if rng.random() < 0.9: row[c] = v
                elif rng.random() < 0.5: row[c] = None
            ops.append({"op": mode, "row": row})
        elif r < 0.85:
            j = rng.choice(joins)
            if j.get("_frozen"): continue
            row = {"loc": "U%d" % len(ops), "n": rng.choice([5, 10, 20])}
            if rng.random() < 0.25: del row["loc"]          # a table row without the column: NULL under the alias
            for c, v in zip(j["_scols"], j["_keyt"]()): row[c] = v
            ops.append({"op": "upsert", "table": j["name"], "row": row})
        elif r < 0.95:
            j = rng.choice(joins)
            if j.get("_frozen"): continue
            ops.append({"op": "delete", "table": j["name"], "key": j["_keyt"]()})
        elif r < 0.97:     # the same source object registered once more: nothing changes (updates applied so far stay)
            j = rng.choice(joins)
            if j.get("_frozen"): continue
            ops.append({"op": "reregsrc", "table": j["name"]})
        elif r < 0.985 and len(joins) >= 2 and not any(o["op"] == "regrace" for o in ops):
            # two registrations overlap (the first table's source is a slow user-defined one, still loading while the second table is
            # registered): when both calls have returned, both tables hold their new contents - for every later row
            j1, j2 = rng.sample(joins, 2)
            def newrows(j, tag):
                out = []
                for i in range(rng.choice([1, 2])):
                    row = {"loc": "%s%d_%d" % (tag, len(ops), i), "n": rng.choice([5, 10, 20])}
                    for c, v in zip(j["_scols"], j["_keyt"]()): row[c] = v
                    out.append(row)
                return out
            ops.append({"op": "regrace", "table": j1["name"], "rows": newrows(j1, "S"), "keys": list(j1["_scols"]), "table2": j2["name"], "rows2": newrows(j2, "F")})
            j1["_frozen"] = True          # (a user-defined source takes no upserts / deletes through the engine's in-memory API)
        else:       # the table registered again under its name: the new contents replace the old ones for every later row
            j = rng.choice(joins)
            trows = []
            for i in range(rng.choice([0, 1, 2])):
                row = {"loc": "R%d_%d" % (len(ops), i), "n": rng.choice([5, 10, 20])}
                for c, v in zip(j["_scols"], j["_keyt"]()): row[c] = v
                trows.append(row)
            ops.append({"op": "register", "table": j["name"], "rows": trows})
    meta = {"fam": "join", "joins": [{k: v for k, v in j.items() if not k.startswith("_")} for j in joins], "scols": ["id"] + scols_all}
    if where: meta["where"] = where
    return {"meta": meta, "sql": sql, "tables": tables, "ops": ops, "rows": []}


def run(tier):
    res = vlib.Result("C16", tier)
    rng = random.Random(vlib.seed())
    quick = tier == "quick"
    scen = [mk(rng, quick) for _ in range(2500 if quick else 100000)]
    scen += [variant(sc, rng) for sc in scen[:len(scen) // 5] if "where" not in sc["meta"]]
    # concurrent: the same operation lists with the table updates in a goroutine of their own and two EmitSync callers
    conc = []
    while len(conc) < (400 if quick else 20000):
        sc = mk(rng, quick)
        if "where" in sc["meta"] or not any(o["op"] in ("upsert", "delete") for o in sc["ops"]) or any(o["op"] in ("register", "reregsrc", "regrace") for o in sc["ops"]):
            continue
        extra = mk(rng, quick)      # more rows and updates of the same shape: longer overlap
        for o in sc["ops"]:
            if o["op"] in ("sync", "emit"): o["op"] = "sync"
        sc["ops"] = sc["ops"] * 3
        rid = 0
        for o in sc["ops"]:
            if o["op"] == "sync":
                rid += 1
                o["row"] = dict(o["row"], id=rid)
        sc.update(conc=True, seed=rng.randrange(1 << 30))
        conc.append(sc)
    seqfam.run_scenarios(res, scen, "TraceJoin", tag="join", relayout_p=0.3, retype_p=0.3)
    seqfam.run_scenarios(res, conc, "TraceJoinConc", tag="joinconc")
    res.cov["exhaustive"] = False
    res.cov["distinct_nontrivial"] = len({json.dumps(s["ops"], sort_keys=True) + s["sql"] for s in scen})
    res.cov["rule"] = ("seeded operation sequences (4-8 of EmitSync / Emit / UpsertTable / Delete) over single and two-component keys drawn from "
                       "{1, 2, 1.0, 2.5, '1', 'a', 'b', 16777216, 16777217, 1700000000, 1700000001}, INNER and LEFT, optional WHERE on a joined column; distinct = distinct (SQL, operations)")
    res.assumptions = ASSUME
    for kind, mo in ([("inner", 5)] if quick else [("inner", 6), ("left", 6)]):
        cfg = 'SPECIFICATION Spec\nCONSTANTS Keys = {1, 2} Vals = {1, 2} MaxOps = %d Kind = "%s"\nINVARIANTS SeesLatest\nCHECK_DEADLOCK FALSE\n' % (mo, kind)
        seqfam.model(res, seqfam.SEM, "Join", cfg, "Join", {"Keys": 2, "Vals": 2, "MaxOps": mo, "Kind": kind})
    return res.finish()


if __name__ == "__main__":
    vlib.main(run)
