import itertools, json, os, random, sys
sys.path.insert(0, os.path.dirname(os.path.abspath(__file__)))
import seqfam, vlib

ASSUME = ["a NULL or missing ON-key component leaves match / no-match open (the statement is silent)", "single caller, operations in sequence: an update that returned is visible to the next row",
          "WHERE on joined columns is a comparison of a table column with a numeric literal; GROUP BY on joined columns is exercised on the window path by one scenario shape",
          "concurrent updater/emitter interleavings are model-checked (Join.tla) but replayed only sequentially in this round"]
KEYVALS = [1, 2, {"$f": 1.0}, {"$f": 2.5}, "1", "a", "b", 16777216, 16777217, 1700000000, 1700000001]


def samekey(a, b):
    """reference equality used only to build interesting inputs (the verdict is TLC's)"""
    return json.dumps(a) == json.dumps(b)


def mk(rng, quick):
    ncomp = rng.choice([1, 1, 2])
    scols = ["k1", "k2"][:ncomp]
    kind = rng.choice(["inner", "left"])
    pool = [rng.sample(KEYVALS, 4) for _ in range(ncomp)]
    def keyt():
        return [rng.choice(p) for p in pool]
    trows, seen = [], []
    for i in range(rng.choice([1, 2, 3])):
        k = keyt()
        if any(json.dumps(k) == json.dumps(s) for s in seen):
            continue
        seen.append(k)
        r = {"loc": "L%d" % i, "n": rng.choice([5, 10, 20])}
        for c, v in zip(scols, k): r[c] = v
        trows.append(r)
    where = None
    wtxt = ""
    if rng.random() < 0.25:
        where = {"c": "n", "op": rng.choice([">", ">=", "<"]), "lit": rng.choice([5, 10, 15]) * 10000}
        wtxt = " WHERE m.n %s %d" % (where["op"], where["lit"] // 10000)
    on = " AND ".join("%s = m.%s" % (c, c) for c in scols)
    sql = "SELECT id, %s, m.loc AS loc, m.n AS n FROM stream %sJOIN meta m ON %s%s" % (", ".join(scols), "LEFT " if kind == "left" else "", on, wtxt)
    ops, rid = [], 0
    mode = rng.choice(["sync", "emit"])
    for _ in range(rng.choice([4, 6, 8])):
        r = rng.random()
        if r < 0.6:
            rid += 1
            row = {"id": rid}
            k = keyt()
            for c, v in zip(scols, k):
                if rng.random() < 0.9: row[c] = v
                elif rng.random() < 0.5: row[c] = None
            ops.append({"op": mode, "row": row})
        elif r < 0.85:
            k = keyt()
            row = {"loc": "U%d" % len(ops), "n": rng.choice([5, 10, 20])}
            for c, v in zip(scols, k): row[c] = v
            ops.append({"op": "upsert", "table": "meta", "row": row})
        else:
            ops.append({"op": "delete", "table": "meta", "key": keyt()})
    meta = {"fam": "join", "kind": kind, "on": [[c, c] for c in scols], "scols": ["id"] + scols, "tcols": [{"al": "loc", "c": "loc"}, {"al": "n", "c": "n"}]}
    if where: meta["where"] = where
    return {"meta": meta, "sql": sql, "tables": [{"name": "meta", "rows": trows}], "ops": ops, "rows": []}


def run(tier):
    res = vlib.Result("C16", tier)
    rng = random.Random(vlib.seed())
    quick = tier == "quick"
    scen = [mk(rng, quick) for _ in range(2500 if quick else 30000)]
    seqfam.run_scenarios(res, scen, "TraceJoin", tag="join")
    res.cov["exhaustive"] = False
    res.cov["distinct_nontrivial"] = len({json.dumps(s["ops"], sort_keys=True) + s["sql"] for s in scen})
    res.cov["rule"] = ("seeded operation sequences (4-8 of EmitSync / Emit / UpsertTable / Delete) over single and two-component keys drawn from "
                       "{1, 2, 1.0, 2.5, '1', 'a', 'b', 16777216, 16777217, 1700000000, 1700000001}, INNER and LEFT, optional WHERE on a joined column; distinct = distinct (SQL, operations)")
    res.assumptions = ASSUME
    for kind, mo in ([("inner", 5)] if quick else [("inner", 6), ("left", 6)]):
        cfg = 'SPECIFICATION Spec\nCONSTANTS Keys = {1, 2} Vals = {1, 2} MaxOps = %d Kind = "%s"\nINVARIANTS SeesLatest\nCHECK_DEADLOCK FALSE\n' % (mo, kind)
        seqfam.model(res, seqfam.SEM, "Join", cfg, "Join", {"Keys": 2, "Vals": 2, "MaxOps": mo, "Kind": kind})
    return res.finish()


if __name__ == "__main__":
    vlib.main(run)
