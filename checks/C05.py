import json, os, random, sys
sys.path.insert(0, os.path.dirname(os.path.abspath(__file__)))
import seqfam, vlib, exprgen
from exprgen import Gen, sql, col, num, strlit

PIPE = os.path.join(vlib.VERIF, "spec", "pipe")
ASSUME = ["bracket access map['key'] with keys containing spaces, colons, keywords and dots", "single producer; synchronous sink (asynchronous sinks are explicitly unordered)", "the result channel is drained continuously and at most 40 rows are outstanding (capacity 100)",
          "WHERE predicates are drawn from the envelope in which the engine follows SQL semantics (C06 decides expressions; deviations are pinned there)",
          "default overflow strategy with a 1000-row input buffer, or the expand strategy with a ceiling above the row count: no input row is dropped at these volumes"]


def select_items(rng, g):
    """columns, aliases, nested paths, string literals, expressions, function calls"""
    items = [{"al": "id", "e": col("id")}]
    for k in range(rng.choice([1, 2, 3])):
        r = rng.random()
        if r < 0.25:
            c = rng.choice(["x", "y", "s", "n"])
            if not any(it["al"] == c for it in items):
                items.append({"al": c, "e": col(c)})
        elif r < 0.4:
            items.append({"al": "a%d" % k, "e": col(rng.choice(["x", "y", "s"]))})
        elif r < 0.55:
            items.append({"al": "p%d" % k, "e": {"t": "path", "p": ["o", "f"]}})
        elif r < 0.63:
            # bracket access with keys that contain separators of the engine's own field specs; aliased or named by its text
            e = {"t": "path", "p": ["cfg", rng.choice(["net:host", "a b", "k", "as"])], "br": 1}
            un = rng.random() < 0.5
            al = sql(e) if un else "b%d" % k
            if not any(it["al"] == al for it in items):
                items.append({"al": al, "e": e, "unaliased": 1 if un else 0})
        elif r < 0.68:
            e = {"t": "path", "p": ["o", "f"]}
            if not any(it["al"] == "o.f" for it in items):
                items.append({"al": "o.f", "e": e, "unaliased": 1})       # an un-aliased nested path is reported under its text
        elif r < 0.71:
            items.append({"al": "l%d" % k, "e": strlit(rng.choice(["lit", "a b", "LIMIT"]))})
        elif r < 0.75 and not g.f["nulls"]:
            # a top-level searched CASE with numeric results (the layout layer spells its keywords in every case: "then 1 else 0")
            e = {"t": "case", "whens": [{"c": {"t": "cmp", "op": rng.choice([">", "<", ">="]), "a": col(rng.choice(["x", "y"])), "b": num(rng.choice([0, 1, 2, 3]))}, "r": num(rng.choice([1, 2, 7]))}], "else": num(0)}
            items.append({"al": "k%d" % k, "e": e})
        elif r < 0.78 and not g.f["nulls"]:
            # (column OP literal): evaluated by a compiled program that is cached per expression text - the result is a function of
            # THIS row only, whatever kinds of values earlier rows (of this or another statement of the process) carried
            if rng.random() < 0.75:
                e = exprgen.par({"t": "cmp", "op": rng.choice(["!=", "!=", ">", "<="]), "a": col(rng.choice(["x", "y"])), "b": num(rng.choice([0, 1, 2, 3, 5]))})
            else:
                e = exprgen.par({"t": "cmp", "op": "!=", "a": col("s"), "b": strlit(rng.choice(["ab", "a", "xz"]))})     # (x = 2) is NULL on the unchanged tree: recorded family ParenthesisedBooleanSelectItemIsNull
            items.append({"al": "q%d" % k, "e": e})
        elif r < 0.85:
            e = g.numexpr(2)
            while e["t"] == "num" or ("-" in sql(e).replace(" - ", "") and "." in sql(e)):
                e = g.numexpr(2)
            items.append({"al": "e%d" % k, "e": e})
        else:
            items.append({"al": "f%d" % k, "e": g.strexpr(2)})
    return items


def mk(rng, g, star, where_kind, nrows, mode, burst):
    meta = {"fam": "direct", "star": 1 if star else 0, "chan": 0 if mode == "sync" else 1, "sel": []}
    if star:
        txt = "SELECT * FROM stream"
    else:
        items = select_items(rng, g)
        meta["sel"] = items
        txt = "SELECT " + ", ".join(it["al"] if (it["e"]["t"] == "col" and it["e"]["c"] == it["al"]) else sql(it["e"]) if it.get("unaliased") else "%s AS %s" % (sql(it["e"]), it["al"]) for it in items) + " FROM stream"
    if where_kind:
        g.in_where = True
        w = g.flatchain(rng.choice([1, 2, 3])) if where_kind == "flat" else g.pred(2)
        g.in_where = False
        meta["where"] = w
        txt += " WHERE " + sql(w)
    rows = [g.row(i + 1) for i in range(nrows)]
    for r in rows:
        if rng.random() < 0.8:
            r["cfg"] = {k: rng.choice([1, "h1", {"$f": 2.5}]) for k in ["net:host", "a b", "k", "as"] if rng.random() < 0.8}
    sc = {"meta": meta, "sql": txt, "rows": rows, "chan": mode != "sync"}
    if mode == "sync":
        sc["mode"] = "sync"
    if burst:
        sc["burst"] = True
        meta["burst"] = 1
    return sc


def unsv(v, rng):
    """abstract value printed by the TLA+ model -> scenario JSON (numbers as int or float64)"""
    k = v["k"]
    if k == "null": return None
    if k == "num":
        n = v["v"] // 10000
        return n if rng.random() < 0.7 else {"$f": float(n)}
    if k == "list": return [unsv(x, rng) for x in v["v"]]
    if k == "map": return {a: unsv(b, rng) for a, b in v["v"].items()}
    return v["v"]


def path_stage(res, rng, quick):
    """Nested paths (docs/NESTED_FIELD_ACCESS.md): spec/lib/FieldPath.tla is the definition, spec/sem/PathLaws.tla checks its laws on
    every (document, path) pair and prints every path of up to MaxLen steps over the step alphabet (.name ['key'] ["key"] [i] [-i])
    together with the documents; each path is a SELECT item (aliased, or un-aliased = reported under its text) and some are WHERE
    operands; the real engine resolves them and TraceDirect judges each value with FieldPath!PResolve."""
    sem = os.path.join(vlib.VERIF, "spec", "sem")
    ml = 2 if quick else 3
    cfg = "SPECIFICATION Spec\nCONSTANTS MaxLen = %d Emit = TRUE\nINVARIANTS Laws EmitPath\nCHECK_DEADLOCK FALSE\n" % ml
    r = seqfam.model(res, sem, "PathLaws", cfg, "PathLaws", {"MaxLen": ml}, workers=1)
    docs = json.loads(vlib.prints(r["out"], "DOCS")[0][1])
    paths = [(json.loads(x[1]), json.loads(x[2])) for x in vlib.prints(r["out"], "PATH")]
    if not paths:
        raise vlib.Inconclusive("PathLaws printed no paths")
    if not quick:
        # all paths of up to 2 steps, and of the 3-step ones every path that leads somewhere in some document plus a sample of the dead ones
        live = [p for p in paths if len(p[0]) < 3 or any(k != "null" for k in p[1])]
        dead = [p for p in paths if not (len(p[0]) < 3 or any(k != "null" for k in p[1]))]
        paths = live + rng.sample(dead, min(len(dead), 1500))
    rng.shuffle(paths)
    scen = []
    per = 6
    for i in range(0, len(paths), per):
        chunk = paths[i:i + per]
        items = [{"al": "id", "e": col("id")}]
        for k, (parts, kinds) in enumerate(chunk):
            parts = [dict(pt, dq=1) if pt["k"] == "k" and rng.random() < 0.4 else pt for pt in parts]
            e = {"t": "path2", "c": "d", "parts": parts}
            un = rng.random() < 0.2
            al = sql(e) if un else "p%d" % k
            if not any(it["al"] == al for it in items):
                items.append({"al": al, "e": e, "unaliased": 1 if un else 0})
        meta = {"fam": "direct", "star": 0, "chan": 0, "sel": items, "profile": "paths"}
        txt = "SELECT " + ", ".join("id" if it["al"] == "id" else sql(it["e"]) if it.get("unaliased") else "%s AS %s" % (sql(it["e"]), it["al"]) for it in items) + " FROM stream"
        # WHERE over a path whose value is a number or NULL in every document (an ordering comparison with another kind is C06's subject)
        numeric = [pp for pp in chunk if all(k in ("num", "null") for k in pp[1]) and any(k == "num" for k in pp[1])]
        if numeric and rng.random() < 0.6:
            w = {"t": "cmp", "op": rng.choice([">", ">=", "<", "<="]), "a": {"t": "path2", "c": "d", "parts": rng.choice(numeric)[0]}, "b": num(rng.choice([1, 2, 5, 6, 10, 20]))}
            meta["where"] = w
            txt += " WHERE " + sql(w)
        rows = []
        order = [0, 1, 2, 0, 1, 2]
        rng.shuffle(order)
        for j, di in enumerate(order[:rng.choice([3, 4, 6])]):
            rows.append({"id": j + 1, "d": unsv(docs[di], rng)})
        extra = rng.choice([None, {"id": 90}, {"id": 91, "d": None}, {"id": 92, "d": 5}, {"id": 93, "d": [1, 2]}, {"id": 94, "d": "text"}])
        if extra:
            rows.insert(rng.randrange(len(rows) + 1), extra)
        sc = {"meta": meta, "sql": txt, "rows": rows, "chan": False, "norename": True}
        if i % 2: sc["mode"] = "sync"
        scen.append(sc)
    seqfam.run_scenarios(res, scen, "TraceDirect", tag="paths", relayout_p=0.3, retype_p=0.3)
    res.cov["path_statements"] = len(scen)
    res.cov["paths"] = len(paths)
    res.notes.append("nested paths: %d paths of up to %d steps from PathLaws.tla in %d statements over its %d documents (+ rows whose d is absent / NULL / a scalar / an array), judged by FieldPath!PResolve" % (len(paths), ml, len(scen), len(docs)))


def run(tier):
    res = vlib.Result("C05", tier)
    rng = random.Random(vlib.seed())
    quick = tier == "quick"
    g = Gen(rng, nulls=False, cases=False, nots=False, explicit_null=False)      # expressions / predicates: conforming envelope (see C06)
    gn = Gen(rng, cases=False, nots=False, plus=False, neq=False, ors=False, eqcols=False)   # NULL / missing sources
    scen = []
    n = 1500 if quick else 60000
    for i in range(n):
        gg = gn if i % 3 == 0 else g
        star = i % 7 == 0
        wk = [None, "flat", "pred"][i % 3] if gg is g else [None, "pred"][i % 2]
        mode = "sync" if i % 2 else "emit"
        sc = mk(rng, gg, star, wk, rng.choice([3, 5, 8]), mode, False)
        if gg is gn:               # NULL profile: a WHERE over a function of NULL is an open outcome - no channel expectation there
            sc["chan"] = False; sc["meta"]["chan"] = 0
        scen.append(sc)
    # WHERE over a column that sometimes holds a numeric-looking string or a boolean: an ordering comparison with a number then
    # fails and rejects the row (left to right), whatever path evaluates it
    gm = Gen(rng, nulls=False, cases=False, nots=False, explicit_null=False, mixedkinds=True, ordonly=True, strs=False, paths=False, fns=False, negs=False)
    for i in range(150 if quick else 6000):
        gm.in_where = True
        w = gm.flatchain(rng.choice([1, 1, 2, 3]))
        if w["t"] in ("and", "or") and i % 2:      # pure AND / pure OR chains are the fast-path shapes; mixed ones go to the general evaluator
            pass
        gm.in_where = False
        meta = {"fam": "direct", "star": 0, "chan": 0, "sel": [{"al": "id", "e": col("id")}], "where": w, "profile": "where_mixedkind"}
        sc = {"meta": meta, "sql": "SELECT id FROM stream WHERE " + sql(w), "rows": [gm.row(j + 1) for j in range(rng.choice([5, 8]))], "chan": False}
        if i % 2: sc["mode"] = "sync"
        scen.append(sc)
    # a producer that re-uses one map object for all its rows: every result stays what it was when it was delivered
    for i in range(60 if quick else 2000):
        sc = mk(rng, g, i % 2 == 0, [None, "flat"][i % 2], rng.choice([4, 6]), "sync" if i % 3 else "emit", False)
        sc["reuse"] = True
        scen.append(sc)
    # ordering: rows handed in without waiting; sink and channel must see the results in emission order
    for i in range(60 if quick else 2000):
        scen.append(mk(rng, g, i % 5 == 0, [None, "flat"][i % 2], rng.choice([20, 40]), "emit", True))
    # the same with a tiny input buffer that has to be expanded while the (slowed) processor lags behind: still each row once, in order
    for i in range(30 if quick else 1500):
        sc = mk(rng, g, False, None, rng.choice([30, 40]), "emit", True)
        sc["perf"] = {"strategy": "expand", "data": rng.choice([2, 4, 8]), "max": 400, "mininc": rng.choice([2, 4]), "growth": rng.choice([1.5, 2.0]), "slowsink": rng.choice([100, 300])}
        sc["meta"]["expand"] = 1
        scen.append(sc)
    # several goroutines call EmitSync at the same time (WHERE shapes that miss the comparison fast path): every result is that of its row
    for i in range(40 if quick else 1500):
        sc = mk(rng, g, i % 4 == 0, ["pred", "flat", "pred"][i % 3], rng.choice([8, 12, 16]), "sync", False)
        sc.update(concsync=rng.choice([4, 8]), seed=rng.randrange(1 << 30), chan=False)
        sc["meta"]["chan"] = 0
        sc["meta"]["conc"] = 1
        scen.append(sc)
    # the lossless configuration: "block" without a timeout and a tiny input buffer in front of a slowed consumer - the producer waits,
    # every row arrives once and in order (also with a generous timeout)
    for i in range(30 if quick else 1500):
        sc = mk(rng, g, False, [None, "flat"][i % 2], rng.choice([30, 40, 60]), "emit", True)
        sc["perf"] = {"strategy": "block", "data": rng.choice([1, 2, 4, 8]), "slowsink": rng.choice([100, 300, 600]), "blockms": rng.choice([0, 0, 0, 20000])}
        sc["meta"]["block"] = 1
        scen.append(sc)
    # a select item a + b over TEXT columns: whatever the engine makes of two texts (open), a NULL or missing operand gives NULL - on every
    # row, also after rows on which one of the engine's evaluators failed and another one took over
    for i in range(40 if quick else 1500):
        tag = rng.randrange(10**6)
        ca, cb = "fa%d" % tag, "fb%d" % tag          # names of its own: the item's text is new to the process
        e = {"t": "bin", "op": "+", "a": col(ca), "b": col(cb)}
        rows = []
        for j in range(rng.choice([5, 7, 9])):
            k = rng.random() if j > 0 else 0.0
            r = {"id": j + 1}
            if k < 0.4: r[ca], r[cb] = rng.choice(["John", "a", "x y"]), rng.choice(["Smith", "b"])
            elif k < 0.6: r[ca], r[cb] = None, rng.choice(["Smith", "b"])
            elif k < 0.75: r[ca] = rng.choice(["John", "a"])
            elif k < 0.85: r[cb] = None
            else: r[ca], r[cb] = rng.choice([1, 2, 5]), rng.choice([1, 3])
            rows.append(r)
        meta = {"fam": "direct", "star": 0, "chan": 0, "sel": [{"al": "id", "e": col("id")}, {"al": "full", "e": e}], "profile": "textplus"}
        sc = {"meta": meta, "sql": "SELECT id, %s + %s AS full FROM stream" % (ca, cb), "rows": rows, "chan": False, "norename": True, "noretype": True}
        if i % 2: sc["mode"] = "sync"
        scen.append(sc)
    # SELECT DISTINCT on a non-aggregate query: there is no batch to deduplicate - every row's result is a function of that row and the
    # query alone, also when an earlier row projected to the same columns
    for i in range(40 if quick else 1500):
        cols = rng.choice([["g"], ["g", "w"], ["w", "g"]])
        where = rng.choice([None, {"t": "cmp", "op": ">", "a": col("w"), "b": exprgen.num(0)}])
        rows = [{"id": j + 1, "g": rng.choice(["p", "q"]), "w": rng.choice([0, 1, 1, 2])} for j in range(rng.choice([6, 9, 12]))]
        meta = {"fam": "direct", "star": 0, "chan": 0, "sel": [{"al": c, "e": col(c)} for c in cols], "profile": "distinct"}
        txt = "SELECT DISTINCT %s FROM stream" % ", ".join(cols)
        if where:
            meta["where"] = where
            txt += " WHERE " + exprgen.sql(where)
        sc = {"meta": meta, "sql": txt, "rows": rows, "chan": False}
        if i % 2: sc["mode"] = "sync"
        scen.append(sc)
    seqfam.run_scenarios(res, scen, "TraceDirect", tag="direct", relayout_p=0.3, retype_p=0.3, rename_p=0.3)
    seqfam.run_pinned(res, "TraceDirect")
    path_stage(res, rng, quick)
    # the 1 : n projection unnest(): every element of the array column yields one result row, in element order, each row's results
    # before the next row's (TraceUnnest)
    un = []
    for i in range(300 if quick else 10000):
        cols = rng.choice([["id"], ["id", "g"], ["g", "id"]])
        where = rng.choice([None, None, {"c": "w", "op": rng.choice([">", "<", ">="]), "lit": rng.choice([0, 1, 2]) * 10000}])
        rows = []
        for j in range(rng.choice([3, 5, 8])):
            k = rng.random()
            if k < 0.45: a = [rng.choice([1, 2, 3, "x", "y", {"$f": 2.5}, None, [1, 2]]) for _ in range(rng.choice([1, 2, 3, 4]))]
            elif k < 0.7: a = [rng.choice([{"x": 1, "y": "p"}, {"x": 2}, {"z": [1]}, {"x": None, "q": "r"}]) for _ in range(rng.choice([1, 2, 3]))]
            elif k < 0.8: a = []
            elif k < 0.9: a = None
            else: a = "__missing__"
            r = {"id": j + 1, "g": rng.choice(["p", "q"]), "w": rng.choice([0, 1, 2, 3])}
            if a != "__missing__": r["a"] = a
            rows.append(r)
        meta = {"fam": "unnest", "cols": cols, "arr": "a", "al": "r"}
        txt = "SELECT %s, unnest(a) AS r FROM stream" % ", ".join(cols)
        if where:
            meta["where"] = where
            txt += " WHERE w %s %d" % (where["op"], where["lit"] // 10000)
        un.append({"meta": meta, "sql": txt, "rows": rows})
    seqfam.run_scenarios(res, un, "TraceUnnest", tag="unnest", relayout_p=0.3)
    res.cov["unnest_scenarios"] = len(un)
    res.cov["exhaustive"] = False
    res.cov["distinct_nontrivial"] = len({s["sql"] + json.dumps(s["rows"], sort_keys=True) for s in scen})
    res.cov["rule"] = ("seeded queries: SELECT lists of columns, aliases, nested paths, string literals, arithmetic, function calls or *, optional WHERE (flat AND/OR chains or nested predicates), "
                       "rows mixing int / float64 / string / NULL / missing / nested maps; each through Emit (synchronous sink + result channel) or EmitSync in lock-step, "
                       "plus unthrottled bursts of 20-40 rows checked for emission order at sink and channel (default buffer, expand strategy with a tiny buffer, block strategy without timeout and a tiny buffer); distinct = distinct (SQL, rows)")
    res.assumptions = ASSUME
    for nn, ic, cc in ([(6, 2, 2)] if quick else [(7, 2, 2), (7, 3, 1), (8, 1, 3)]):
        cfg = "SPECIFICATION Spec\nCONSTANTS N = %d InCap = %d ChanCap = %d Pass = {1,2,4,6}\nINVARIANTS SinkInOrder SinkComplete ChanInOrder ChanAccounted\nCHECK_DEADLOCK FALSE\n" % (nn, ic, cc)
        seqfam.model(res, PIPE, "Direct", cfg, "Direct", {"N": nn, "InCap": ic, "ChanCap": cc})
    return res.finish()


if __name__ == "__main__":
    vlib.main(run)
