import json, os, random, sys
sys.path.insert(0, os.path.dirname(os.path.abspath(__file__)))
import seqfam, vlib

PIPE = os.path.join(vlib.VERIF, "spec", "pipe")
ASSUME = ["a sink blocked for longer than the grace period is abandoned by Stop: in that scenario only 'Stop returns within its grace period' and 'no deadlock' are judged (the abandoned goroutine resumes when the sink is released)",
          "a sink re-entering Emit is not combined with the blocking strategy (it would wait on the very goroutine that runs it)",
          "decided: no panic escaping an API call, no deadlock (30 s watchdog), Stop within grace, no sink invocation beginning after Stop returned, CEP flush before return, no engine-started goroutine left 3 s after Stop",
          "freedom from data races on memory is not a TLA+-level property: it is decided by the Go race detector on the replayed free-running schedules (race-enabled build of the driver), i.e. only for the interleavings that occurred",
          "sequence numbers are taken as the first statement of a sink and right after an API call returns"]
KINDS = ["direct", "count", "tumbling", "cep", "analytic", "sliding", "session", "global", "ptumble", "pslide", "psession", "late"]


def run(tier):
    res = vlib.Result("C18", tier)
    rng = random.Random(vlib.seed())
    quick = tier == "quick"
    scen = []
    for kind in ("direct", "analytic"):
        scen.append({"kind": kind, "strategy": "drop", "sinks": "fast", "directed": "syncstop"})
    for kind in ("direct", "count", "analytic", "cep"):      # a synchronous sink blocked beyond the grace period: Stop returns all the same
        scen.append({"kind": kind, "strategy": "drop", "sinks": "fast", "directed": "stopgrace"})
    for kind in ("count", "global"):      # ... also with the window's output queue full and the window goroutine waiting for room (block strategy, no timeout)
        scen.append({"kind": kind, "strategy": "block", "sinks": "fast", "directed": "stopgrace"})
    for kind in ("direct", "analytic"):      # an EmitSync call stuck in its sink beyond the grace period
        scen.append({"kind": kind, "strategy": "drop", "sinks": "fast", "directed": "syncgrace"})
    scen.append({"kind": "cep", "strategy": "drop", "sinks": "fast", "directed": "stopgrace2"})      # the join AND the flush delivery share one grace period
    for kind in ("tumbling", "count", "session", "global", "sliding", "direct", "cep"):      # Stop right after Execute
        scen.append({"kind": kind, "strategy": "drop", "sinks": "fast", "directed": "stopatonce"})
    scen.append({"kind": "direct", "strategy": "expand", "sinks": "fast", "directed": "slowdrain"})
    for kind in ("direct", "count", "analytic"):      # two concurrent Stop calls: each one is a barrier
        for lag in (0, 1, 3, 6):
            scen.append({"kind": kind, "strategy": "expand", "sinks": "fast", "directed": "stoptwice", "ops": lag})
    for kind in ("late", "slide_idle", "hop_idle"):      # watermark far ahead of the window cursor (idle timeout over historic timestamps); hop: slide > size, rows between two windows
        scen.append({"kind": kind, "strategy": "drop", "sinks": "fast", "directed": "idlestop"})
    for kind in ("tumbling", "sliding", "hop", "session", "late"):      # ... or the source switches from historic timestamps to real time
        scen.append({"kind": kind, "strategy": "drop", "sinks": "fast", "directed": "clockjump"})
    for kind in ("boom_direct", "boom_where", "boom_count", "boom_agg", "boom_global", "boom_analytic", "boom_cep"):      # a row that makes a user function panic does not stop later rows
        scen.append({"kind": kind, "strategy": "drop", "sinks": "fast", "directed": "rowpanic"})
    for kind in KINDS:
        for strat in ("drop", "block", "expand"):
            scen.append({"kind": kind, "strategy": strat, "sinks": "fast", "directed": "afterstop"})
    # free-running: every query kind x overflow strategy x sink behaviour (the full product), several seeds in the thorough tier
    combos = [(k, st, sk) for k in KINDS for st in ("drop", "block", "expand") for sk in ("fast", "slow", "panic", "reentrant")
              if not (st == "block" and sk == "reentrant")]   # a sink that re-enters Emit under the blocking strategy waits on the goroutine that is running it (assumption)
    for rep in range(1 if quick else 5):
        for kind, strat, sinks in combos:
            scen.append({"kind": kind, "strategy": strat, "sinks": sinks,
                         "workers": rng.choice([4, 6, 8]), "ops": rng.choice([100, 200] if quick else [300, 1000]), "seed": rng.randrange(1 << 30)})
    seqfam.run_scenarios(res, scen, "TraceLifecycle", spec_dir=PIPE, tag="life", sub="life", timeout=3000, procs=8, crash_is_violation=True)   # one scenario at a time per process (goroutine accounting); they mostly wait (settling, grace)
    # the same free-running product once more with a race-enabled build of the driver: the Go race detector is the oracle for
    # "never race on memory" on the schedules that are replayed (TLC cannot decide a memory-model property)
    rscen = [dict(sc, ops=min(sc.get("ops", 100), 150)) for sc in scen if not sc.get("directed")]
    if quick:
        rscen = rscen[::2]
    seqfam.run_scenarios(res, rscen, "TraceLifecycle", spec_dir=PIPE, tag="life-race", sub="life", timeout=3000, procs=8, race=True, crash_is_violation=True)
    # the call protocol of one instance (spec/pipe/ApiProtocol.tla): EVERY sequence of public API calls up to the stated length, for three
    # query kinds, enumerated by TLC and replayed on a real instance; TraceApi re-runs the machine over the recorded outcomes
    api = []
    L = 4 if quick else 5
    for kind in ("direct", "agg", "cep"):
        cfg = 'SPECIFICATION Spec\nCONSTANTS Kind = "%s" MaxLen = %d Emit = TRUE\nINVARIANTS TypeOK LostSinksStayLost EmitScenario\nPROPERTIES StoppedIsFinal NothingAfterStop\nCHECK_DEADLOCK FALSE\n' % (kind, L)
        r = vlib.tlc(PIPE, "ApiProtocol", cfg, workers=1, timeout=1500)
        if not r["ok"]:
            raise vlib.Inconclusive("ApiProtocol failed:\n" + r["out"][-2000:])
        res.add_model("ApiProtocol", r, {"Kind": kind, "MaxLen": L})
        seqs = [json.loads(x[1]) for x in vlib.prints(r["out"], "SCEN")]
        cap = 4000 if quick else 40000
        if len(seqs) > cap:
            seqs = rng.sample(seqs, cap)
        api += [{"kind": kind, "calls": q} for q in seqs]
    seqfam.run_scenarios(res, api, "TraceApi", spec_dir=PIPE, tag="api", sub="api", timeout=3000)
    res.cov["api_call_sequences"] = len(api)
    res.cov["exhaustive"] = False
    res.cov["distinct_nontrivial"] = len({json.dumps(s, sort_keys=True) for s in scen}) + len(api)
    res.cov["rule"] = ("directed schedules from the TLA+ Lifecycle model (an EmitSync inside its first synchronous sink while Stop runs to completion; Emit/EmitSync/GetStats/TriggerWindow/second Stop after Stop returned) for every query kind x strategy, "
                       "plus seeded free-running runs of 4-8 goroutines issuing random API calls (Emit, EmitSync, GetStats, TriggerWindow, AddSink, Stop) against sinks that are fast / slow / panicking / re-entrant; distinct = distinct scenario parameters")
    res.assumptions = ASSUME
    for nrows, cep in ([(2, "TRUE")] if quick else [(2, "TRUE"), (3, "FALSE")]):
        cfg = "SPECIFICATION Spec\nCONSTANTS NRows = %d PoolCap = 1 NWorkers = 2 SyncCalls = 1 TrackSync = TRUE Cep = %s StopWaits = TRUE\nINVARIANTS NoSinkAfterStopReturned StopIdempotent FlushBeforeReturn\nPROPERTIES StopReturns AllExit\nCHECK_DEADLOCK FALSE\n" % (nrows, cep)
        seqfam.model(res, PIPE, "Lifecycle", cfg, "Lifecycle", {"NRows": nrows, "PoolCap": 1, "NWorkers": 2, "SyncCalls": 1, "TrackSync": True, "Cep": cep}, timeout=1500)
    return res.finish()


if __name__ == "__main__":
    vlib.main(run)
