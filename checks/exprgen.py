"""Random / enumerated scalar-expression ASTs with their SQL rendering (used by C05, C06, C13).
The AST (JSON) goes on the trace's reset line and is evaluated by lib/Expr.tla; the SQL text goes to the engine."""
import random

NUMCOLS = ["x", "y"]
PREC = {"or": 1, "and": 2, "not": 3, "cmp": 4, "like": 4, "isnull": 4, "+": 5, "-": 5, "*": 6, "/": 6, "neg": 7, "atom": 9}


def col(c): return {"t": "col", "c": c}
def num(n, d=1): return {"t": "num", "n": n, "d": d}
def strlit(s): return {"t": "str", "cs": list(s)}
def par(a): return {"t": "par", "a": a}


def prec(e):
    t = e["t"]
    if t == "bin": return PREC[e["op"]]
    if t in ("cmp", "like", "isnull", "and", "or", "not", "neg"): return PREC[t]
    return PREC["atom"]


def sql(e):
    t = e["t"]
    if t == "col": return e["c"]
    if t == "path": return ".".join(e["p"])
    if t == "num":
        return str(e["n"]) if e["d"] == 1 else repr(e["n"] / e["d"])
    if t == "str": return "'" + "".join(e["cs"]) + "'"
    if t == "par": return "(" + sql(e["a"]) + ")"
    if t == "neg": return "-" + wrap(e["a"], PREC["neg"])
    if t == "bin":
        p = PREC[e["op"]]
        rb = "(" + sql(e["b"]) + ")" if e["b"]["t"] == "neg" else wrap(e["b"], p + 1)   # "a + -b" is written "a + (-b)" (see KNOWN_FINDINGS UnaryMinusAfterOperator)
        return wrap(e["a"], p) + " " + e["op"] + " " + rb      # left associative
    if t == "cmp": return wrap(e["a"], 5) + " " + e["op"] + " " + wrap(e["b"], 5)
    if t == "and": return wrap(e["a"], 2) + " AND " + wrap(e["b"], 3)
    if t == "or": return wrap(e["a"], 1) + " OR " + wrap(e["b"], 2)
    if t == "not": return "NOT (" + sql(e["a"]) + ")"
    if t == "isnull": return wrap(e["a"], 5) + (" IS NOT NULL" if e["neg"] else " IS NULL")
    if t == "like": return wrap(e["a"], 5) + (" NOT LIKE '" if e["neg"] else " LIKE '") + "".join(e["pat"]) + "'"
    if t == "case":
        s = "CASE"
        for w in e["whens"]:
            s += " WHEN " + sql(w["c"]) + " THEN " + sql(w["r"])
        if "else" in e: s += " ELSE " + sql(e["else"])
        return s + " END"
    if t == "scase":
        s = "CASE " + sql(e["a"])
        for w in e["whens"]:
            s += " WHEN " + sql(w["c"]) + " THEN " + sql(w["r"])
        if "else" in e: s += " ELSE " + sql(e["else"])
        return s + " END"
    if t == "fn": return e["f"] + "(" + ", ".join(sql(a) for a in e["args"]) + ")"
    raise ValueError(t)


def wrap(e, p):
    return "(" + sql(e) + ")" if prec(e) < p else sql(e)


class Gen:
    """feature flags (f): which constructs may be generated.
       nulls: NULL / missing numeric and string inputs      nots: NOT (...)            likes: LIKE
       fns: scalar functions                                cases: CASE inside expressions (not only top level)
       isnull_sel: IS [NOT] NULL outside WHERE              negpath: unary minus on a nested path
       neq: the != operator                                 ors: OR                     strs: string comparisons"""
    DEFAULT = dict(nulls=True, nots=True, likes=False, fns=True, cases=True, isnull_sel=True, negpath=True, neq=True, ors=True, strs=True, paths=True, fn_in_case=True, negs=True, eqcols=True, plus=True, explicit_null=True, flat=False)

    def __init__(self, rng, **f):
        self.r = rng
        self.f = dict(Gen.DEFAULT)
        self.f.update(f)
        self.in_where = False

    def numatom(self, allow_path=True):
        r = self.r.random()
        if r < 0.45: return col(self.r.choice(NUMCOLS))
        if r < 0.55 and self.f["paths"] and allow_path: return {"t": "path", "p": ["o", "f"]}
        if r < 0.9: return num(self.r.choice([0, 1, 2, 3, 5]))
        return num(5, 2)

    def numexpr(self, d, incase=False):
        if d <= 0 or self.r.random() < 0.25: return self.numatom()
        r = self.r.random()
        if r < 0.6:
            op = self.r.choice(["+", "-", "*", "/", "+", "*"] if self.f["plus"] else ["-", "*", "/", "*", "-"])
            a = self.numexpr(d - 1, incase)
            b = num(self.r.choice([2, 4, 5])) if op == "/" else self.numexpr(d - 1, incase)
            e = {"t": "bin", "op": op, "a": a, "b": b}
            return par(e) if self.r.random() < 0.2 else e
        if r < 0.7 and self.f["negs"]: return {"t": "neg", "a": self.numatom(self.f["negpath"])}
        if r < 0.85 and self.f["fns"] and (not incase or self.f["fn_in_case"]):
            return {"t": "fn", "f": self.r.choice(["abs", "floor", "ceil"]), "args": [self.numexpr(d - 1, incase)]}
        if self.f["cases"]:
            return self.case(d - 1)
        return self.numatom()

    def case(self, d):
        simple = not self.f["cases"]
        e = {"t": "case", "whens": [{"c": self.pred(0 if simple else d), "r": (self.numatom() if simple else self.numexpr(d, True))} for _ in range(self.r.choice([1, 2]))]}
        if self.r.random() < 0.6: e["else"] = self.numatom()
        return e

    def strexpr(self, d):
        r = self.r.random()
        if d <= 0 or r < 0.5: return col("s") if self.r.random() < 0.7 else strlit(self.r.choice(["ab", "a", "xz"]))
        if r < 0.8 and self.f["fns"]: return {"t": "fn", "f": self.r.choice(["upper", "lower"]), "args": [self.strexpr(d - 1)]}
        if self.f["fns"]: return {"t": "fn", "f": "concat", "args": [self.strexpr(d - 1), strlit(self.r.choice(["z", "ab", "Z", "AB", "aB"]))]}
        return col("s")

    def cmpops(self):
        ops = [">", ">=", "<", "<=", "="]
        return ops + ["!="] if self.f["neq"] else ops

    def pred(self, d):
        r = self.r.random()
        if d <= 0 or r < 0.45:
            k = self.r.random()
            if k < 0.6 or not self.f["strs"]:
                op = self.r.choice(self.cmpops())
                b = self.numexpr(0)
                if op == "=" and not self.f["eqcols"]:
                    b = num(self.r.choice([0, 1, 2, 3, 5]))
                return {"t": "cmp", "op": op, "a": self.numexpr(max(d - 1, 0)), "b": b}
            if k < 0.75:
                return {"t": "cmp", "op": self.r.choice(["=", "!="] if self.f["neq"] else ["="]), "a": self.strexpr(max(d - 1, 0)), "b": strlit(self.r.choice(["ab", "AB", "a", "abz"]))}
            if (k < 0.9 or not self.f["likes"]) and (self.in_where or self.f["isnull_sel"]):
                return {"t": "isnull", "a": col(self.r.choice(["x", "s", "n", "y"])), "neg": self.r.random() < 0.5}
            if self.f["likes"]:
                return {"t": "like", "a": col("s"), "pat": list(self.r.choice(["a%", "%b", "a_", "%", "_", "ab", "%a%"])), "neg": False}
            return {"t": "cmp", "op": "<", "a": self.numatom(), "b": self.numatom()}
        if r < 0.7 or not self.f["ors"]: return {"t": "and", "a": self.pred(d - 1), "b": self.pred(d - 1)}
        if r < 0.9: return {"t": "or", "a": self.pred(d - 1), "b": self.pred(d - 1)}
        if self.f["nots"]: return {"t": "not", "a": self.pred(d - 1)}
        return par(self.pred(d - 1))

    def flatchain(self, n):
        """col OP literal comparisons joined by AND / OR without parentheses (AND binds tighter): the fast-path shape"""
        def atom():
            if self.r.random() < 0.8:
                return {"t": "cmp", "op": self.r.choice(self.cmpops()), "a": col(self.r.choice(NUMCOLS)), "b": num(self.r.choice([0, 1, 2, 3, 5]))}
            return {"t": "cmp", "op": self.r.choice(["=", "!="] if self.f["neq"] else ["="]), "a": col("s"), "b": strlit(self.r.choice(["ab", "a", "xz"]))}
        terms = [atom() for _ in range(n)]
        ops = [self.r.choice(["and", "or"]) for _ in range(n - 1)]
        # precedence climbing: group AND runs first
        groups, cur = [], terms[0]
        for t, o in zip(terms[1:], ops):
            if o == "and":
                cur = {"t": "and", "a": cur, "b": t}
            else:
                groups.append(cur); cur = t
        groups.append(cur)
        e = groups[0]
        for g in groups[1:]:
            e = {"t": "or", "a": e, "b": g}
        return e

    def row(self, i):
        r = self.r
        nulls = self.f["nulls"]
        row = {"id": i}
        def numv():
            k = r.random()
            if k < 0.4: return r.choice([-1, 0, 1, 2, 3, 5])
            if k < 0.7: return {"$f": r.choice([2.5, 2.0, -1.0, 0.5, 3.0])}
            if k < 0.85: return (None if self.f["explicit_null"] else "__missing__") if nulls else 1
            return "__missing__" if nulls else 2
        for c in NUMCOLS:
            v = numv()
            if v != "__missing__": row[c] = v
        k = r.random()
        if k < 0.7 or not nulls: row["s"] = r.choice(["ab", "a", "xz", "AB", "", "abz", "b"])
        elif k < 0.85: row["s"] = None
        if r.random() < 0.5: row["n"] = None
        k = r.random()
        if k < 0.6 or not nulls: row["o"] = {"f": r.choice([1, 4, {"$f": 2.5}])}
        elif k < 0.8: row["o"] = {"g": 1}
        return row
