"""Random / enumerated scalar-expression ASTs with their SQL rendering (used by C05, C06, C13).
The AST (JSON) goes on the trace's reset line and is evaluated by lib/Expr.tla; the SQL text goes to the engine."""
import random

NUMCOLS = ["x", "y"]
PREC = {"or": 1, "and": 2, "not": 3, "cmp": 4, "like": 4, "isnull": 4, "+": 5, "-": 5, "*": 6, "/": 6, "neg": 7, "atom": 9}


def col(c): return {"t": "col", "c": c}
def num(n, d=1): return {"t": "num", "n": n, "d": d}
def strlit(s, dq=False):
    e = {"t": "str", "cs": list(s)}
    if dq: e["dq"] = 1          # written in double quotes (the text may then hold single quotes)
    return e
def par(a): return {"t": "par", "a": a}


def prec(e):
    t = e["t"]
    if t == "bin": return PREC[e["op"]]
    if t in ("cmp", "like", "isnull", "and", "or", "not", "neg"): return PREC[t]
    return PREC["atom"]


def sql(e):
    t = e["t"]
    if t == "col": return e["c"]
    if t == "path":
        if e.get("br"):      # bracket access: base['key with any text']
            return e["p"][0] + "".join("['%s']" % k for k in e["p"][1:])
        return ".".join(e["p"])
    if t == "path2":     # general nested access: col.name['key']["key"][i][-i]
        return e["c"] + "".join("." + pt["n"] if pt["k"] == "f" else "[%d]" % pt["i"] if pt["k"] == "i" else ('["%s"]' if pt.get("dq") else "['%s']") % pt["n"] for pt in e["parts"])
    if t == "num":
        return str(e["n"]) if e["d"] == 1 else repr(e["n"] / e["d"])
    if t == "str": return ('"' + "".join(e["cs"]) + '"') if e.get("dq") else ("'" + "".join(e["cs"]) + "'")
    if t == "par": return "(" + sql(e["a"]) + ")"
    if t == "neg": return "-" + wrap(e["a"], PREC["neg"])
    if t == "bin":
        p = PREC[e["op"]]
        rb = "(" + sql(e["b"]) + ")" if e["b"]["t"] == "neg" else wrap(e["b"], p + 1)   # "a + -b" is written "a + (-b)" (see KNOWN_FINDINGS UnaryMinusAfterOperator)
        return wrap(e["a"], p) + " " + e["op"] + " " + rb      # left associative
    if t == "cmp": return wrap(e["a"], 5) + " " + e["op"] + " " + wrap(e["b"], 5)
    if t == "and": return wrap(e["a"], 2) + " AND " + wrap(e["b"], 3)
    if t == "or": return wrap(e["a"], 1) + " OR " + wrap(e["b"], 2)
    if t == "not": return "NOT (" + sql(e["a"]) + ")"
    if t == "isnull": return wrap(e["a"], 5) + (" IS NOT NULL" if e["neg"] else " IS NULL")
    if t == "like": return wrap(e["a"], 5) + (" NOT LIKE '" if e["neg"] else " LIKE '") + "".join(e["pat"]) + "'"
    if t == "case":
        s = "CASE"
        for w in e["whens"]:
            s += " WHEN " + sql(w["c"]) + " THEN " + sql(w["r"])
        if "else" in e: s += " ELSE " + sql(e["else"])
        return s + " END"
    if t == "scase":
        s = "CASE " + sql(e["a"])
        for w in e["whens"]:
            s += " WHEN " + sql(w["c"]) + " THEN " + sql(w["r"])
        if "else" in e: s += " ELSE " + sql(e["else"])
        return s + " END"
    if t == "fn": return e["f"] + "(" + ", ".join(sql(a) for a in e["args"]) + ")"
    raise ValueError(t)


def wrap(e, p):
    return "(" + sql(e) + ")" if prec(e) < p else sql(e)


class Gen:
    """feature flags (f): which constructs may be generated.
       nulls: NULL / missing numeric and string inputs      nots: NOT (...)            likes: LIKE
       fns: scalar functions                                cases: CASE inside expressions (not only top level)
       isnull_sel: IS [NOT] NULL outside WHERE              negpath: unary minus on a nested path
       neq: the != operator                                 ors: OR                     strs: string comparisons"""
    DEFAULT = dict(nulls=True, nots=True, likes=False, fns=True, cases=True, isnull_sel=True, negpath=True, neq=True, ors=True, strs=True, paths=True, fn_in_case=True, negs=True, eqcols=True, plus=True, explicit_null=True, flat=False, mixedkinds=False, ordonly=False)

    def __init__(self, rng, **f):
        self.r = rng
        self.f = dict(Gen.DEFAULT)
        self.f.update(f)
        self.in_where = False

    def numatom(self, allow_path=True):
        r = self.r.random()
        if r < 0.45: return col(self.r.choice(NUMCOLS))
        if r < 0.55 and self.f["paths"] and allow_path: return {"t": "path", "p": ["o", "f"]}
        if r < 0.9: return num(self.r.choice([0, 1, 2, 3, 5]))
        return num(5, 2)

    def numexpr(self, d, incase=False):
        if d <= 0 or self.r.random() < 0.25: return self.numatom()
        r = self.r.random()
        if r < 0.6:
            op = self.r.choice(["+", "-", "*", "/", "+", "*"] if self.f["plus"] else ["-", "*", "/", "*", "-"])
            a = self.numexpr(d - 1, incase)
            b = num(self.r.choice([2, 4, 5])) if op == "/" else self.numexpr(d - 1, incase)
            e = {"t": "bin", "op": op, "a": a, "b": b}
            return par(e) if self.r.random() < 0.2 else e
        if r < 0.7 and self.f["negs"]: return {"t": "neg", "a": self.numatom(self.f["negpath"])}
        if r < 0.85 and self.f["fns"] and (not incase or self.f["fn_in_case"]):
            return {"t": "fn", "f": self.r.choice(["abs", "floor", "ceil"]), "args": [self.numexpr(d - 1, incase)]}
        if self.f["cases"]:
            return self.case(d - 1)
        return self.numatom()

    def case(self, d):
        simple = not self.f["cases"]
        e = {"t": "case", "whens": [{"c": self.pred(0 if simple else d), "r": (self.numatom() if simple else self.numexpr(d, True))} for _ in range(self.r.choice([1, 2]))]}
        if self.r.random() < 0.6: e["else"] = self.numatom()
        return e

    def strexpr(self, d):
        r = self.r.random()
        if d <= 0 or r < 0.5: return col("s") if self.r.random() < 0.7 else strlit(self.r.choice(["ab", "a", "xz"]))
        if r < 0.8 and self.f["fns"]: return {"t": "fn", "f": self.r.choice(["upper", "lower"]), "args": [self.strexpr(d - 1)]}
        if self.f["fns"]: return {"t": "fn", "f": "concat", "args": [self.strexpr(d - 1), strlit(self.r.choice(["z", "ab", "Z", "AB", "aB"]))]}
        return col("s")

    # ---- function library (profile fn_lib): calls inside each function's decided domain -----------------------
    def fn_num(self, d=1):
        """numeric-valued call"""
        r = self.r
        x = (lambda: self.fn_num(d - 1)) if d > 0 and r.random() < 0.3 else (lambda: col(r.choice(NUMCOLS)) if r.random() < 0.8 else num(r.choice([0, 1, 2, 3, 5, 7]), r.choice([1, 1, 2, 4])))
        k = r.choice(["abs", "floor", "ceil", "ceiling", "round", "round2", "sign", "power", "mod", "sqrt", "greatest", "least", "length", "indexof"])
        if k in ("abs", "floor", "ceil", "ceiling", "round", "sign"): return {"t": "fn", "f": k, "args": [x()]}
        if k == "round2": return {"t": "fn", "f": "round", "args": [x(), num(r.choice([0, 1, 2]))]}
        if k == "power":   # base is an atom: nested powers of quarters overflow TLC's 32-bit integers
            return {"t": "fn", "f": "power", "args": [col(r.choice(NUMCOLS)) if r.random() < 0.8 else num(r.choice([0, 2, 3, 5]), r.choice([1, 2])), num(r.choice([0, 1, 2, 3]))]}
        if k == "mod": return {"t": "fn", "f": "mod", "args": [x(), num(r.choice([2, 3, 5]))]}
        if k == "sqrt": return {"t": "fn", "f": "sqrt", "args": [r.choice([num(4), num(9), num(0), num(1, 4), num(25, 4), col("q")])]}
        if k in ("greatest", "least"): return {"t": "fn", "f": k, "args": [x() for _ in range(r.choice([2, 2, 3]))]}
        if k == "length": return {"t": "fn", "f": "length", "args": [self.fn_str(d - 1)]}
        return {"t": "fn", "f": "indexof", "args": [self.fn_str(d - 1), strlit(r.choice(["b", "ab", "a", " ", "zz"]))]}

    def fn_str(self, d=1):
        """string-valued call (or a string atom)"""
        r = self.r
        if d <= 0 or r.random() < 0.25: return col("s") if r.random() < 0.75 else strlit(r.choice(["ab", " a ", "xz", "abab"]))
        x = lambda: self.fn_str(d - 1)
        k = r.choice(["upper", "lower", "concat", "concat3", "trim", "ltrim", "rtrim", "substring2", "substring3", "replace", "lpad", "rpad", "coalesce"])
        if k in ("upper", "lower", "trim", "ltrim", "rtrim"): return {"t": "fn", "f": k, "args": [x()]}
        if k == "concat": return {"t": "fn", "f": "concat", "args": [x(), strlit(r.choice(["z", " ", "AB"]))]}
        if k == "concat3": return {"t": "fn", "f": "concat", "args": [strlit(r.choice(["<", "a"])), x(), strlit(r.choice([">", " "]))]}
        if k == "substring2": return {"t": "fn", "f": "substring", "args": [col("s"), num(r.choice([0, 1, 2]))]}
        if k == "substring3":
            st = r.choice([0, 1]); return {"t": "fn", "f": "substring", "args": [col("s"), num(st), num(r.choice([0, 1, 2 - st]))]}
        if k == "replace" and r.random() < 0.35:
            # literals holding the OTHER quote character, commas and parentheses: argument splitting must not be misled by them
            return {"t": "fn", "f": "replace", "args": [x(), r.choice([strlit('"'), strlit("a"), strlit("'", True), strlit('b"'), strlit(","), strlit("(")]),
                                                         r.choice([strlit(""), strlit('q"r,s'), strlit("it's, ok)", True), strlit('"("'), strlit("x,y")])]}
        if k == "replace": return {"t": "fn", "f": "replace", "args": [x(), strlit(r.choice(["a", "ab", " ", "b"])), strlit(r.choice(["", "zz", "a", "x"]))]}
        if k in ("lpad", "rpad"): return {"t": "fn", "f": k, "args": [col("s"), num(r.choice([5, 6, 8])), r.choice([strlit("*"), strlit("0"), strlit(" "), strlit('"'), strlit("'", True), strlit(",")])]}
        return {"t": "fn", "f": r.choice(["coalesce", "if_null"]), "args": [col(r.choice(["s", "n"])), r.choice([strlit("dflt"), strlit("dflt"), strlit('a "quoted", text'), strlit("it's empty, sorry", True), strlit("f(x), y")])]}

    def fn_bool(self):
        r = self.r
        k = r.choice(["startswith", "endswith", "is_null", "is_not_null", "is_numeric", "is_string", "is_bool"])
        if k in ("startswith", "endswith"): return {"t": "fn", "f": k, "args": [self.fn_str(1), strlit(r.choice(["a", "ab", " ", "b", "z", ""]))]}
        return {"t": "fn", "f": k, "args": [col(r.choice(["x", "s", "n", "nosuch", "bb"]))]}

    def fn_misc(self):
        r = self.r
        k = r.choice(["null_if", "coalesce_num", "null_if_s"])
        if k == "null_if": return {"t": "fn", "f": "null_if", "args": [col(r.choice(NUMCOLS)), num(r.choice([0, 1, 2, 3]))]}
        if k == "null_if_s": return {"t": "fn", "f": "null_if", "args": [col("s"), strlit(r.choice(["ab", "a b", "abab"]))]}
        return {"t": "fn", "f": "coalesce", "args": [col("n"), col(r.choice(NUMCOLS)), num(7)]}

    def fn_pred(self):
        r = self.r
        k = r.random()
        if k < 0.45: return {"t": "cmp", "op": r.choice(self.cmpops()), "a": self.fn_num(1), "b": num(r.choice([0, 1, 2, 3, 4, 9]), r.choice([1, 1, 2]))}
        if k < 0.7: return {"t": "cmp", "op": "=", "a": self.fn_str(2), "b": strlit(r.choice(["ab", "AB", "a b", "abab", "ab   ", "   ab"]))}
        if k < 0.85: return self.fn_bool()
        return {"t": r.choice(["and", "or"]), "a": self.fn_pred(), "b": self.fn_pred()}

    def fn_row(self, i):
        r = self.r
        row = {"id": i, "q": r.choice([0, 1, 4, 9, 16, {"$f": 2.25}, {"$f": 6.25}, {"$f": 0.25}]), "bb": r.choice([True, False])}
        for c in NUMCOLS:
            row[c] = r.choice([-3, -1, 0, 1, 2, 3, 5, 7, {"$f": 2.5}, {"$f": -2.5}, {"$f": 0.5}, {"$f": 2.25}, {"$f": -0.75}, {"$f": 3.0}])
        row["s"] = r.choice(["ab", " ab", "ab ", " a b ", "abab", "ba", "xz", "b", "  ", "aab", "abz", 'a"b', "a,b", "b'a"])
        if r.random() < 0.5: row["n"] = None
        return row

    def cmpops(self):
        if self.f["ordonly"]: return [">", ">=", "<", "<="]
        ops = [">", ">=", "<", "<=", "="]
        return ops + ["!="] if self.f["neq"] else ops

    def pred(self, d):
        r = self.r.random()
        if d <= 0 or r < 0.45:
            k = self.r.random()
            if k < 0.6 or not self.f["strs"]:
                op = self.r.choice(self.cmpops())
                b = self.numexpr(0)
                if op == "=" and not self.f["eqcols"]:
                    b = num(self.r.choice([0, 1, 2, 3, 5]))
                return {"t": "cmp", "op": op, "a": self.numexpr(max(d - 1, 0)), "b": b}
            if k < 0.75:
                return {"t": "cmp", "op": self.r.choice(["=", "!="] if self.f["neq"] else ["="]), "a": self.strexpr(max(d - 1, 0)), "b": strlit(self.r.choice(["ab", "AB", "a", "abz"] + (["lag(x)", "x IS NULL", "a CASE b"] if self.in_where else [])))}      # operator / call text inside a literal (WHERE only: a CASE holding parentheses is the recorded family CaseInsideExpressionIsNull)
            if (k < 0.9 or not self.f["likes"]) and (self.in_where or self.f["isnull_sel"]):
                return {"t": "isnull", "a": col(self.r.choice(["x", "s", "n", "y"])), "neg": self.r.random() < 0.5}
            if self.f["likes"]:
                return {"t": "like", "a": col("s"), "pat": list(self.r.choice(["a%", "%b", "a_", "%", "_", "ab", "%a%"])), "neg": False}
            return {"t": "cmp", "op": "<", "a": self.numatom(), "b": self.numatom()}
        if r < 0.7 or not self.f["ors"]: return {"t": "and", "a": self.pred(d - 1), "b": self.pred(d - 1)}
        if r < 0.9: return {"t": "or", "a": self.pred(d - 1), "b": self.pred(d - 1)}
        if self.f["nots"]: return {"t": "not", "a": self.pred(d - 1)}
        return par(self.pred(d - 1))

    def flatchain(self, n):
        """col OP literal comparisons joined by AND / OR without parentheses (AND binds tighter): the fast-path shape"""
        def atom():
            if self.r.random() < 0.8:
                return {"t": "cmp", "op": self.r.choice(self.cmpops()), "a": col(self.r.choice(NUMCOLS)), "b": num(self.r.choice([0, 1, 2, 3, 5]))}
            return {"t": "cmp", "op": self.r.choice(["=", "!="] if self.f["neq"] else ["="]), "a": col("s"), "b": strlit(self.r.choice(["ab", "a", "xz"]))}
        terms = [atom() for _ in range(n)]
        ops = [self.r.choice(["and", "or"]) for _ in range(n - 1)]
        # precedence climbing: group AND runs first
        groups, cur = [], terms[0]
        for t, o in zip(terms[1:], ops):
            if o == "and":
                cur = {"t": "and", "a": cur, "b": t}
            else:
                groups.append(cur); cur = t
        groups.append(cur)
        e = groups[0]
        for g in groups[1:]:
            e = {"t": "or", "a": e, "b": g}
        return e

    def row(self, i):
        r = self.r
        nulls = self.f["nulls"]
        row = {"id": i}
        def numv():
            k = r.random()
            if k < 0.4: return r.choice([-1, 0, 1, 2, 3, 5])
            if k < 0.7: return {"$f": r.choice([2.5, 2.0, -1.0, 0.5, 3.0])}
            if k < 0.85: return (None if self.f["explicit_null"] else "__missing__") if nulls else 1
            return "__missing__" if nulls else 2
        for c in NUMCOLS:
            v = numv()
            if self.f["mixedkinds"] and r.random() < 0.35:
                v = r.choice(["25", "5", "0", "2.5", True, False, "abc"])     # a numeric-looking string / boolean where a number is compared
            if v != "__missing__": row[c] = v
        k = r.random()
        if k < 0.7 or not nulls: row["s"] = r.choice(["ab", "a", "xz", "AB", "", "abz", "b", "lag(x)", "x IS NULL"])
        elif k < 0.85: row["s"] = None
        if r.random() < 0.5: row["n"] = None
        k = r.random()
        if k < 0.6 or not nulls: row["o"] = {"f": r.choice([1, 4, {"$f": 2.5}])}
        elif k < 0.8: row["o"] = {"g": 1}
        return row
