import json, os, random, sys
sys.path.insert(0, os.path.dirname(os.path.abspath(__file__)))
import seqfam, vlib

PIPE = os.path.join(vlib.VERIF, "spec", "pipe")
ASSUME = ["'processed' is observed as the ids reaching a synchronous sink of SELECT id, p FROM stream", "quiescence: all Emit calls returned, buffer empty, processed + input_dropped_count >= emitted (10 s bound)",
          "block strategy without timeout", "free-running schedules are perturbed by seeded yields/sleeps at the hook points; the directed schedules force the TLC counterexample family through gates"]


def run(tier):
    res = vlib.Result("C19", tier)
    rng = random.Random(vlib.seed())
    quick = tier == "quick"
    scen = []
    # directed: consumer holds the old buffer reference while the expander has migrated kmig rows (TLC counterexample family of Ingest.tla)
    for data in (2, 3, 4):
        for kmig in range(1, data + 1):
            scen.append({"strategy": "expand", "data": data, "max": 16, "mininc": 2, "producers": 1, "rows": data + 2, "directed": True, "kmig": kmig})
    # directed: another producer adds a row between the expander's usage sample and its write lock (buffer >= 10 so that "not full" is still above the 90 % threshold)
    for data in (10, 12, 20):
        scen.append({"strategy": "expand", "data": data, "max": 64, "mininc": 4, "producers": 2, "rows": 0, "samplerace": True})
    # directed: ONE producer expands the buffer several times while the consumer is busy in the sink: strict emission order afterwards
    for data, rows in ((2, 20), (4, 30), (4, 60), (8, 50)):
        scen.append({"strategy": "expand", "data": data, "max": 128, "mininc": 2, "producers": 1, "rows": rows, "stalled": True})
    # directed: the buffer is expanded (its rows migrated) while the consumer is in the middle of draining it; the consumer reads the
    # buffer reference once per row, so at most one row per installed buffer is taken early (the recorded deviation's exact shape)
    for data, rows in ((512, 1500), (1024, 3000)) + (() if quick else ((4096, 9000), (2048, 6000), (8192, 14000))):
        for rep in range(3 if quick else 6):
            scen.append({"strategy": "expand", "data": data, "max": 1 << 20, "mininc": 2, "producers": 1, "rows": rows, "drainrace": True, "rep": rep})
    # ExpansionConfig.ExpansionTimeout set to a very small / a large value: every buffered row is still processed or counted as dropped
    for data, rows, tmo in ((16, 400, 1), (64, 2000, 1), (1024, 3000, 1000), (16, 400, 3600 * 10**9)):
        scen.append({"strategy": "expand", "data": data, "max": 1 << 16, "mininc": 2, "producers": 1, "rows": rows, "stalled": True, "exptimeout_ns": tmo})
    # free-running
    for i in range(40 if quick else 400):
        strat = ["expand", "drop", "block"][i % 3]
        scen.append({"strategy": strat, "data": rng.choice([1, 2, 4, 16]), "max": rng.choice([32, 40, 64]), "mininc": rng.choice([1, 2, 4]), "producers": rng.choice([1, 2, 4, 8]),
                     "rows": rng.choice([50, 200] if quick else [200, 1000, 2500]), "slowsink": rng.choice([0, 0, 20, 100]), "seed": rng.randrange(1 << 30), "perturb": True})
    # rows without attributes (empty / nil maps) among the others: they are rows - processed or counted as dropped like any other
    for i in range(9 if quick else 300):
        scen.append({"strategy": ["block", "expand", "drop"][i % 3], "data": rng.choice([2, 4, 16]), "max": 64, "mininc": 2, "producers": rng.choice([1, 2, 4]),
                     "rows": rng.choice([60, 200]), "slowsink": rng.choice([0, 20]), "seed": rng.randrange(1 << 30), "perturb": True, "empties": rng.choice([3, 5, 8])})
    # expand strategy with the buffer already AT its ceiling (nothing left to expand): rows that do not fit are dropped and counted, the
    # others are processed in the producer's emission order
    for i in range(6 if quick else 200):
        cap = rng.choice([4, 8, 16])
        scen.append({"strategy": "expand", "data": cap, "max": cap, "mininc": 2, "producers": rng.choice([1, 1, 2]), "rows": rng.choice([1000, 2000]), "slowsink": rng.choice([20, 30]),
                     "seed": rng.randrange(1 << 30), "perturb": False})
    # the lossless configuration under a consumer stuck for SECONDS: block strategy without a timeout, a tiny buffer, the sink asleep for 6.5 s on
    # its first result - the producers wait as long as it takes, nothing is dropped (run side by side: the wall time is one stall)
    for data, prods in ((1, 1), (2, 2)) if quick else ((1, 1), (2, 2), (4, 1), (1, 3)):
        scen.append({"strategy": "block", "data": data, "max": 64, "mininc": 2, "producers": prods, "rows": 6, "stall_ms": 6500, "seed": rng.randrange(1 << 30), "perturb": False})
    seqfam.run_scenarios(res, scen, "TraceIngest", spec_dir=PIPE, tag="ingest", sub="ingest")
    res.cov["exhaustive"] = False
    res.cov["distinct_nontrivial"] = len({json.dumps(s, sort_keys=True) for s in scen})
    res.cov["rule"] = ("directed replays of the TLC counterexample family (consumer holds the old buffer reference while k of n queued rows have been migrated, n = 2..4, k = 1..n) forced through the proc.ref / exp.item / exp.swap gates, "
                       "plus seeded free-running runs: producers {1,2,4,8} x buffer {1,2,4,16} x strategies {expand, drop, block} x slow/fast sink with perturbation at every hook point; distinct = distinct scenario parameters")
    res.assumptions = ASSUME
    for prods, rows, cap0, mx in ([("{1}", 3, 2, 4), ("{1, 2}", 2, 1, 3)] if quick else [("{1}", 4, 2, 6), ("{1, 2}", 2, 1, 3), ("{1, 2}", 2, 2, 4), ("{1, 2, 3}", 1, 1, 2)]):
        kd = vlib.known_devs("C19")
        invs = "NoDup CapWithinMax Conservation NoOrphan EarlyBound" + ("" if "ExpansionReordersRows" in kd else " PerProducerOrder")
        cfg = "SPECIFICATION Spec\nCONSTANTS Producers = %s RowsPer = %d Cap0 = %d MaxCap = %d Inc = 1 Emit = FALSE\nINVARIANTS %s\nVIEW View\nCHECK_DEADLOCK FALSE\n" % (prods, rows, cap0, mx, invs)
        seqfam.model(res, PIPE, "Ingest", cfg, "Ingest", {"Producers": prods, "RowsPer": rows, "Cap0": cap0, "MaxCap": mx}, timeout=1200)
    # the counting clauses for EVERY number of rows: Ingest.tla refines the counter machine IngestCount.tla (TLC, small constants), whose
    # conservation / ceiling invariant is inductive - discharged by Apalache for all counter values and every ceiling (base and step)
    for prods, rows, cap0, mx in ([("{1, 2}", 3, 1, 3)] if quick else [("{1, 2}", 3, 1, 3), ("{1, 2, 3}", 2, 1, 3), ("{1}", 5, 2, 5)]):
        cfg = "SPECIFICATION Spec\nCONSTANTS Producers = %s RowsPer = %d Cap0 = %d MaxCap = %d Inc = 1 Emit = FALSE\nINVARIANTS AbsInv\nPROPERTY Refines\nVIEW View\nCHECK_DEADLOCK FALSE\n" % (prods, rows, cap0, mx)
        seqfam.model(res, PIPE, "IngestRefines", cfg, "IngestRefines", {"Producers": prods, "RowsPer": rows, "Cap0": cap0, "MaxCap": mx, "property": "Ingest refines IngestCount"}, timeout=1200)
    res.cov["unbounded_inductive_invariant"] = apalache_indinv(res)
    return res.finish()


def apalache_indinv(res):
    """IngestCount!IndInv is inductive (Init => IndInv; IndInv /\ Next => IndInv') for all integers - Apalache, under a timeout. Not a
    verdict: a failure or a timeout is a note (the bounded TLC results and the trace validation stand on their own)."""
    import shutil, subprocess
    d = os.path.join(vlib.scratch(), "apalache")
    os.makedirs(d, exist_ok=True)
    shutil.copy(os.path.join(PIPE, "IngestCount.tla"), d)
    out = {}
    for name, args in (("base", ["--init=Init", "--length=0"]), ("step", ["--init=IndInit", "--length=1"])):
        try:
            p = subprocess.run(["apalache-mc", "check", "--cinit=CInit", "--inv=IndInv", "--out-dir=" + os.path.join(d, "out")] + args + ["IngestCount.tla"], cwd=d,
                               stdout=subprocess.PIPE, stderr=subprocess.STDOUT, text=True, timeout=300, env=dict(os.environ, JAVA_TOOL_OPTIONS="-Djava.io.tmpdir=" + d))
            out[name] = "NoError" if "The outcome is: NoError" in p.stdout else "Error" if "The outcome is: Error" in p.stdout else "failed: " + p.stdout[-200:].replace("\n", " ")
        except Exception as e:
            out[name] = "not run: %s" % type(e).__name__
    if out.get("base") == "NoError" and out.get("step") == "NoError":
        res.notes.append("Apalache: IngestCount!IndInv (conservation, capacity ceiling, rows fit during an expansion) is an inductive invariant for all counter values and every ceiling (base and step NoError); TLC: Ingest.tla refines IngestCount.tla")
    else:
        res.notes.append("Apalache did not discharge IngestCount!IndInv in this run (%s) - no verdict depends on it" % out)
    return out


if __name__ == "__main__":
    vlib.main(run)
