import itertools, json, os, random, sys
sys.path.insert(0, os.path.dirname(os.path.abspath(__file__)))
import seqfam, vlib

PIPE = os.path.join(vlib.VERIF, "spec", "pipe")
ASSUME = ["the caller's map is compared (deep: nested maps and slices) after the row has been fully processed (lock-step)", "rows handed to a synchronous sink are compared at delivery and at the end of the run",
          "'alone' = the same instance run by itself in the same process immediately before the interleaved run (the reference comes first, so a process-wide cache poisoned later cannot hide in it)"]


def nested_row(rng, i):
    return {"id": i, "ts": 1000 + i, "d": rng.choice(["ab", "Ab", "b"]), "g": rng.choice(["x", "y"]), "v": rng.choice([1, 2, 3, {"$f": 2.5}, None]),
            "w": rng.choice([0, 1, 2]), "k": rng.choice([1, 2]),
            "o": {"f": rng.choice([1, 4]), "deep": {"z": [1, 2, {"q": "r"}], "name": "ab"}}, "arr": [1, {"a": "b"}, [3, 4]],
            "readings": [{"t": 1, "val": rng.choice([5, 6])}, {"t": 2, "val": 7}],
            "tags": rng.choice([["a", "b", "a", "c"], ["b", "a"], ["c"], ["a", "a"]]), "tags2": rng.choice([["a", "z"], ["b"], []])}


QUERIES = [  # (name, sql, mode choices, tables)
    ("projection", "SELECT id, v, o.f AS f, upper(d) AS u, v * 2 AS dbl FROM stream WHERE w >= 0", ["emit", "sync"], None),
    ("star", "SELECT * FROM stream", ["emit", "sync"], None),
    ("analytic_select", "SELECT id, lag(v) AS pv, acc_sum(v) AS s, latest(v) AS lv FROM stream", ["emit", "sync"], None),
    ("analytic_partition", "SELECT id, lag(v) OVER (PARTITION BY g) AS pv FROM stream", ["emit", "sync"], None),
    ("analytic_where", "SELECT id, v FROM stream WHERE acc_sum(w) > 1", ["emit", "sync"], None),
    ("changed_cols", "SELECT id, changed_cols(\"c_\", true, v, w) FROM stream", ["emit", "sync"], None),
    ("fn_group_key_window", "SELECT upper(d) AS ud, count(*) AS c FROM stream GROUP BY upper(d), CountingWindow(2)", ["emit"], None),
    ("fn_group_key_tumbling", "SELECT g, lower(d) AS ld, count(*) AS c FROM stream GROUP BY g, lower(d), TumblingWindow('10s') WITH (TIMESTAMP='ts', TIMEUNIT='ms')", ["emit"], None),
    ("counting", "SELECT g, count(*) AS c, collect(id) AS ids, last_value(o) AS lo FROM stream GROUP BY g, CountingWindow(2)", ["emit"], None),
    ("tumbling", "SELECT g, sum(v) AS s, collect(arr) AS a FROM stream GROUP BY g, TumblingWindow('10s') WITH (TIMESTAMP='ts', TIMEUNIT='ms')", ["emit"], None),
    ("join", "SELECT id, m.loc AS loc FROM stream LEFT JOIN meta m ON k = m.k", ["emit", "sync"], [{"name": "meta", "rows": [{"k": 1, "loc": "L1", "extra": {"n": 1}}]}]),
    ("join_window", "SELECT m.loc AS loc, count(*) AS c FROM stream JOIN meta m ON k = m.k GROUP BY m.loc, CountingWindow(2)", ["emit"], [{"name": "meta", "rows": [{"k": 1, "loc": "L1"}, {"k": 2, "loc": "L2"}]}]),
    # post-aggregation clauses over several consecutive batches: a batch handed to a sink stays what it was when later batches are filtered / sorted / cut
    ("counting_having", "SELECT g, count(*) AS c, sum(w) AS s FROM stream GROUP BY g, CountingWindow(2) HAVING c > 1", ["emit"], None),
    ("counting_having_order", "SELECT g, count(*) AS c, max(w) AS s FROM stream GROUP BY g, CountingWindow(2) HAVING max(w) >= 0 ORDER BY s DESC LIMIT 5", ["emit"], None),
    ("counting_distinct", "SELECT DISTINCT g, count(*) AS c FROM stream GROUP BY g, CountingWindow(2)", ["emit"], None),
    # aggregate arguments that are expressions over the row (nothing computed for them may be left in the caller's map)
    ("agg_expr_counting", "SELECT g, sum(v * 2) AS s, avg(v + w) AS a, max(coalesce(v, w)) AS m FROM stream GROUP BY g, CountingWindow(2)", ["emit"], None),
    ("agg_expr_tumbling", "SELECT g, sum(v * 2) AS s, min(w - v) AS m FROM stream GROUP BY g, TumblingWindow('10s') WITH (TIMESTAMP='ts', TIMEUNIT='ms')", ["emit"], None),
    ("agg_expr_global", "SELECT g, sum(v + w) AS s FROM stream GROUP BY g, GLOBAL WINDOW TRIGGER WHEN COUNT(*) >= 2", ["emit"], None),
    ("unnest", "SELECT id, unnest(readings) AS r FROM stream", ["emit"], None),
    ("case", "SELECT id, CASE WHEN v > 1 THEN 'hi' ELSE 'lo' END AS lvl FROM stream", ["emit", "sync"], None),
    ("global", "SELECT g, count(*) AS c FROM stream GROUP BY g, GLOBAL WINDOW TRIGGER WHEN COUNT(*) >= 2", ["emit"], None),
    ("array_fns", "SELECT id, array_remove(tags, 'a') AS t1, array_distinct(tags) AS t2, array_length(arr) AS n, array_contains(tags, 'b') AS c FROM stream", ["emit", "sync"], None),
    ("array_fns2", "SELECT id, array_union(tags, tags2) AS u, array_intersect(tags, tags2) AS i, array_except(tags, tags2) AS x, array_position(tags, 'c') AS p FROM stream", ["emit", "sync"], None),
    ("string_fns_nested", "SELECT id, upper(o.deep.name) AS un, concat(d, '-', g) AS dg, replace(d, 'a', 'z') AS r, split(d, 'b') AS sp FROM stream", ["emit", "sync"], None),
    ("cep_one_row", "SELECT * FROM stream MATCH_RECOGNIZE (PARTITION BY g ORDER BY ts MEASURES COUNT(*) AS n, FIRST(id) AS f PATTERN (A{2}) DEFINE A AS w >= 0)", ["emit"], None),
    ("cep_all_rows", "SELECT * FROM stream MATCH_RECOGNIZE (PARTITION BY g ORDER BY ts MEASURES CLASSIFIER() AS cls, COUNT(*) AS n ALL ROWS PER MATCH PATTERN (A{2}) DEFINE A AS w >= 0)", ["emit"], None),
    ("cep_all_rows_nopart", "SELECT * FROM stream MATCH_RECOGNIZE (ORDER BY ts MEASURES LAST(id) AS li ALL ROWS PER MATCH PATTERN (A B) DEFINE A AS w >= 0, B AS w >= 0)", ["emit"], None),
]
PAIRS = [  # same expression text with different column types, same SQL / different data, different SQL
    ("SELECT id, x + y AS r FROM stream", "num", "SELECT id, x + y AS r FROM stream", "str"),
    ("SELECT sum(x + y) AS s, count(*) AS c FROM stream GROUP BY CountingWindow(2)", "num", "SELECT last_value(x + y) AS s, count(*) AS c FROM stream GROUP BY CountingWindow(2)", "str"),
    ("SELECT sum(x + y) AS s, count(*) AS c FROM stream GROUP BY CountingWindow(2)", "num", "SELECT sum(x + y) AS s, count(*) AS c FROM stream GROUP BY CountingWindow(2)", "str"),
    ("SELECT sum(x * 2) AS s, count(*) AS c FROM stream GROUP BY CountingWindow(2)", "num", "SELECT sum(x * 3) AS s, count(*) AS c FROM stream GROUP BY CountingWindow(2)", "num"),
    ("SELECT id, upper(x) AS u FROM stream", "str", "SELECT id, upper(x) AS u FROM stream", "num"),
    ("SELECT id FROM stream WHERE x > 1", "num", "SELECT id FROM stream WHERE x > 1", "str"),
    ("SELECT id, lag(x) AS p FROM stream", "num", "SELECT id, lag(x) AS p FROM stream", "str"),
    ("SELECT id, x * 2 AS d FROM stream WHERE y > 0", "num", "SELECT id, concat(x, y) AS d FROM stream", "str"),
    ("SELECT g, count(*) AS c FROM stream GROUP BY g, CountingWindow(2)", "num", "SELECT g, sum(x) AS c FROM stream GROUP BY g, CountingWindow(3)", "num"),
    ("SELECT id, CASE WHEN x > 1 THEN 'a' ELSE 'b' END AS c FROM stream", "num", "SELECT id, CASE WHEN x > 1 THEN 'a' ELSE 'b' END AS c FROM stream", "str"),
    ("SELECT id, x + y AS r, x - y AS q FROM stream", "num", "SELECT id, x + y AS r FROM stream", "mixed"),
    # one instance spells the parameter of a parameterised aggregate out, the other relies on its default
    ("SELECT g, percentile(x, 0.5) AS p FROM stream GROUP BY g, CountingWindow(4)", "num", "SELECT g, percentile(x) AS p FROM stream GROUP BY g, CountingWindow(4)", "num"),
    ("SELECT g, nth_value(x, 2) AS p FROM stream GROUP BY g, CountingWindow(4)", "num", "SELECT g, nth_value(x) AS p FROM stream GROUP BY g, CountingWindow(4)", "num"),

    # two MATCH_RECOGNIZE instances over the same bare column: one never matches by itself (x <= 2), the other one's conditions fail to
    # evaluate on its rows (no column y) while carrying large x
    ("SELECT * FROM stream MATCH_RECOGNIZE (ORDER BY id MEASURES COUNT(*) AS n, LAST(id) AS li PATTERN (A A) DEFINE A AS x > 2)", "lowx",
     "SELECT * FROM stream MATCH_RECOGNIZE (ORDER BY id MEASURES COUNT(*) AS n PATTERN (A A) DEFINE A AS x > 2 AND y > 0)", "bigx_noy"),
    ("SELECT * FROM stream MATCH_RECOGNIZE (PARTITION BY g ORDER BY id MEASURES COUNT(*) AS n PATTERN (A B) DEFINE A AS x > 2, B AS x <= 2)", "num",
     "SELECT * FROM stream MATCH_RECOGNIZE (PARTITION BY g ORDER BY id MEASURES COUNT(*) AS n PATTERN (A B) DEFINE A AS x > 2, B AS x / y > 1)", "bigx_noy"),
]


def prow(rng, i, kind):
    if kind == "lowx":
        return {"id": i, "g": rng.choice(["p", "q"]), "x": rng.choice([1, 2]), "y": 1}
    if kind == "bigx_noy":
        return {"id": i, "g": rng.choice(["p", "q"]), "x": rng.choice([5, 7])}
    if kind == "num":
        return {"id": i, "g": rng.choice(["p", "q"]), "x": rng.choice([1, 2, 3, {"$f": 2.5}]), "y": rng.choice([1, 2, 4])}
    if kind == "str":
        return {"id": i, "g": rng.choice(["p", "q"]), "x": rng.choice(["a", "b", "7"]), "y": rng.choice(["c", "d"])}
    return {"id": i, "g": "p", "x": rng.choice([1, "a", {"$f": 2.5}]), "y": rng.choice([2, "b"])}


def run(tier):
    res = vlib.Result("C20", tier)
    rng = random.Random(vlib.seed())
    quick = tier == "quick"
    # (a) caller data untouched
    scen = []
    for name, sql, modes, tables in QUERIES:
        for rep in range(3 if quick else 60):
            for mode in modes:
                n = rng.choice([4, 6, 9])
                rows = [nested_row(rng, i + 1) for i in range(n)]
                if "TumblingWindow" in sql:
                    rows.append(dict(nested_row(rng, n + 1), ts=40000))
                sc = {"meta": {"fam": "iso", "q": name}, "sql": sql, "rows": rows}
                if mode == "sync": sc["mode"] = "sync"
                if tables: sc["tables"] = tables
                scen.append(sc)
    # PrintTable() next to the other consumers: the table printer is a sink like any other - the rows the other sinks hold stay as delivered
    for name, sql, modes, tables in QUERIES:
        if name not in ("projection", "star", "counting", "case", "analytic_select", "join", "array_fns"):
            continue
        for rep in range(2 if quick else 30):
            rows = [nested_row(rng, i + 1) for i in range(rng.choice([4, 6]))]
            sc = {"meta": {"fam": "iso", "q": name + "+printtable"}, "sql": sql, "rows": rows, "printtable": True}
            if "sync" in modes and rep % 2: sc["mode"] = "sync"
            if tables: sc["tables"] = tables
            scen.append(sc)
    # an input schema with defaults (WithSchema): the engine sees the default for a field the row lacks, the caller's map does not
    for name, sql, modes, tables in QUERIES:
        if name not in ("projection", "star", "counting", "case", "tumbling"):
            continue
        for rep in range(2 if quick else 30):
            n = rng.choice([4, 6])
            rows = [nested_row(rng, i + 1) for i in range(n)]
            if "TumblingWindow" in sql:
                rows.append(dict(nested_row(rng, n + 1), ts=40000))
            sc = {"meta": {"fam": "iso", "q": name + "+schema"}, "sql": sql, "rows": rows, "schema": {"zone_default": "z0", "lvl_default": {"$f": 7.5}}}
            if "sync" in modes and rep % 2: sc["mode"] = "sync"
            scen.append(sc)
            # rows that carry a defaulted field with an explicit NULL, rows that lack only SOME of the defaulted fields, a field that is
            # required AND has a default: whatever the validation fills in, it fills it into its own copy
            rows2 = []
            for r in rows:
                r = dict(r)
                k = rng.random()
                if k < 0.3: r["zone_default"] = None
                elif k < 0.5: r["zone_default"] = "zz"
                k = rng.random()
                if k < 0.3: r["lvl_default"] = None
                elif k < 0.6: r["lvl_default"] = 3
                if rng.random() < 0.5: r["unit_req"] = "F"
                rows2.append(r)
            sc2 = {"meta": {"fam": "iso", "q": name + "+schema2"}, "sql": sql, "rows": rows2, "schema": {"zone_default": "z0", "lvl_default": {"$f": 7.5}, "unit_req": "C"}, "schema_req": ["unit_req"]}
            if "sync" in modes and rep % 2 == 0: sc2["mode"] = "sync"
            scen.append(sc2)
    seqfam.run_scenarios(res, scen, "TraceIso", spec_dir=PIPE, tag="iso")
    # (b) two instances in one process
    pairs = []
    pats = ["ab", "ba", "aabb", "abab", "bbaa", "abba", "baab", "aaabbb", "bababa"] if quick else ["".join(p) for p in set(itertools.permutations("aaabbb"))]
    for sqla, ka, sqlb, kb in PAIRS:
        for pat in pats:
            na = 4 if "Window(3)" not in sqla else 6
            nb = 4 if "Window(3)" not in sqlb else 6
            if "Window(4)" in sqla: na = nb = 16
            if "MATCH_RECOGNIZE" in sqla:      # process-wide pools are per scheduler thread: long alternating runs make two instances meet there
                na = nb = 120
                pat = pat * 40
            a = {"sql": sqla, "rows": [prow(rng, i + 1, ka) for i in range(na)]}
            b = {"sql": sqlb, "rows": [prow(rng, i + 1, kb) for i in range(nb)]}
            pairs.append({"meta": {"fam": "pair"}, "a": a, "b": b, "pattern": pat, "late_b": rng.random() < 0.4})      # B created before A's first row, or only when B's first row is due
    # two instances share ONE table object (B registers the handle A's RegisterTable returned); A is stopped half-way: B's results stay
    # what they are when B runs alone
    for pat in pats[:6] if quick else pats:
        for kind in ("JOIN", "LEFT JOIN"):
            sql = "SELECT id, m.loc AS loc FROM stream %s meta m ON g = m.g" % kind
            tbl = [{"name": "meta", "rows": [{"g": "p", "loc": "L1"}, {"g": "q", "loc": "L2"}], "keys": ["g"]}]
            a = {"sql": sql, "rows": [prow(rng, i + 1, "num") for i in range(6)], "tables": tbl}
            b = {"sql": sql, "rows": [prow(rng, i + 1, "num") for i in range(8)], "tables": tbl}
            pairs.append({"meta": {"fam": "pair"}, "a": a, "b": b, "pattern": pat, "share": True, "stop_a": rng.choice([1, 2, 3])})
    seqfam.run_scenarios(res, pairs, "TraceIso", spec_dir=PIPE, tag="pair", sub="pair")
    seqfam.run_pinned(res, "TraceIso", spec_dir=PIPE, sub="pair")
    res.cov["exhaustive"] = False
    res.cov["distinct_nontrivial"] = len(scen) + len(pairs)
    res.cov["rule"] = ("(a) %d query kinds (projection, *, analytic in SELECT / with PARTITION / in WHERE, changed_cols, function-expression group keys on counting and tumbling windows, counting, tumbling, JOIN, JOIN + window, unnest, CASE, global window) "
                       "x rows with nested maps and slices x Emit / EmitSync: caller map and sink rows compared deeply; (b) %d instance pairs (same expression text over different column types, same SQL / different data, different SQL) x %d interleavings of their inputs: "
                       "each instance alone vs interleaved") % (len(QUERIES), len(PAIRS), len(pats))
    res.assumptions = ASSUME
    cfg = 'SPECIFICATION Spec\nCONSTANTS Insts = {1, 2} MaxRows = %d Kinds = {"num", "str"} SharedEntry = FALSE\nINVARIANTS CallerUntouched Independent\nCHECK_DEADLOCK FALSE\n' % (3 if quick else 4)
    seqfam.model(res, PIPE, "Iso", cfg, "Iso", {"Insts": 2, "MaxRows": 3 if quick else 4, "SharedEntry": False})
    return res.finish()


if __name__ == "__main__":
    vlib.main(run)
