import itertools, json, os, random, sys
sys.path.insert(0, os.path.dirname(os.path.abspath(__file__)))
import seqfam, vlib

ASSUME = ["inputs are small integers / halves, NULL and missing (exact rationals are the definition; floating-point accumulation error is out of scope)",
          "variance / stddev references are evaluated on whole-number inputs only", "percentile may be any value between the two bracketing order statistics",
          "stddev/var/median/percentile over no usable input may be NULL or 0", "deduplicate is exercised in its one-argument form; merge_agg is decided over text values only (over NULL / absent / numbers / objects documentation and behaviour disagree)",
          "batches are cut by CountingWindow(N) and replayed in lock-step"]
MISSING = "__missing__"
FNS = {"count_star": "count(*)", "count": "count(%s)", "sum": "sum(%s)", "avg": "avg(%s)", "min": "min(%s)", "max": "max(%s)",
       "stddev": "stddev(%s)", "stddevs": "stddevs(%s)", "var": "var(%s)", "vars": "vars(%s)", "median": "median(%s)",
       "percentile": "percentile(%s, %s)", "first_value": "first_value(%s)", "last_value": "last_value(%s)",
       "nth_value": "nth_value(%s, %d)", "collect": "collect(%s)", "deduplicate": "deduplicate(%s)"}
SHAPES = {"col": ("v", {"k": "col", "c": "v"}), "path": ("o.v", {"k": "path", "p": ["o", "v"]}),
          "lin": ("v*2+1", {"k": "lin", "c": "v", "a": 2, "b": 1}), "add2": ("v+w", {"k": "add2", "c": "v", "d": "w"})}


def mkrow(i, val, shape, grp, flt, rng):
    row = {"id": i}
    if shape == "add2" and val in (None, MISSING):
        val = rng.choice([-3, 0, 2, 7])   # NULL + number is C06's business (see KNOWN_FINDINGS NullPlusNumber): keep v+w numeric here
    if grp is not None:
        row["g"] = grp
    if val != MISSING:
        x = val
        if x is not None and flt:
            x = {"$f": float(x)}
        if shape == "path":
            row["o"] = {"v": x}
        else:
            row["v"] = x
    elif shape == "path" and rng.random() < 0.5:
        row["o"] = {"u": 1}
    if shape == "add2":
        row["w"] = rng.choice([1, 1, 4])
    return row


def query(shape, fns, grouped, n, pcts):
    argtxt, arg = SHAPES[shape]
    items, aggs = [], []
    for k, fn in enumerate(fns):
        al = "a%d" % k
        p = 0
        if fn == "count_star":
            sqlx = FNS[fn]
        elif fn == "percentile":
            p = pcts[k % len(pcts)]
            sqlx = FNS[fn] % (argtxt, ("%d" % (p // 1000)) if (p in (0, 1000) and k % 2 == 0) else "%.3f" % (p / 1000.0))   # 0 / 1 also written as integer literals
        elif fn == "nth_value":
            p = 2
            sqlx = FNS[fn] % (argtxt, p)
        else:
            sqlx = FNS[fn] % argtxt
        items.append("%s AS %s" % (sqlx, al))
        aggs.append({"al": al, "fn": fn, "arg": {"k": "star"} if fn == "count_star" else arg, "p": p})
    sel = ", ".join(items)
    if grouped:
        sql = "SELECT g, %s FROM stream GROUP BY g, CountingWindow(%d)" % (sel, n)
        meta = {"fam": "batch", "carrier": "counting", "n": n, "gcols": ["g"], "gout": ["g"], "aggs": aggs}
    else:
        sql = "SELECT %s FROM stream GROUP BY CountingWindow(%d)" % (sel, n)
        meta = {"fam": "batch", "carrier": "counting", "n": n, "gcols": [], "gout": [], "aggs": aggs}
    return sql, meta


def mixed_query(rng, n):
    """one query whose aggregates take DIFFERENT expressions over the same column / nested path (each evaluated per row on its own)"""
    path = rng.random() < 0.6
    base = "o.v" if path else "v"
    pool = [("%s" % base, 1, 1, 0), ("%s*2" % base, 2, 1, 0), ("%s+100" % base, 1, 1, 100), ("%s*2+1" % base, 2, 1, 1), ("%s*1.5" % base, 3, 2, 0), ("%s*3" % base, 3, 1, 0), ("%s-0.5" % base, 1, 1, None)]
    pool = [x for x in pool if x[3] is not None]
    picks = rng.sample(pool, rng.choice([2, 3, 4]))
    items, aggs = [], []
    for k, (txt, an, ad, b) in enumerate(picks):
        fn = rng.choice(["sum", "max", "min", "avg", "sum", "last_value", "first_value"])
        arg = {"k": "aff", "an": an, "ad": ad, "b": b}
        if path: arg["p"] = ["o", "v"]
        else: arg["c"] = "v"
        if txt == base:
            arg = {"k": "path", "p": ["o", "v"]} if path else {"k": "col", "c": "v"}
        items.append("%s(%s) AS a%d" % (fn, txt, k))
        aggs.append({"al": "a%d" % k, "fn": fn, "arg": arg, "p": 0})
    sql = "SELECT %s FROM stream GROUP BY CountingWindow(%d)" % (", ".join(items), n)
    meta = {"fam": "batch", "carrier": "counting", "n": n, "gcols": [], "gout": [], "aggs": aggs}
    rows = []
    for i in range(n * 2):
        x = rng.choice([-3, 0, 2, 4, 7, 10])          # even or small values: *1.5 stays a multiple of 1/2
        rows.append({"id": i + 1, "o": {"v": x}} if path else {"id": i + 1, "v": x})
    return {"meta": meta, "sql": sql, "rows": rows}


def strhist_query(rng, n):
    """sum(v+w) / avg(v+w): the argument is evaluated per row on THAT row's values - rows in which v and w are texts ('ab' + 'cd' is no number:
    skipped) come first, rows with numbers follow in the same and in later batches (and in every other statement of the process that
    spells the argument the same way)"""
    fns = rng.sample(["sum", "avg", "sum", "avg"], 2)
    # column names of its own: the argument's TEXT is new to the process (whatever the engine remembers per text, it learns it here)
    tag = rng.randrange(10**6)
    cv, cw = "pa%d" % tag, "pb%d" % tag
    sp = rng.choice(["%s+%s", "%s + %s"])
    items = [("%s(" + sp + ") AS a%d") % (fn, cv, cw, k) for k, fn in enumerate(fns)]
    aggs = [{"al": "a%d" % k, "fn": fn, "arg": {"k": "add2", "c": cv, "d": cw}, "p": 0} for k, fn in enumerate(fns)]
    rows = []
    for i in range(n * 3):
        if i < rng.choice([1, 2]) or (i < n and rng.random() < 0.3):
            rows.append({"id": i + 1, cv: rng.choice(["ab", "x", "p q"]), cw: rng.choice(["cd", "y"])})
        else:
            rows.append({"id": i + 1, cv: rng.choice([-3, 0, 2, 7, 1]), cw: rng.choice([1, 2, 4])})
    meta = {"fam": "batch", "carrier": "counting", "n": n, "gcols": [], "gout": [], "aggs": aggs}
    return {"meta": meta, "sql": "SELECT %s FROM stream GROUP BY CountingWindow(%d)" % (", ".join(items), n), "rows": rows, "noretype": True, "norename": True}


def shifted_query(rng, n):
    """variance / standard deviation are shift-invariant: large-magnitude inputs (v = offset + vs) must give the value of the small shadow inputs vs"""
    off = rng.choice([30000000, 1000000000, 1700000000000])
    fns = rng.sample(["var", "vars", "stddev", "stddevs"], rng.choice([1, 2, 4]))
    items, aggs = [], []
    for k, fn in enumerate(fns):
        items.append("%s(v) AS a%d" % (fn, k))
        aggs.append({"al": "a%d" % k, "fn": fn, "arg": {"k": "shadow", "c": "vs"}, "p": 0})
    rows = []
    for i in range(n * 2):
        vs = rng.choice([0, 1, 2, 3, 4, 6, 8])
        rows.append({"id": i + 1, "vs": vs, "v": ({"$f": float(off + vs)} if rng.random() < 0.5 else {"$big": str(off + vs), "t": "int64"})})
    return {"meta": {"fam": "batch", "carrier": "counting", "n": n, "gcols": [], "gout": [], "aggs": aggs},
            "sql": "SELECT %s FROM stream GROUP BY CountingWindow(%d)" % (", ".join(items), n), "rows": rows}


def poison_query(rng, n):
    """user code inside the statement panics on one value (3). A scalar function in an aggregate argument (vboom(v)): that row is skipped
    by that aggregate only. A user aggregate whose Result panics (vboomsum(v)): the batch holding the row is dropped as a whole. Either
    way the batches after it are aggregated over their own rows only - nothing is left behind in the aggregators"""
    grouped = rng.random() < 0.4
    drop = rng.random() < 0.5
    fns = rng.sample(["count_star", "count", "sum", "avg", "min", "max", "sum", "max"], rng.choice([3, 4, 5]))
    items, aggs = [], []
    boom_at = rng.randrange(len(fns))
    for k, fn in enumerate(fns):
        if fn == "count_star":
            items.append("count(*) AS a%d" % k); arg = {"k": "star"}
        elif not drop and (k == boom_at or rng.random() < 0.3):
            items.append("%s(vboom(v)) AS a%d" % (fn, k)); arg = {"k": "boomcol", "c": "v"}
        else:
            items.append("%s(v) AS a%d" % (fn, k)); arg = {"k": "col", "c": "v"}
        aggs.append({"al": "a%d" % k, "fn": fn, "arg": arg, "p": 0})
    if drop:
        items.insert(rng.randrange(len(items) + 1), "vboomsum(v) AS ab"); aggs.append({"al": "ab", "fn": "sum", "arg": {"k": "col", "c": "v"}, "p": 0})
    elif not any("vboom" in it for it in items):
        items.append("sum(vboom(v)) AS ab"); aggs.append({"al": "ab", "fn": "sum", "arg": {"k": "boomcol", "c": "v"}, "p": 0})
    nb = rng.choice([3, 4, 5])
    bad = set(rng.sample(range(nb - 1), rng.choice([1, 1, 2]) if nb > 3 else 1))      # never the last batch: a clean batch always follows
    rows, rid = [], 0
    groups = ["a", "b"] if grouped else [None]
    for b in range(nb):
        vals = {g: [rng.choice([0, 1, 2, 5, 7, -4]) for _ in range(n)] for g in groups}
        if b in bad:
            g = rng.choice(groups)
            vals[g][rng.randrange(n)] = 3
        for k in range(n):
            for g in groups:
                rid += 1
                r = {"id": rid, "v": vals[g][k]}
                if g: r["g"] = g
                rows.append(r)
    sel = ", ".join(items)
    if grouped:
        sql = "SELECT g, %s FROM stream GROUP BY g, CountingWindow(%d)" % (sel, n)
        meta = {"fam": "batch", "carrier": "counting", "n": n, "gcols": ["g"], "gout": ["g"], "aggs": aggs}
    else:
        sql = "SELECT %s FROM stream GROUP BY CountingWindow(%d)" % (sel, n)
        meta = {"fam": "batch", "carrier": "counting", "n": n, "gcols": [], "gout": [], "aggs": aggs}
    meta["poison"] = {"c": "v", "v": 30000, "drop": 1 if drop else 0}
    return {"meta": meta, "sql": sql, "rows": rows}


def twocol_query(rng, n):
    """aggregates over TWO columns whose NULL / missing values fall on different rows, batches cut by a counting window or by a
    GLOBAL WINDOW trigger: a row that is unusable for one aggregate still counts for all the others"""
    glob = rng.random() < 0.5
    fns = rng.sample(["count", "sum", "avg", "min", "max", "first_value", "last_value", "collect", "count_star", "sum", "max"], rng.choice([3, 4, 6]))
    cols = ["v", "u"]
    rng.shuffle(cols)
    items, aggs = [], []
    for k, fn in enumerate(fns):
        c = cols[k % 2]
        if fn == "count_star":
            items.append("count(*) AS a%d" % k); arg = {"k": "star"}
        else:
            items.append("%s(%s) AS a%d" % (fn, c, k)); arg = {"k": "col", "c": c}
        aggs.append({"al": "a%d" % k, "fn": fn, "arg": arg, "p": 0})
    groups = rng.choice([["a"], ["a", "b"]])
    rows, rid = [], 0
    for b in range(3):
        for k in range(n):
            for g in groups:
                rid += 1
                r = {"id": rid, "g": g}
                for c in ("v", "u"):
                    x = rng.choice([None, MISSING, -3, 0, 2, 7, 7, "N/A"])
                    if x != MISSING: r[c] = x
                rows.append(r)
    sel = ", ".join(items)
    if glob:
        sql = "SELECT g, %s FROM stream GROUP BY g, GLOBAL WINDOW TRIGGER WHEN COUNT(*) >= %d" % (sel, n)
        meta = {"fam": "batch", "carrier": "global", "n": 0, "gcols": ["g"], "gout": ["g"], "aggs": aggs,
                "pred": {"o": "cmp", "fn": "count_star", "arg": {"k": "star"}, "op": ">=", "lit": n * 10000}}
    else:
        sql = "SELECT g, %s FROM stream GROUP BY g, CountingWindow(%d)" % (sel, n)
        meta = {"fam": "batch", "carrier": "counting", "n": n, "gcols": ["g"], "gout": ["g"], "aggs": aggs}
    return {"meta": meta, "sql": sql, "rows": rows}


def rawvals_query(rng, n):
    """value-carrying aggregates (collect, first_value, last_value, count) hand texts on as they are - also texts that look like numbers
    ("007"), on every window path"""
    glob = rng.random() < 0.6
    fns = rng.sample(["collect", "first_value", "last_value", "count", "collect"], 3)
    items, aggs = [], []
    for k, fn in enumerate(fns):
        items.append("%s(u) AS a%d" % (fn, k)); aggs.append({"al": "a%d" % k, "fn": fn, "arg": {"k": "col", "c": "u"}, "p": 0})
    rows, rid = [], 0
    for b in range(3):
        for k in range(n):
            rid += 1
            r = {"id": rid, "g": "a"}
            x = rng.choice(["007", "12", "abc", "1e2", "0x10", 5, None, MISSING])
            if x != MISSING: r["u"] = x
            rows.append(r)
    sel = ", ".join(items)
    if glob:
        sql = "SELECT g, %s FROM stream GROUP BY g, GLOBAL WINDOW TRIGGER WHEN COUNT(*) >= %d" % (sel, n)
        meta = {"fam": "batch", "carrier": "global", "n": 0, "gcols": ["g"], "gout": ["g"], "aggs": aggs,
                "pred": {"o": "cmp", "fn": "count_star", "arg": {"k": "star"}, "op": ">=", "lit": n * 10000}}
    else:
        sql = "SELECT g, %s FROM stream GROUP BY g, CountingWindow(%d)" % (sel, n)
        meta = {"fam": "batch", "carrier": "counting", "n": n, "gcols": ["g"], "gout": ["g"], "aggs": aggs}
    return {"meta": meta, "sql": sql, "rows": rows, "noretype": True}


def merge_query(rng, n):
    """merge_agg over text values: the comma-join of the group's values in arrival order - an empty text is a value like any other"""
    glob = rng.random() < 0.4
    items = ["merge_agg(u) AS a0", "count(u) AS a1", "collect(u) AS a2"]
    aggs = [{"al": "a0", "fn": "merge_agg", "arg": {"k": "col", "c": "u"}, "p": 0}, {"al": "a1", "fn": "count", "arg": {"k": "col", "c": "u"}, "p": 0},
            {"al": "a2", "fn": "collect", "arg": {"k": "col", "c": "u"}, "p": 0}]
    rows, rid = [], 0
    for b in range(3):
        for k in range(n):
            rid += 1
            rows.append({"id": rid, "g": rng.choice(["a", "b"]), "u": rng.choice(["", "", "up", "down", "a,b", "007", " "])})
    sel = ", ".join(items)
    if glob:
        sql = "SELECT g, %s FROM stream GROUP BY g, GLOBAL WINDOW TRIGGER WHEN COUNT(*) >= %d" % (sel, n)
        meta = {"fam": "batch", "carrier": "global", "n": 0, "gcols": ["g"], "gout": ["g"], "aggs": aggs,
                "pred": {"o": "cmp", "fn": "count_star", "arg": {"k": "star"}, "op": ">=", "lit": n * 10000}}
    else:
        sql = "SELECT g, %s FROM stream GROUP BY g, CountingWindow(%d)" % (sel, n)
        meta = {"fam": "batch", "carrier": "counting", "n": n, "gcols": ["g"], "gout": ["g"], "aggs": aggs}
    return {"meta": meta, "sql": sql, "rows": rows, "noretype": True}


def run(tier):
    res = vlib.Result("C03", tier)
    rng = random.Random(vlib.seed())
    quick = tier == "quick"
    alphabet = [None, MISSING, -3, 0, 2, 2, 7]
    maxlen = 3 if quick else 4
    fnsets = [["count_star", "count", "sum", "avg", "min", "max", "first_value", "last_value"],
              ["stddev", "stddevs", "var", "vars", "median", "percentile", "percentile"],
              ["nth_value", "collect", "deduplicate", "percentile", "count_star", "max", "min"]]
    scen = []
    for L in range(1, maxlen + 1):
        seqs = sorted(set(itertools.product(alphabet, repeat=L)), key=str)
        for shape in SHAPES:
            if not quick or shape in ("col", "lin") or L <= 2:
                pool = list(seqs)
            else:
                pool = rng.sample(seqs, min(len(seqs), 60))
            rng.shuffle(pool)
            # three consecutive batches per instance: state must not leak from one into the next
            for i in range(0, len(pool), 3):
                chunk = pool[i:i + 3]
                fns = fnsets[(i // 3) % len(fnsets)]
                grouped = (i // 3) % 4 == 3
                flt = (i // 3) % 5 == 4
                sql, meta = query(shape, fns, grouped, L, [500, 250, 900, 0, 1000])
                rows, rid = [], 0
                if grouped:
                    # two groups interleaved: group b gets the reversed sequences
                    for seq in chunk:
                        for k in range(L):
                            rid += 1; rows.append(mkrow(rid, seq[k], shape, "a", flt, rng))
                            rid += 1; rows.append(mkrow(rid, seq[L - 1 - k], shape, "b", flt, rng))
                else:
                    for seq in chunk:
                        for v in seq:
                            rid += 1; rows.append(mkrow(rid, v, shape, None, flt, rng))
                scen.append({"meta": meta, "sql": sql, "rows": rows})
    # seeded longer batches with halves
    for _ in range(80 if quick else 3000):
        L = rng.choice([4, 5, 6])
        shape = rng.choice(list(SHAPES))
        fns = rng.choice(fnsets)
        vals = [rng.choice([None, MISSING, -3, -1, 0, 2, 2, 5, 7, 11, 20]) for _ in range(L * 3)]
        if shape == "col" and rng.random() < 0.4:      # a text that is no number among the inputs: unusable for the numeric aggregates, a value for count / collect / first_value
            vals = [("N/A" if rng.random() < 0.2 else v) for v in vals]
        half = rng.random() < 0.3
        sql, meta = query(shape, fns, False, L, [rng.choice([0, 100, 250, 500, 750, 950, 1000])])
        rows = []
        for i, v in enumerate(vals):
            r = mkrow(i + 1, v, shape, None, False, rng)
            if half and v not in (None, MISSING, "N/A") and shape == "col" and rng.random() < 0.5:
                r["v"] = {"$f": v + 0.5}
            rows.append(r)
        scen.append({"meta": meta, "sql": sql, "rows": rows})
    for _ in range(60 if quick else 3000):
        scen.append(mixed_query(rng, rng.choice([2, 3, 4])))
    for _ in range(40 if quick else 2000):
        scen.append(shifted_query(rng, rng.choice([3, 4, 5])))
    for _ in range(30 if quick else 1000):
        scen.append(strhist_query(rng, rng.choice([2, 3, 4])))
    for _ in range(40 if quick else 1500):
        scen.append(poison_query(rng, rng.choice([2, 3, 4])))
    for _ in range(80 if quick else 3000):
        scen.append(twocol_query(rng, rng.choice([2, 3, 4])))
    for _ in range(60 if quick else 2000):
        scen.append(rawvals_query(rng, rng.choice([2, 3, 4])))
    for _ in range(60 if quick else 2000):
        scen.append(merge_query(rng, rng.choice([2, 3, 4])))
    seqfam.run_scenarios(res, scen, "TraceBatch", tag="agg", relayout_p=0.3, retype_p=0.3, rename_p=0.3)
    seqfam.run_pinned(res, "TraceBatch")
    res.cov["exhaustive"] = not quick
    res.cov["distinct_nontrivial"] = len({json.dumps(s["rows"], sort_keys=True) + s["sql"] for s in scen})
    res.cov["rule"] = ("every value sequence of length <= %d over {NULL, missing, -3, 0, 2, 2, 7} as a batch (hence every permutation), for 4 argument shapes "
                       "(column, nested path, v*2+1, v+w), 17 functions in 3 query shapes, 1-2 groups, three consecutive batches per instance; "
                       "plus seeded longer batches, aggregates over two columns with NULLs on different rows (counting and GLOBAL WINDOW carriers), and batches in which user code "
                       "panics (a scalar function in an aggregate argument: row skipped; a user aggregate's Result: batch dropped) followed by clean batches; distinct = distinct (SQL, rows)") % maxlen
    res.assumptions = ASSUME
    for ml, mb in ([(3, 2)] if quick else [(3, 3), (4, 2)]):
        cfg = 'SPECIFICATION Spec\nCONSTANTS RawVals = {0, 3, 5} Off = 3 Groups = {"a","b"} MaxLen = %d MaxBatches = %d ResetOnBatchEnd = TRUE\nINVARIANTS DefinitionHolds NoLeak\nCHECK_DEADLOCK FALSE\n' % (ml, mb)
        seqfam.model(res, seqfam.SEM, "AggBatch", cfg, "AggBatch", {"MaxLen": ml, "MaxBatches": mb, "Vals": [-3, 0, 2], "Groups": 2})
    return res.finish()


if __name__ == "__main__":
    vlib.main(run)
