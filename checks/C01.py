import os, sys
sys.path.insert(0, os.path.dirname(os.path.abspath(__file__)))
import win, vlib

ASSUME = ["with ALLOWEDLATENESS > 0 only the on-time rows are judged here (every delivery of an interval reports the same on-time rows, each in one interval); late updates are C02's subject",
          "window output buffer never overflows (<= 20 pending batches vs capacity)", "single producer: Emit order = ingest order",
          "IDLETIMEOUT unset except in the live-source scenarios (ties and stragglers arriving faster than the timeout)", "processing time: a row's engine-side timestamp is bracketed by the wall clock before Emit and at the end of window.Add; a row whose bracket straddles an interval boundary is accepted in either interval; rows still unreported 3 s + (held+3) window sizes after the last Emit count as lost",
          "results observed through a synchronous sink"]


def run(tier):
    if tier == "quick":
        plan = [("tumbling", dict(size=2, moo=1, al=0, maxts=5, maxev=4, mc=dict(maxts=7))),
                ("tumbling", dict(size=1, moo=2, al=0, maxts=4, maxev=4, cap=3000)),
                ("tumbling", dict(size=2, moo=0, al=0, maxts=5, maxev=4, cap=2000)),
                ("tumbling", dict(size=2, moo=0, al=1, maxts=5, maxev=4, cap=2000))]      # windows kept open for late rows must not cost on-time rows
        free = [("tumbling", dict(size=2, moo=1, al=0), 60, 40), ("tumbling", dict(size=3, moo=4, al=0), 40, 60), ("tumbling", dict(size=3, moo=1, al=2), 40, 50)]
    else:
        plan = [("tumbling", dict(size=2, moo=1, al=0, maxts=6, maxev=5, cap=40000, mc=dict(maxts=8))),
                ("tumbling", dict(size=1, moo=2, al=0, maxts=5, maxev=5, cap=30000)),
                ("tumbling", dict(size=2, moo=0, al=0, maxts=6, maxev=5, cap=20000)),
                ("tumbling", dict(size=3, moo=2, al=0, maxts=7, maxev=4)),
                ("tumbling", dict(size=2, moo=0, al=1, maxts=6, maxev=5, cap=30000)), ("tumbling", dict(size=3, moo=1, al=2, maxts=7, maxev=4, cap=30000))]
        free = [("tumbling", dict(size=2, moo=1, al=0), 400, 60), ("tumbling", dict(size=3, moo=4, al=0), 300, 80),
                ("tumbling", dict(size=1, moo=0, al=0), 200, 50), ("tumbling", dict(size=3, moo=1, al=2), 300, 60), ("tumbling", dict(size=2, moo=0, al=3), 300, 60)]
    if tier == "quick":
        post = lambda res, rng, vh, scen: win.proc_stage(res, rng, vh, scen, nmodel=120, nfree=12)
    else:
        post = lambda res, rng, vh, scen: win.proc_stage(res, rng, vh, scen, maxnow=6, maxev=4, nmodel=1500, nfree=100, mc=dict(size=3, maxnow=10, maxev=5))
    # IDLETIMEOUT: a live source (rows keep arriving, most of them not above the maximum seen so far) is not idle - its interval does not fire
    # early and loses no on-time row
    idle = [("tumbling", dict(size=10, moo=2), 6 if tier == "quick" else 50)]
    return win.run_family("C01", tier, plan, free, ASSUME, post=post, scope=("ScopeOnTimeOnly",), idle_plan=idle)


if __name__ == "__main__":
    vlib.main(run)
