import itertools, json, os, random, sys
sys.path.insert(0, os.path.dirname(os.path.abspath(__file__)))
import seqfam, vlib

ASSUME = ["values of one scalar type per grouping column (a number never meets a string in one column)",
          "scalar-function keys are exercised with upper() / lower() / concat(k, 0.5) over present string inputs",
          "batches: one event-time tumbling window closed by a flush row, or CountingWindow(N) per key tuple; lock-step replay"]
MISSING = "__missing__"
STRS = ["a", "b", "", "|", ",", "\x1f", "\x00NULL", "a\x1fb", "b|", "NULL", "\x1f\x1f"]
NUMS = [1, 2, {"$f": 2.5}, {"$big": "9007199254740992", "t": "int64"}, {"$big": "9007199254740993", "t": "int64"}, -1, 0]
AGGS = [{"al": "c", "fn": "count_star", "arg": {"k": "star"}, "p": 0}, {"al": "ids", "fn": "collect", "arg": {"k": "col", "c": "id"}, "p": 0},
        {"al": "s", "fn": "sum", "arg": {"k": "col", "c": "v"}, "p": 0}]
SEL = "count(*) AS c, collect(id) AS ids, sum(v) AS s"


def mk(cols, tuples, carrier, n, fnkey, rng, aliases=()):
    """cols: grouping column names; tuples: per row tuple of values (python values / MISSING)"""
    rows = []
    for i, t in enumerate(tuples):
        row = {"id": i + 1, "v": rng.choice([1, 2, 5]), "ts": 1000 + i}
        for c, x in zip(cols, t):
            if x != MISSING:
                row[c] = x
        rows.append(row)
    gexprs, gout, gmap = [], [], []
    for j, c in enumerate(cols):
        if fnkey is not None and j == fnkey[0]:
            f = fnkey[1]
            if f == "concatdot":      # a function key whose text holds a dot (a decimal literal; quotes are not admitted in GROUP BY keys): the key is a computed column, the dot is no path
                gexprs.append("concat(%s, 0.5)" % c); gout.append("f%d" % j)
                gmap.append([[s, s + "0.5"] for s in ["a", "b", "Ab", "aB", "AB", "ab", "B", "A"]])
            else:
                gexprs.append("%s(%s)" % (f, c)); gout.append("f%d" % j)
                gmap.append([[s, s.upper() if f == "upper" else s.lower()] for s in ["a", "b", "Ab", "aB", "AB", "ab", "B", "A"]])
        elif j in aliases:        # a bare grouping column reported under an AS alias
            gexprs.append(c); gout.append("r%d" % j); gmap.append([])
        else:
            gexprs.append(c); gout.append(c); gmap.append([])
    sel_keys = ", ".join(("%s AS %s" % (e, o)) if e != o else e for e, o in zip(gexprs, gout))
    if fnkey is not None and fnkey[2]:            # function key listed AFTER / BEFORE the bare columns in GROUP BY
        order = [gexprs[j] for j in range(len(cols)) if j != fnkey[0]] + [gexprs[fnkey[0]]]
    else:
        order = list(gexprs)
    meta = {"fam": "batch", "carrier": carrier, "n": n, "gcols": cols, "gout": gout, "gmap": gmap, "aggs": AGGS}
    if carrier == "tumbling":
        flush = {"id": len(rows) + 1, "v": 1, "ts": 40000}
        for c in cols:
            flush[c] = "zz"
        rows.append(flush)
        win = "TumblingWindow('10s') WITH (TIMESTAMP='ts', TIMEUNIT='ms')"
        meta["n"] = len(tuples)
    elif carrier == "global":     # the global window partitions by its own key tuple: a group fires at every second row of its tuple
        win = "GLOBAL WINDOW TRIGGER WHEN COUNT(*) >= 2"
        meta["n"] = 0
        meta["pred"] = {"o": "cmp", "fn": "count_star", "arg": {"k": "star"}, "op": ">=", "lit": 20000}
    else:
        win = "CountingWindow(%d)" % n
    # clause layout: keys before or after the window function, optionally followed directly by a (non-binding) LIMIT
    lay = rng.choice(["keys_first", "keys_first", "win_first"])
    gb = (", ".join(order + [win]) if lay == "keys_first" or carrier in ("tumbling", "global") else ", ".join([win] + order)) if cols else win
    if carrier == "counting" and rng.random() < 0.4:
        gb += " LIMIT 100"
    sql = "SELECT %s%s FROM stream GROUP BY %s" % (sel_keys + ", " if cols else "", SEL, gb)
    if carrier == "tumbling" and cols and rng.random() < 0.3:
        # a binding LIMIT without ORDER BY: any k of the groups - but every delivered group holds ALL the rows of its tuple
        meta["limit"] = rng.choice([1, 2])
        sql += " LIMIT %d" % meta["limit"]
    return {"meta": meta, "sql": sql, "rows": rows}


def run(tier):
    res = vlib.Result("C04", tier)
    rng = random.Random(vlib.seed())
    quick = tier == "quick"
    scen = []
    nscen = 700 if quick else 20000
    # exhaustive small: 1 column, all batches of <= 3 rows over 5-value alphabets (strings incl. NULL/missing)
    for alpha in (["a", "", "\x1f", None, MISSING], ["|", "a\x1fb", "\x00NULL", None, "b"], NUMS[:5]):
        for L in (2, 3):
            for t in itertools.product(alpha, repeat=L):
                scen.append(mk(["k1"], [(x,) for x in t], "tumbling", 0, None, rng))
    # 2-3 columns, sampled
    for _ in range(nscen):
        ncol = rng.choice([0, 1, 2, 2, 2, 3] if not quick else [1, 2, 2, 3])
        cols = ["k%d" % (i + 1) for i in range(ncol)]
        alphas = []
        for _c in cols:
            if rng.random() < 0.25:
                alphas.append(rng.sample(NUMS, 3) + [None, MISSING])
            else:
                alphas.append(rng.sample(STRS, 3) + [None, MISSING])
        L = rng.choice([2, 3, 4, 4, 5])
        tuples = [tuple(rng.choice(a) for a in alphas) for _ in range(L)]
        carrier = rng.choice(["tumbling", "tumbling", "counting", "global"] if ncol > 0 else ["tumbling", "counting"])
        if carrier == "global":       # more repeats of the same tuples, so that groups fire
            tuples = tuples + [rng.choice(tuples) for _ in range(rng.choice([3, 5]))]
        if ncol >= 2 and rng.random() < 0.15:     # two grouping columns whose names differ in letter case only are two columns
            cols = ["k1", "K1"] + cols[2:]
        aliases = tuple(j for j in range(ncol) if rng.random() < 0.25)
        scen.append(mk(cols, tuples, carrier, 2, None, rng, aliases))
    # scalar-function keys
    for _ in range(120 if quick else 3000):
        ncol = rng.choice([1, 2, 3])
        cols = ["k%d" % (i + 1) for i in range(ncol)]
        fpos = rng.randrange(ncol)
        L = rng.choice([3, 4, 5])
        tuples = []
        for _r in range(L):
            t = []
            for j in range(ncol):
                t.append(rng.choice(["a", "Ab", "aB", "AB", "b", "B"]) if j == fpos else rng.choice(["x", "y", None, MISSING, "x|"]))
            tuples.append(tuple(t))
        carrier = rng.choice(["tumbling", "tumbling", "global"])
        if carrier == "global":
            tuples = tuples + [rng.choice(tuples) for _ in range(rng.choice([3, 5]))]
        scen.append(mk(cols, tuples, carrier, 0, (fpos, rng.choice(["upper", "lower", "concatdot"]), rng.random() < 0.5), rng))
    # a batch dropped because user code panicked while its results were built leaves no group behind: the next batch has exactly its own
    # key tuples, each aggregated over its own rows (C03's poisoned batches, the grouped ones whose user aggregate panics)
    import C03
    made = 0
    while made < (40 if quick else 1500):
        sc = C03.poison_query(rng, rng.choice([2, 3]))
        if sc["meta"]["gcols"] and sc["meta"]["poison"]["drop"] == 1:
            scen.append(sc); made += 1
    seqfam.run_scenarios(res, scen, "TraceBatch", tag="groupby", relayout_p=0.3, retype_p=0.3, rename_p=0.3)
    # a consumer of the result channel that falls behind (it starts reading when everything has been emitted; tiny channel): the engine
    # may shed whole batches, but what it delivers are the batches the sink saw - one result row per grouping tuple each, never two
    # windows' results merged into one batch (TraceChan)
    hold = []
    for i in range(30 if quick else 600):
        n = rng.choice([1, 2, 2, 3])
        keys = ["A", "B", "C"][:rng.choice([1, 2, 3])]
        rows = [{"id": j + 1, "k1": rng.choice(keys), "v": rng.choice([1, 2, 3, 5])} for j in range(rng.choice([12, 20, 30]))]
        meta = {"fam": "batch", "carrier": "counting", "n": n, "gcols": ["k1"], "gout": ["k1"], "gmap": [[]], "aggs": AGGS}
        hold.append({"meta": meta, "sql": "SELECT k1, %s FROM stream GROUP BY k1, CountingWindow(%d)" % (SEL, n), "rows": rows, "chan": True, "chanhold": True,
                     "perf": {"reschan": rng.choice([2, 3, 5, 10])}})
    seqfam.run_scenarios(res, hold, "TraceChan", tag="chanhold")
    seqfam.run_scenarios(res, hold, "TraceBatch", tag="chanholdb")
    # SELECT DISTINCT removes duplicate ROWS, never a group: a key tuple whose aggregate is not a finite number (0 / 0) keeps its row
    dis = []
    for _ in range(40 if quick else 1500):
        groups = ["a", "b", "c", "d"][:rng.choice([3, 4])]
        idle = set(rng.sample(groups, rng.choice([1, 2])))
        rows, rid = [], 0
        for _r in range(rng.choice([7, 9, 11])):
            rid += 1
            g = rng.choice(groups)
            rows.append({"id": rid, "ts": 1000 + rid, "g": g, "v": 0 if g in idle else rng.choice([1, 2, 3, 5]), "w": 0 if g in idle else rng.choice([1, 2, 4])})
        for g in groups:      # every group occurs
            rid += 1
            rows.append({"id": rid, "ts": 1000 + rid, "g": g, "v": 0 if g in idle else 2, "w": 0 if g in idle else 1})
        n = len(rows)
        rows.append({"id": n + 1, "ts": 40000, "g": "zz", "v": 1, "w": 1})
        e = {"t": "bin", "op": "/", "a": {"t": "col", "c": "sum_v"}, "b": {"t": "col", "c": "sum_w"}}
        meta = {"fam": "postagg", "n": n, "aggdefs": [{"key": "sum_v", "fn": "sum", "arg": "v"}, {"key": "sum_w", "fn": "sum", "arg": "w"}],
                "sel": [{"al": "r", "e": e}], "gsel": 1, "order": [], "limit": 0, "distinct": 1}
        dis.append({"meta": meta, "sql": "SELECT DISTINCT g, sum(v) / sum(w) AS r FROM stream GROUP BY g, TumblingWindow('10s') WITH (TIMESTAMP='ts', TIMEUNIT='ms')", "rows": rows})
    seqfam.run_scenarios(res, dis, "TracePostAgg", tag="distinct-groups", relayout_p=0.3)
    res.cov["exhaustive"] = False
    res.cov["distinct_nontrivial"] = len({json.dumps(s["rows"], sort_keys=True) + s["sql"] for s in scen})
    res.cov["rule"] = ("all batches of <= 3 rows over three 5-value alphabets for one grouping column (exhaustive) plus seeded batches over 0-3 grouping columns (some reported under AS aliases, some named alike up to letter case) "
                       "(strings with separator-like characters, the aggregator's NULL marker text, NULL, missing, numbers incl. > 2^53) through a tumbling window (several groups per batch) "
                       "and CountingWindow(2); scalar-function keys upper() / lower() / concat(k, 0.5) in every position of the GROUP BY list (tumbling and global windows); distinct = distinct (SQL, rows)")
    res.assumptions = ASSUME
    for enc, mr, ml in ([("lenprefix", 2, 2)] if quick else [("lenprefix", 2, 2), ("lenprefix", 3, 1)]):
        cfg = 'SPECIFICATION Spec\nCONSTANTS Encoder = "%s" MaxRows = %d NCols = 2 MaxLen = %d\nINVARIANTS Partition\nCHECK_DEADLOCK FALSE\n' % (enc, mr, ml)
        seqfam.model(res, seqfam.SEM, "GroupBy", cfg, "GroupBy", {"Encoder": enc, "MaxRows": mr, "NCols": 2, "MaxLen": ml})
    return res.finish()


if __name__ == "__main__":
    vlib.main(run)
