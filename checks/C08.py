import os, sys
sys.path.insert(0, os.path.dirname(os.path.abspath(__file__)))
import win, vlib

ASSUME = ["window output buffer never overflows", "single producer", "IDLETIMEOUT unset",
          "reportable intervals start at the slide-aligned start of the earliest on-time row (statement of C08)"]


def run(tier):
    if tier == "quick":
        plan = [("sliding", dict(size=4, slide=2, moo=1, al=0, maxts=6, maxev=4, cap=5000)),
                ("sliding", dict(size=3, slide=2, moo=2, al=0, maxts=6, maxev=4, cap=3000)),
                ("sliding", dict(size=2, slide=3, moo=1, al=0, maxts=6, maxev=4, cap=3000)),
                ("sliding", dict(size=2, slide=2, moo=0, al=0, maxts=5, maxev=4, cap=2000))]
        free = [("sliding", dict(size=4, slide=2, moo=3, al=0), 50, 40), ("sliding", dict(size=5, slide=2, moo=2, al=0), 40, 50),
                ("sliding", dict(size=2, slide=5, moo=1, al=0), 30, 40), ("sliding", dict(size=6, slide=2, moo=0, al=0), 30, 40)]
    else:
        plan = [("sliding", dict(size=4, slide=2, moo=1, al=0, maxts=7, maxev=5, cap=40000)),
                ("sliding", dict(size=3, slide=2, moo=2, al=0, maxts=7, maxev=5, cap=30000)),
                ("sliding", dict(size=2, slide=3, moo=1, al=0, maxts=7, maxev=5, cap=30000)),
                ("sliding", dict(size=6, slide=2, moo=3, al=0, maxts=8, maxev=4)),
                ("sliding", dict(size=2, slide=2, moo=0, al=0, maxts=6, maxev=5, cap=20000))]
        free = [("sliding", dict(size=4, slide=2, moo=3, al=0), 300, 60), ("sliding", dict(size=5, slide=2, moo=2, al=0), 300, 60),
                ("sliding", dict(size=2, slide=5, moo=1, al=0), 200, 50), ("sliding", dict(size=6, slide=2, moo=0, al=0), 200, 50),
                ("sliding", dict(size=7, slide=3, moo=4, al=0), 200, 60)]
    # a slide much smaller than the size: one watermark step may pass the end of hundreds of intervals - all of them fire
    free = free + [("sliding", dict(size=160, slide=1, moo=0, al=0, manyintervals=True, perf={"winout": 4096}), 3 if tier == "quick" else 20, 0),
                   ("sliding", dict(size=150, slide=2, moo=1, al=0, manyintervals=True, perf={"winout": 4096}), 2 if tier == "quick" else 20, 0)]
    post = lambda res, rng, vh, scen: win.proc_sliding_stage(res, rng, vh, scen, quick=(tier == "quick"))
    return win.run_family("C08", tier, plan, free, ASSUME, post=post)


if __name__ == "__main__":
    vlib.main(run)
