import itertools, json, os, random, sys
sys.path.insert(0, os.path.dirname(os.path.abspath(__file__)))
import seqfam, vlib

ASSUME = ["greedy quantifiers only; ONE ROW PER MATCH; MEASURES MATCH_NUMBER(), FIRST(id), LAST(id), COUNT(*) identify a match",
          "DEFINE conditions: v > c, v < c, v > PREV(v), v < PREV(v) (the latter two never on the pattern's first variable), running SUM(v) <= c / COUNT(*) <= c over the match so far, or undefined (true)",
          "scenarios stay far below maxRunRows / maxRuns / maxPartitions; WITHIN is exercised on epoch timestamps ahead of the wall clock (the sweeper, a wall-clock device, is C15/B3's idle scenario); empty matches are not reported",
          "all matches are compared after Stop (flush), per partition in delivery order"]


def var(v): return {"t": "var", "v": v}
def seq(*ps): return {"t": "seq", "ps": list(ps)}
def alt(*ps): return {"t": "alt", "ps": list(ps)}
def q(p, lo, hi): return {"t": "q", "p": p, "lo": lo, "hi": hi}


def psql(p, top=True):
    t = p["t"]
    if t == "var": return p["v"]
    if t == "seq": return " ".join(psql(x, False) for x in p["ps"])
    if t == "alt" and "perm" in p:
        return "PERMUTE(%s)" % ", ".join(p["perm"])
    if t == "alt":
        s = " | ".join(psql(x, False) for x in p["ps"])
        return "(" + s + ")" if not top else s
    inner = psql(p["p"], False)
    if p["p"]["t"] != "var": inner = "(" + inner + ")"
    lo, hi = p["lo"], p["hi"]
    if (lo, hi) == (0, 1): return inner + "?"
    if (lo, hi) == (0, -1): return inner + "*"
    if (lo, hi) == (1, -1): return inner + "+"
    if lo == hi: return inner + "{%d}" % lo
    if hi == -1: return inner + "{%d,}" % lo
    return inner + "{%d,%d}" % (lo, hi)


PATTERNS = [  # (pattern, first variable(s) that must not use PREV-based DEFINE)
    seq(var("A"), var("B")), q(var("A"), 1, -1), q(var("A"), 2, 2), q(var("A"), 3, 3), seq(var("A"), q(var("B"), 1, -1)), seq(var("A"), q(var("B"), 1, -1), var("C")),
    seq(var("A"), q(var("B"), 0, -1), var("C")), seq(var("A"), q(var("B"), 0, 1), var("C")), q(var("A"), 2, -1), q(var("A"), 1, 3), q(var("A"), 2, 4),
    seq(var("A"), q(var("B"), 1, 3), var("C")), seq(q(var("A"), 1, -1), var("B")), seq(var("A"), alt(var("B"), var("C"))), seq(var("A"), var("B"), var("C")),
    seq(var("S"), q(var("A"), 1, 3), var("E")),
    # quantified GROUPS: an optional / repeated tail of several variables that starts and then fails leaves the match found so far
    seq(var("A"), q(seq(var("B"), var("C")), 0, 1)), seq(var("A"), q(seq(var("B"), var("C")), 0, -1)), seq(var("A"), q(seq(var("B"), var("C")), 0, 1), var("D")),
    seq(var("A"), q(alt(var("B"), seq(var("C"), var("D"))), 0, 1)), seq(q(seq(var("A"), var("B")), 1, -1), q(var("C"), 0, 1)), seq(var("A"), q(seq(var("B"), var("C")), 1, 2)),
    seq(alt(seq(var("A"), var("B")), var("A")), q(var("C"), 0, 1)),
]
DEFKINDS = [{"k": "gt", "c": 0}, {"k": "gt", "c": 1}, {"k": "lt", "c": 2}, {"k": "up", "c": 0}, {"k": "down", "c": 0}, {"k": "true", "c": 0},
            {"k": "sumle", "c": 3}, {"k": "sumle", "c": 5}, {"k": "cntle", "c": 2}, {"k": "up2", "c": 0}, {"k": "down2", "c": 0}]      # history-dependent: running aggregates over the match so far


def vars_of(p, acc):
    if p["t"] == "var":
        if p["v"] not in acc: acc.append(p["v"])
    elif p["t"] == "q": vars_of(p["p"], acc)
    else:
        for x in p["ps"]: vars_of(x, acc)
    return acc


def first_vars(p):
    t = p["t"]
    if t == "var": return {p["v"]}
    if t == "q": return first_vars(p["p"])
    if t == "alt": return set().union(*[first_vars(x) for x in p["ps"]])
    out = set()
    for x in p["ps"]:
        out |= first_vars(x)
        if not (x["t"] == "q" and x["lo"] == 0): break
    return out


def mk_skipto(rng, nparts):
    """AFTER MATCH SKIP TO FIRST / LAST <var> (SKIP TO <var> = LAST) for PATTERN (A B+) and (A B+ C): A is not defined (every row),
    so the row a match resumes at can start the next match"""
    withc = rng.random() < 0.6
    pat = seq(var("A"), q(var("B"), 1, -1), var("C")) if withc else seq(var("A"), q(var("B"), 1, -1))
    defs = [{"v": "B", "k": "gt", "c": 10000}]
    dsql = ["B AS v > 1"]
    if withc:
        defs.append({"v": "C", "k": "lt", "c": 10000}); dsql.append("C AS v < 1")
    how = rng.choice(["first", "last", "var"])
    skip = "first" if how == "first" else "last"
    stxt = {"first": "SKIP TO FIRST B", "last": "SKIP TO LAST B", "var": "SKIP TO B"}[how]
    part = "g" if nparts > 1 else ""
    sql = "SELECT * FROM stream MATCH_RECOGNIZE (%sORDER BY ts MEASURES MATCH_NUMBER() AS mn, FIRST(id) AS f, LAST(id) AS l, COUNT(*) AS n, FIRST(g) AS g ONE ROW PER MATCH AFTER MATCH %s PATTERN (%s) DEFINE %s)" % (
        "PARTITION BY g " if part else "", stxt, psql(pat), ", ".join(dsql))
    rows = []
    for i in range(rng.choice([6, 8, 10]) * nparts):
        rows.append({"id": i + 1, "ts": i + 1, "g": "p%d" % rng.randrange(nparts), "v": rng.choice([0, 2, 2, 2, 3, 1])})
    # every partition ends with two rows that neither continue nor start a match: no match is still open at Stop (what the flush
    # does with a match that ends at Stop under SKIP TO <var> is noted in DESIGN.md, not claimed)
    n0 = len(rows)
    for pn in range(nparts):
        for k in range(2):
            rows.append({"id": n0 + 2 * pn + k + 1, "ts": n0 + 2 * pn + k + 1, "g": "p%d" % pn, "v": 1})
    meta = {"fam": "cep", "pat": pat, "defs": defs, "skip": skip, "skback": 1 if withc else 0, "part": part}
    return {"meta": meta, "sql": sql, "rows": rows, "stop": True}


def mk_idle(rng):
    """a small WITHIN makes the engine's sweeper run; partitions that sit idle between two bursts keep their MATCH_NUMBER"""
    pat = seq(var("A"), var("B"))
    defs = [{"v": "A", "k": "gt", "c": 10000}, {"v": "B", "k": "lt", "c": 10000}]
    sql = ("SELECT * FROM stream MATCH_RECOGNIZE (PARTITION BY g ORDER BY ts MEASURES MATCH_NUMBER() AS mn, FIRST(id) AS f, LAST(id) AS l, COUNT(*) AS n, FIRST(g) AS g "
           "ONE ROW PER MATCH AFTER MATCH SKIP PAST LAST ROW PATTERN (A B) WITHIN '400ms' DEFINE A AS v > 1, B AS v < 1)")
    ops, rid = [], 0
    for burst in range(rng.choice([2, 3])):
        for g in rng.sample(["p0", "p1", "p2"], rng.choice([2, 3])):
            for _ in range(rng.choice([1, 2])):          # complete (A B) pairs only: nothing is in flight when the partition falls idle
                for v in (rng.choice([2, 3]), 0):
                    rid += 1
                    ops.append({"op": "emit", "row": {"id": rid, "ts": rid, "g": g, "v": v}})
        ops.append({"op": "sleep", "ms": rng.choice([900, 1200])})       # several sweeper periods (200 ms)
    meta = {"fam": "cep", "pat": pat, "defs": defs, "skip": "past", "part": "g"}
    return {"meta": meta, "sql": sql, "ops": ops, "rows": [], "stop": True, "max_gap_ms": 150}


def mk(rng, interleave, nparts):
    pat = rng.choice(PATTERNS)
    vs = vars_of(pat, [])
    fv = first_vars(pat)
    defs, dsql = [], []
    for v in vs:
        d = dict(rng.choice(DEFKINDS))
        while d["k"] in ("up", "down", "up2", "down2") and v in fv:
            d = dict(rng.choice(DEFKINDS))
        if d["k"] == "true": continue
        defs.append({"v": v, "k": d["k"], "c": d["c"] * 10000})
        dsql.append({"gt": "%s AS v > %d" % (v, d["c"]), "lt": "%s AS v < %d" % (v, d["c"]), "up": "%s AS v > PREV(v, 1)" % v, "down": "%s AS v < PREV(v, 1)" % v, "up2": "%s AS v > PREV(v, 2)" % v, "down2": "%s AS v < PREV(v, 2)" % v,
                     "sumle": "%s AS SUM(v) <= %d" % (v, d["c"]), "cntle": "%s AS COUNT(*) <= %d" % (v, d["c"])}[d["k"]])
    if not dsql:
        v = vs[0]; defs.append({"v": v, "k": "gt", "c": 0}); dsql.append("%s AS v > 0" % v)
    skip = rng.choice(["past", "past", "next"])
    part = "g" if nparts > 1 else rng.choice(["", "g"])
    # partition values: texts, small integers, or float64 values that agree in their first six significant digits
    pvals = rng.choice([["p0", "p1", "p2"], ["p0", "p1", "p2"], [7, 8, 9], [{"$f": 100001.5}, {"$f": 100002.5}, {"$f": 100002.25}]])
    sql = "SELECT * FROM stream MATCH_RECOGNIZE (%sORDER BY ts MEASURES MATCH_NUMBER() AS mn, FIRST(id) AS f, LAST(id) AS l, COUNT(*) AS n, FIRST(g) AS g ONE ROW PER MATCH AFTER MATCH %s PATTERN (%s) DEFINE %s)" % (
        "PARTITION BY g " if part else "", "SKIP PAST LAST ROW" if skip == "past" else "SKIP TO NEXT ROW", psql(pat), ", ".join(dsql))
    rows = []
    L = rng.choice([3, 4, 5, 6, 7])
    if interleave:
        for i in range(L * nparts):
            rows.append({"id": i + 1, "ts": i + 1, "g": pvals[rng.randrange(nparts)], "v": rng.choice([0, 1, 1, 2, 3, 2])})
    else:
        i = 0
        for pn in range(nparts):
            for _ in range(L):
                i += 1
                rows.append({"id": i, "ts": i, "g": pvals[pn], "v": rng.choice([0, 1, 1, 2, 3, 2])})
    if rng.random() < 0.3:        # heterogeneous events: some carry no v at all (a status message): for them no condition over v is true
        for r in rows:
            if rng.random() < 0.3:
                del r["v"]
                r["status"] = "alive"
    meta = {"fam": "cep", "pat": pat, "defs": defs, "skip": skip, "part": part}
    return {"meta": meta, "sql": sql, "rows": rows, "stop": True}


def permute(*vs):
    """PERMUTE(A, B, ..): every order of the variables, each exactly once - written PERMUTE in the SQL text, the alternation of all orders for the monitor"""
    return dict(alt(*[seq(*[var(v) for v in o]) for o in itertools.permutations(vs)]), perm=list(vs))


def mk_permute(rng, nparts):
    n = rng.choice([2, 3, 3, 3, 4])
    vs = ["A", "B", "C", "D"][:n]
    pat = rng.choice([permute(*vs), seq(permute(*vs), q(var("E"), 0, 1)), seq(var("S"), permute(*vs))])
    vals = list(range(1, n + 1)); rng.shuffle(vals)
    defs = [{"v": v, "k": "eq", "c": c * 10000} for v, c in zip(vs, vals)]
    dsql = ["%s AS v = %d" % (v, c) for v, c in zip(vs, vals)]
    if "E" in vars_of(pat, []): defs.append({"v": "E", "k": "gt", "c": 0}); dsql.append("E AS v > 0")
    if "S" in vars_of(pat, []): defs.append({"v": "S", "k": "lt", "c": 10000}); dsql.append("S AS v < 1")
    skip = rng.choice(["past", "past", "next"])
    part = "g" if nparts > 1 else rng.choice(["", "g"])
    pvals = ["p0", "p1", "p2"]
    sql = "SELECT * FROM stream MATCH_RECOGNIZE (%sORDER BY ts MEASURES MATCH_NUMBER() AS mn, FIRST(id) AS f, LAST(id) AS l, COUNT(*) AS n, FIRST(g) AS g ONE ROW PER MATCH AFTER MATCH %s PATTERN (%s) DEFINE %s)" % (
        "PARTITION BY g " if part else "", "SKIP PAST LAST ROW" if skip == "past" else "SKIP TO NEXT ROW", psql(pat), ", ".join(dsql))
    rows, i = [], 0
    for pn in range(nparts):
        seqv = []
        for _ in range(rng.choice([1, 2, 2])):       # mostly whole words of the permutation, in a random order, with a stray row now and then
            o = list(range(1, n + 1)); rng.shuffle(o)
            seqv += ([0] if rng.random() < 0.5 else []) + o
        if rng.random() < 0.3: seqv[rng.randrange(len(seqv))] = rng.choice([0, 1, 2, 3])
        for v in seqv:
            i += 1
            rows.append({"id": i, "ts": i, "g": pvals[pn], "v": v})
    meta = {"fam": "cep", "pat": pat, "defs": defs, "skip": skip, "part": part}
    return {"meta": meta, "sql": sql, "rows": rows, "stop": True}


def mk_within_skew(rng):
    """WITHIN with partitions whose clocks disagree: each partition's own timestamps stay well inside WITHIN (so WITHIN cuts nothing), while
    the partitions run hundreds of milliseconds apart and their rows arrive interleaved - a partition's matches are what they are without
    the others (small ordinal timestamps: the wall-clock sweeper does not apply)"""
    sc = mk(rng, True, rng.choice([2, 3]))
    if "PARTITION BY" not in sc["sql"] or "ops" in sc:
        return None
    # epoch milliseconds (small ordinals are compared as raw numbers against WITHIN's nanoseconds): partition clocks 3 h and 6 h apart, WITHIN
    # '1h'; the first partition runs at the wall clock (the engine's sweeper drops runs whose start lies more than WITHIN behind it)
    import time
    now_ms = int(time.time() * 1000)
    bases, nxt = {}, {}
    for r in sc["rows"]:
        g = json.dumps(r["g"])
        if g not in bases:
            bases[g] = now_ms + [0, 3, 6][len(bases) % 3] * 3600 * 1000
            nxt[g] = 0
        nxt[g] += rng.choice([1, 2, 3])
        r["ts"] = bases[g] + nxt[g]
    sc["sql"] = sc["sql"].replace(" DEFINE ", " WITHIN '1h' DEFINE ", 1)
    return sc


def mk_within_cut(rng):
    """WITHIN that cuts: event times a few seconds apart with a jump beyond WITHIN now and then - the match reported for a start is the
    longest word that FITS (its last event at most WITHIN after its first); the event beyond is the start of what follows. Epoch
    timestamps an hour ahead of the wall clock (the engine's sweeper, which works on the wall clock, stays out of it); the monitor reads
    the relative time rt (seconds)"""
    sc = mk(rng, rng.random() < 0.5, rng.choice([1, 2]))
    if "ops" in sc:
        return None
    import time
    base = int(time.time() * 1000) + 3600 * 1000
    W = rng.choice([5, 10])
    clock = {}
    for r in sc["rows"]:
        g = json.dumps(r.get("g"))
        clock[g] = clock.get(g, 0) + (rng.choice([1, 2, 3]) if rng.random() < 0.75 else rng.choice([W - 1, W, W + 1, W + 7, 3 * W]))
        r["rt"] = clock[g]
        r["ts"] = base + clock[g] * 1000
    sc["sql"] = sc["sql"].replace(" DEFINE ", " WITHIN '%ds' DEFINE " % W, 1)
    sc["meta"]["within"] = W
    return sc


def mk_allrows(rng, nparts):
    """ALL ROWS PER MATCH with CLASSIFIER(): patterns in which one row may satisfy the DEFINE of two variables (A B* C with rows that are
    both B and C): whatever classification the engine reports must spell a word of the pattern with every row satisfying ITS variable's
    DEFINE, the match is still the leftmost-longest one, and the running COUNT(B.v) counts the rows classified as B"""
    pat = rng.choice([seq(var("A"), q(var("B"), 0, -1), var("C")), seq(var("A"), q(var("B"), 1, -1), var("C")), seq(var("A"), q(alt(var("B"), var("C")), 1, -1)),
                      seq(var("A"), q(var("B"), 0, -1), var("C")), seq(var("A"), q(var("B"), 1, 4), q(var("C"), 1, 2))])
    ca = rng.choice([3, 4])
    kb = rng.choice([("lt", 5), ("lt", 4), ("sumle", 12), ("sumle", 9), ("cntle", 5)])
    kc = rng.choice([("lt", 3), ("lt", 2), ("lt", 4)])
    defs = [{"v": "A", "k": "gt", "c": ca * 10000}, {"v": "B", "k": kb[0], "c": kb[1] * 10000}, {"v": "C", "k": kc[0], "c": kc[1] * 10000}]
    txt = {"gt": "v > %d", "lt": "v < %d", "sumle": "SUM(v) <= %d", "cntle": "COUNT(*) <= %d"}
    dsql = ["A AS " + txt["gt"] % ca, "B AS " + txt[kb[0]] % kb[1], "C AS " + txt[kc[0]] % kc[1]]
    part = "g" if nparts > 1 else rng.choice(["", "g"])
    sql = ("SELECT * FROM stream MATCH_RECOGNIZE (%sORDER BY ts MEASURES MATCH_NUMBER() AS mn, CLASSIFIER() AS cls, COUNT(B.v) AS nb, FIRST(B.v) AS fb, LAST(B.v) AS lb ALL ROWS PER MATCH AFTER MATCH SKIP PAST LAST ROW PATTERN (%s) DEFINE %s)"
           % ("PARTITION BY g " if part else "", psql(pat), ", ".join(dsql)))
    rows, pv = [], ["p0", "p1", "p2"]
    for i in range(rng.choice([7, 9, 12]) * nparts):
        r = {"id": i + 1, "ts": i + 1, "g": pv[rng.randrange(nparts)], "v": rng.choice([5, 6, 1, 1, 2, 2, 0, 3, 1])}
        if rng.random() < 0.1: del r["v"]
        rows.append(r)
    meta = {"fam": "cep", "pat": pat, "defs": defs, "skip": "past", "part": part, "allrows": 1, "cntvar": "B", "navvar": "B"}
    return {"meta": meta, "sql": sql, "rows": rows, "stop": True, "norename": True}


def run(tier):
    res = vlib.Result("C15", tier)
    rng = random.Random(vlib.seed())
    quick = tier == "quick"
    scen = []
    for i in range(2500 if quick else 100000):
        nparts = [1, 1, 2, 3][i % 4]
        scen.append(mk(rng, interleave=(i % 8 >= 4), nparts=nparts))
    for i in range(300 if quick else 6000):
        scen.append(mk_skipto(rng, [1, 1, 2][i % 3]))
    for i in range(6 if quick else 60):
        scen.append(mk_idle(rng))
    for i in range(250 if quick else 8000):
        scen.append(mk_allrows(rng, [1, 1, 2][i % 3]))
    for i in range(200 if quick else 6000):
        scen.append(mk_permute(rng, [1, 1, 2][i % 3]))
    made = 0
    while made < (200 if quick else 6000):
        sc = mk_within_skew(rng)
        if sc is not None:
            scen.append(sc); made += 1
    made = 0
    while made < (300 if quick else 8000):
        sc = mk_within_cut(rng)
        if sc is not None:
            scen.append(sc); made += 1
    seqfam.run_scenarios(res, scen, "TraceCep", tag="cep", relayout_p=0.3, retype_p=0.3, rename_p=0.3)
    seqfam.run_pinned(res, "TraceCep")
    res.cov["exhaustive"] = False
    res.cov["distinct_nontrivial"] = len({s["sql"] + json.dumps(s["rows"], sort_keys=True) for s in scen})
    res.cov["rule"] = ("seeded (pattern, DEFINE, SKIP rule, stream) cases: %d pattern shapes (sequence, + * ? {n} {n,} {n,m}, alternation, PERMUTE of 2-4 variables) x DEFINE menu x SKIP PAST LAST ROW / TO NEXT ROW x streams of 3-7 rows per partition over v in {0,1,2,3}, "
                       "1-3 partitions, fed one after the other or interleaved, Stop (flush) at the end; distinct = distinct (SQL, rows)") % len(PATTERNS)
    res.assumptions = ASSUME
    for mx in ([7] if quick else [8, 9]):
        cfg = "SPECIFICATION Spec\nCONSTANTS Parts = {1, 2} MaxEv = %d GlobalSeq = FALSE\nINVARIANTS NoSharedRows\nCHECK_DEADLOCK FALSE\n" % mx
        seqfam.model(res, seqfam.SEM, "CepSkip", cfg, "CepSkip", {"Parts": 2, "MaxEv": mx, "GlobalSeq": False})
    # greedy emission (pending candidates, leftmost-first, flush), pattern-agnostic: for EVERY behaviour of the runs (die / extend / extend
    # into an accepting state / complete, one run per start) the matches reported after the flush are the leftmost-longest ones
    mx = 4 if quick else 5
    cfg = "SPECIFICATION Spec\nCONSTANTS MaxEv = %d FixOrder = TRUE KeepPrefix = TRUE\nINVARIANTS LeftmostLongest Disjoint\nCHECK_DEADLOCK FALSE\n" % mx
    seqfam.model(res, seqfam.SEM, "CepPending", cfg, "CepPending", {"MaxEv": mx, "FixOrder": True, "KeepPrefix": True}, timeout=1500)
    return res.finish()


if __name__ == "__main__":
    vlib.main(run)
