"""Window family checks (C01 tumbling, C02 watermark discipline, C08 sliding):
 (M) TLC model-checks the code-shaped model with the contract monitor as invariants,
 (G) TLC enumerates every complete behaviour of the model at small bounds as scenarios,
 (R) the Go driver forces each schedule onto the real engine through the verif gates,
 (V) TLC validates the recorded traces against the contract monitor (TraceWin)."""
import json, os, random, sys
sys.path.insert(0, os.path.join(os.path.dirname(os.path.abspath(__file__)), "..", "lib"))
import vlib

SPEC = os.path.join(vlib.VERIF, "spec", "win")
MODULE = {"tumbling": "Tumbling", "sliding": "Sliding", "session": "Session"}
MONITOR = {"tumbling": "TraceWin", "sliding": "TraceWin", "session": "TraceSession"}
UNITS = [1000, 3500, 700, 13000, 250, 1, 1]      # 1 ms per tick: window boundaries and watermarks one millisecond apart   # ms per tick: also sizes that are not divisors of a minute


def consts(kind, c, emit, prop=None):
    if kind == "session":
        kd = vlib.known_devs(prop) if prop else {}
        return "T = %d MOO = %d AL = %d MaxTs = %d MaxEv = %d Keys = {\"a\",\"b\"} ChanCap = 100 LateAnyKey = FALSE KeepOlder = TRUE OnlyLate = %s DevMerge = %s DevStart = %s Emit = %s" % (
            c["size"], c["moo"], c["al"], c["maxts"], c["maxev"], "TRUE" if c.get("onlylate") else "FALSE", "TRUE" if "SessionMergeAcrossGap" in kd else "FALSE",
            "TRUE" if "SessionStartFirstArrival" in kd else "FALSE", "TRUE" if emit else "FALSE")
    s = "Size = %d MOO = %d AL = %d MaxTs = %d MaxEv = %d ChanCap = %d Reanchor = TRUE Emit = %s" % (
        c["size"], c["moo"], c["al"], c["maxts"], c["maxev"], c.get("chancap", 100), "TRUE" if emit else "FALSE")
    if kind == "sliding":
        s += " Slide = %d LateAll = TRUE RegisterEarly = %s LateAtomic = %s" % (c["slide"], "FALSE" if c.get("register_late") else "TRUE", "FALSE" if c.get("late_one_by_one") else "TRUE")
    return s


def model_check(res, kind, c, workers=8, timeout=900):
    invs = "DeliveriesOK NoOnTimeLoss WmOK ImplOK" + (" NotBeforeS0 LateRedelivered" if kind == "sliding" else "")
    cfg = "SPECIFICATION Spec\nCONSTANTS %s\nINVARIANTS %s\nPROPERTY WmMonotone\nVIEW View\nCHECK_DEADLOCK FALSE\n" % (consts(kind, c, False, res.prop), invs)
    if kind == "session":
        cfg = "SPECIFICATION Spec\nCONSTANTS %s\nINVARIANTS DeliveriesOK NoLoss NoSplit WmOK NoLateDrop\nVIEW View\nCHECK_DEADLOCK FALSE\n" % consts(kind, c, False, res.prop)
    if c["al"] > 0 and kind in ("tumbling", "sliding") and "LateUpdateOvertakes" in vlib.known_devs(res.prop):
        cfg = cfg.replace("INVARIANTS DeliveriesOK", "INVARIANTS OneFirstFiring DeliveriesOKDev")
    r = vlib.tlc(SPEC, MODULE[kind], cfg, workers=workers, timeout=timeout)
    res.add_model(MODULE[kind], r, dict(c, kind=kind))
    if not r["ok"]:
        if r["violated"]:
            res.notes.append("MODEL-COUNTEREXAMPLE %s %s: invariant %s fails in the model; decided by replaying the generated behaviours on the real engine" % (kind, c, r["violated"]))
        else:
            raise vlib.Inconclusive("TLC failed on %s %s:\n%s" % (kind, c, r.get("error", r["out"][-2000:])))
    return r


def generate(res, kind, c, timeout=900):
    cfg = "SPECIFICATION Spec\nCONSTANTS %s\nINVARIANTS EmitScenario\nCHECK_DEADLOCK FALSE\n" % consts(kind, c, True, res.prop)
    r = vlib.tlc(SPEC, MODULE[kind], cfg, workers=1, timeout=timeout)
    if not r["ok"]:
        raise vlib.Inconclusive("scenario generation failed:\n" + r["out"][-2000:])
    return [json.loads(x[1]) for x in vlib.prints(r["out"], "SCEN")], r["distinct"], r["generated"]


def mkcfg(kind, c, rng):
    cfg = mkcfg0(kind, c, rng)
    if c.get("twocol"):
        cfg["twocol"] = True
    if rng.random() < 0.25:
        cfg["floatts"] = True       # timestamps handed in as float64 (JSON): the same instants, the same windows
    return cfg


def fit_ahead(sc):
    """an event time running 20 h ahead of the wall clock leaves under 4 h of room below the engine's 24 h future guard: a scenario whose
    timestamps span more than 3 h runs with the ordinary time base (otherwise its last rows ARE far-future garbage and are rightly ignored)"""
    cfg = sc["cfg"]
    if cfg.get("ahead"):
        top = max([st.get("ts", 0) for st in sc["steps"] if st.get("a") == "add"] or [0])
        if top * cfg["unit"] > 3 * 3600 * 1000:
            cfg["ahead"] = False
    return sc


def mkcfg0(kind, c, rng):
    unit = rng.choice(UNITS)
    period = c["size"] * c.get("slide", 1)
    base_ms = 1_700_000_000_000
    k = rng.random()
    base = (base_ms // (unit * period)) * period if k < 0.7 else 0
    if k > 0.92:
        base = -1000 * period          # timestamps before 1970 (negative epoch values): intervals align downward there too
    return {"kind": kind, "size": c["size"], "slide": c.get("slide", 0), "moo": c["moo"], "al": c["al"],
            "unit": unit, "groups": rng.choice([1, 2, 2, 3]), "base": base, "ahead": rng.random() < 0.15}


def random_free(kind, c, rng, n):
    """free-running scenario: jittered, mostly increasing timestamps, duplicates and boundaries"""
    if c.get("manyintervals"):
        # rows spread over one long window span, then ONE far row: a single watermark step passes the end of several hundred intervals
        steps = [{"a": "add", "id": i + 1, "ts": t} for i, t in enumerate(sorted(rng.sample(range(0, c["size"]), min(40, c["size"]))))]
        steps.append({"a": "add", "id": len(steps) + 1, "ts": 20 * c["size"]})
        return steps
    if c.get("manykeys"):
        # many keys with one short session each, all closed by ONE watermark step (a far event of a fresh key), then once more
        steps, i = [], 0
        for rnd in range(2):
            t0 = rnd * (10 * c["size"] + 2 * c["moo"] + 5)
            for k in range(c["manykeys"]):
                for _ in range(rng.choice([1, 1, 2])):
                    i += 1
                    steps.append({"a": "add", "id": i, "ts": t0 + rng.randint(0, c["size"] - 1), "g": "k%d" % k})
            i += 1
            steps.append({"a": "add", "id": i, "ts": t0 + 6 * c["size"] + c["moo"] + 2, "g": "closer%d" % rnd})
        return steps
    steps, t = [], rng.randint(0, 3 * c["size"])
    for i in range(1, n + 1):
        r = rng.random()
        if r < 0.55:
            t += rng.randint(0, 2)
        elif r < 0.7:
            t += rng.randint(c["size"], 3 * c["size"])
        jitter = rng.randint(0, c["moo"] + (2 if rng.random() < 0.2 else 0))
        if rng.random() < c.get("latep", 0):        # a row well behind the watermark: late for one of the last fired windows, most of them inside the allowance
            jitter = rng.randint(c["moo"] + 1, c["moo"] + c["al"] + 1)
        ts = max(0, t - jitter)
        st = {"a": "add", "id": i, "ts": ts}
        if kind == "session":
            st["g"] = rng.choice(["a", "b", "c"][:c.get("keys", 2)])
            if c.get("nullkeys"):    # the NULL key (column NULL or absent) and the empty text are two keys like any other
                st["g"] = rng.choice(["\\N", "\\E", "\\M", "\\E", "\\N", "a"])
            if c.get("twocol"):      # two grouping columns: keys that agree in the first column are different keys
                st["g"] = rng.choice(["a/R1", "a/R2", "b/R1", "a/R1"])
        if c.get("mtrig") and rng.random() < c["mtrig"]:
            steps.append({"a": "mtrig"})          # the application flushes the window by hand
        if rng.random() < 0.04:
            st["fut"] = 1
        steps.append(st)
    return steps


def run_family(prop, tier, plan, free_plan, assumptions, mc_extra=(), post=None, idle_plan=(), scope=()):
    import time
    res = vlib.Result(prop, tier)
    tm = {}
    t0 = time.time()
    rng = random.Random(vlib.seed())
    vh = vlib.build_vh()
    sc_path = os.path.join(vlib.scratch(), "scen.ndjson")
    tr_path = os.path.join(vlib.scratch(), "trace.ndjson")
    scen = {}
    n = 0
    sampled = False
    from concurrent.futures import ThreadPoolExecutor
    scratch0 = vlib.scratch()          # create the scratch dir before the threads start
    with ThreadPoolExecutor(max_workers=6) as ex:      # one TLC (1 worker: deterministic print order) per configuration, side by side
        futs = [ex.submit(generate, res, kind, c) for kind, c in plan]
        gen = []
        for f in futs:
            steps_list, nd, ng = f.result()
            res.cov["states"] += nd
            res.cov["transitions"] += ng
            gen.append(steps_list)
    with open(sc_path, "w") as f:
        for (kind, c), steps_list in zip(plan, gen):
            cap = c.get("cap")
            if cap and len(steps_list) > cap:
                steps_list = rng.sample(steps_list, cap)
                sampled = True
            for steps in steps_list:
                n += 1
                if c.get("closer") and rng.random() < 0.5:
                    # the model's behaviour, step by step, and then the engine runs free: one more row far enough ahead passes the
                    # watermark over every window of the earlier rows (whatever the forced schedule left behind must still come out)
                    nid = len([st for st in steps if st["a"] == "add"]) + 1
                    steps = steps + [{"a": "freerun"}, {"a": "add", "id": nid, "ts": c["maxts"] + c["size"] + c["moo"] + 1}]
                sc = fit_ahead({"tr": n, "cfg": mkcfg(kind, c, rng), "steps": steps, "free": False})
                scen[n] = sc
                f.write(json.dumps(sc) + "\n")
        for kind, c, count, length in free_plan:
            for _ in range(count):
                n += 1
                sc = fit_ahead({"tr": n, "cfg": mkcfg(kind, c, rng), "steps": random_free(kind, c, rng, length), "free": True})
                if c.get("perf"):
                    sc["perf"] = c["perf"]      # overflow strategy / buffer sizes / slowed consumer
                scen[n] = sc
                f.write(json.dumps(sc) + "\n")
        # bursts: the producer outruns the trigger goroutine (held at its gate) by more watermark advances than the
        # watermark channel holds (100); the tail windows must still fire once it is released
        for kind, c, _count, _length in free_plan[:2]:
            for _ in range(3):
                n += 1
                steps, t = [], 0
                for i in range(1, rng.choice([130, 160, 220]) + 1):
                    t += rng.choice([1, 1, 2])
                    st = {"a": "add", "id": i, "ts": t}
                    if kind == "session":
                        st["g"] = "k%d" % (i % 7)
                    steps.append(st)
                cfg = mkcfg(kind, dict(c, al=0), rng)
                cfg["ahead"] = False
                sc = {"tr": n, "cfg": cfg, "steps": steps, "free": True, "burst": True}
                scen[n] = sc
                f.write(json.dumps(sc) + "\n")
    tm["generate"] = round(time.time() - t0, 1); t0 = time.time()
    # IDLETIMEOUT: a live source (rows keep arriving, most of them below the maximum seen so far) must not be declared idle;
    # once the feed stops, the idle timeout may flush the open windows
    with open(sc_path, "a") as f:
        for kind, c, count in idle_plan:
            for _ in range(count):
                n += 1
                idle = rng.choice([120, 150, 200])
                gap = rng.choice([20, 30, 40])
                top = rng.randint(3, c["size"] - 1)
                steps = [{"a": "add", "id": 1, "ts": top}]
                for i in range(2, int(3.5 * idle / gap) + 2):
                    ts = rng.randint(0, top) if rng.random() < 0.85 else top + rng.choice([0, 1])
                    if kind == "session":
                        ts = rng.randint(max(0, top - c["moo"]), top) if rng.random() < 0.9 else top + 1     # ties and in-bound stragglers of several keys
                    top = max(top, ts)
                    steps.append({"a": "add", "id": i, "ts": ts, "gap": gap})
                if kind != "session" and top < c["size"] - 1 and rng.random() < 0.7:
                    # the source resumes after the idle flush with rows ABOVE every earlier timestamp but inside the flushed interval:
                    # they are behind the (wall-clock) watermark, hence late - the interval is not reported a second time
                    steps.append({"a": "idlewait"})
                    for k in range(rng.choice([1, 2, 3])):
                        if top < c["size"] - 1:
                            top += 1
                            steps.append({"a": "add", "id": len([s_ for s_ in steps if s_["a"] == "add"]) + 1, "ts": top, "gap": gap})
                if kind == "session":
                    for st in steps:
                        st["g"] = rng.choice(["a", "b", "c"])
                cfg = mkcfg(kind, dict(c, al=0), rng)
                # event time close behind the wall clock (the idle flush advances the watermark to now - MOO and the engine then
                # steps through every window up to it): the scenario's windows end 15-25 s before now
                import time as _t
                period = c["size"] * max(1, c.get("slide", 1))
                cfg.update(idle=idle, ahead=False, unit=1000, base=((int(_t.time()) - 25) // period) * period)
                sc = {"tr": n, "cfg": cfg, "steps": steps, "free": True}
                scen[n] = sc
                f.write(json.dumps(sc) + "\n")
    rc, out = vlib.sh([vh, "win", "-scen", sc_path, "-out", tr_path, "-par", "16"], 1500)
    if rc != 0:
        raise vlib.Inconclusive("driver failed:\n" + out[-3000:])
    tm["replay"] = round(time.time() - t0, 1); t0 = time.time()
    inc = [l for l in out.splitlines() if l.startswith("INCONCLUSIVE")]
    drift = [l for l in out.splitlines() if l.startswith("DRIFT")]
    if drift:
        res.notes.append("MODEL-DRIFT: %d scenarios could not be forced onto the engine step by step and were re-run free of gates (first: %s)" % (len(drift), drift[0]))
        print("MODEL-DRIFT: %d scenarios re-run free-running (first: %s)" % (len(drift), drift[0]))
    if len(inc) > max(3, n // 50):
        raise vlib.Inconclusive("%d of %d scenarios inconclusive, e.g. %s" % (len(inc), n, inc[0]))
    mon = MONITOR[plan[0][0] if plan else free_plan[0][0]]
    rej, _, nlines = vlib.validate(SPEC, mon, tr_path, set(scope))
    if rej:
        kd = vlib.known_devs(prop)
        rej2, devs, _ = vlib.validate(SPEC, mon, tr_path, set(kd) | set(scope))
        still = {r[0] for r in rej2}
        cnt = {}
        for tr, _, d in devs:
            if tr not in still and d in kd:
                cnt.setdefault(d, set()).add(tr)
        for d, trs in cnt.items():
            res.known[d] = len(trs)
        seen = set()
        for tr, line, code in rej2:
            if tr in seen:
                continue
            seen.add(tr)
            res.violation("%s at trace line %d of scenario %d" % (code, line, tr), scen.get(tr))
    tm["validate"] = round(time.time() - t0, 1); t0 = time.time()
    impl_binding(res, plan, scen, tr_path)
    tm["impl_binding"] = round(time.time() - t0, 1); t0 = time.time()
    res.cov["phase_seconds"] = tm
    res.cov["traces_validated_against_impl"] = n - len(inc)
    res.cov["evaluations"] = n
    res.cov["trace_events"] = nlines
    res.cov["distinct_nontrivial"] = len({json.dumps(s["steps"], sort_keys=True) + s["cfg"]["kind"] + str(s["cfg"]["moo"]) + str(s["cfg"]["al"]) for s in scen.values() if len(s["steps"]) > 1})
    res.cov["rule"] = ("scenarios = every complete behaviour (Add/Trig/Send interleaving) of the TLA+ window model at the stated constants, "
                       "replayed with the same interleaving on the real engine through verif gates, plus seeded free-running inputs; "
                       "distinct = distinct step sequences with more than one step")
    res.cov["samples"] = [scen[k] for k in sorted(scen)[:2]] + ([scen[n]] if n > 2 else [])
    res.cov["exhaustive"] = not sampled
    res.cov["plan"] = [dict(c, kind=k) for k, c in plan]
    res.assumptions = assumptions
    for kind, c in plan:
        mc = dict(c)
        mc.update(c.get("mc", {}))
        model_check(res, kind, mc)
    for kind, c in mc_extra:      # model-only configurations (e.g. a watermark channel of capacity 1: drop + ticker retry)
        model_check(res, kind, c)
    if post:
        post(res, rng, vh, scen)
    return res.finish()


IMPL = {"tumbling": "TraceTumblingImpl", "sliding": "TraceSlidingImpl", "session": "TraceSessionImpl"}


def impl_binding(res, plan, scen, tr_path):
    """State-level binding of the code-shaped models (TraceTumblingImpl / TraceSlidingImpl): the model's own actions are stepped through
    the traces of the forced replays and the state reported by the hooks from inside the engine (rows buffered, current slot, windows
    open for late rows, rows of a firing, watermark of a completed pass) as well as every delivery must be the model's. One TLC run per
    model configuration. A mismatch is MODEL-DRIFT: a note, never a verdict."""
    from concurrent.futures import ThreadPoolExecutor
    cfgs = {}
    for kind, c in plan:
        if kind in IMPL and os.path.exists(os.path.join(SPEC, IMPL[kind] + ".tla")):
            cfgs[(kind, c["size"], c.get("slide", 0), c["moo"], c["al"])] = c
    if not cfgs:
        return
    # the traces of each configuration, in a file of their own
    want = {}
    for n, sc in scen.items():
        if sc.get("free"):
            continue
        k = (sc["cfg"]["kind"], sc["cfg"]["size"], sc["cfg"].get("slide", 0), sc["cfg"]["moo"], sc["cfg"]["al"])
        if k in cfgs:
            want[n] = k
    files = {k: open(os.path.join(vlib.scratch(), "impl_%s_%d_%d_%d_%d.ndjson" % k), "w") for k in cfgs}
    for line in open(tr_path):
        m = line.find('"tr":')
        if m < 0:
            continue
        j = m + 5
        while line[j] in " ":
            j += 1
        e = j
        while line[e].isdigit():
            e += 1
        k = want.get(int(line[j:e]))
        if k:
            files[k].write(line)
    for f in files.values():
        f.close()

    def one(k):
        kind, size, slide, moo, al = k
        consts = "Size = %d MOO = %d AL = %d MaxTs = 99 MaxEv = 12 ChanCap = 100 Reanchor = TRUE Emit = FALSE Dev = {}" % (size, moo, al)
        if kind == "sliding":
            consts += " Slide = %d LateAll = TRUE RegisterEarly = TRUE LateAtomic = TRUE" % slide
        if kind == "session":
            consts = "T = %d MOO = %d AL = %d MaxTs = 99 MaxEv = 12 Keys = {\"a\",\"b\"} ChanCap = 100 LateAnyKey = FALSE KeepOlder = TRUE OnlyLate = FALSE DevMerge = TRUE DevStart = TRUE Emit = FALSE Dev = {}" % (size, moo, al)
        cfg = "SPECIFICATION Spec0\nCONSTANTS %s\nPOSTCONDITION AllConsumed\nCHECK_DEADLOCK FALSE\n" % consts
        path = os.path.join(vlib.scratch(), "impl_%s_%d_%d_%d_%d.ndjson" % k)
        if os.path.getsize(path) == 0:
            return k, None
        return k, vlib.tlc(SPEC, IMPL[kind], cfg, env={"TRACE_FILE": path}, workers=1, timeout=900)
    bound, drift = 0, []
    with ThreadPoolExecutor(max_workers=6) as ex:
        for k, r in ex.map(one, list(cfgs)):
            if r is None:
                continue
            if not r["ok"]:
                res.notes.append("state binding of %s %s did not complete (no verdict depends on it): %s" % (k[0], k[1:], r["out"][-300:].replace("\n", " ")))
                continue
            bound += len(vlib.prints(r["out"], "BOUND"))
            drift += [(k, x[1], x[2], x[3]) for x in vlib.prints(r["out"], "DRIFT")]
    res.cov["impl_bound_traces"] = bound
    res.cov["impl_drifted_traces"] = len(drift)
    if drift:
        res.notes.append("MODEL-DRIFT (state binding): in %d of %d forced replays the engine's reported state left the model's, first: %s" % (len(drift), bound + len(drift), drift[0]))
        print("MODEL-DRIFT (state binding): %d traces, first %s" % (len(drift), drift[0]))
    else:
        res.notes.append("state binding: in all %d forced replays the state reported from inside the engine (rows buffered, current slot, open windows, firing, pass watermark) and every delivery equal the code-shaped model's after each step" % bound)


def session_late_stage(res, rng, vh, scen, plan, free_plan):
    """C02 applied to event-time SESSION windows: behaviours of the Session model with ALLOWEDLATENESS > 0 and seeded
    free-running inputs, replayed on the real engine, validated by TraceSessionLate (no early firing; late events only into
    the key's own fired session while it is within the allowance, re-delivered as previous contents plus the event)."""
    from concurrent.futures import ThreadPoolExecutor
    with ThreadPoolExecutor(max_workers=4) as ex:
        gen = [f.result() for f in [ex.submit(generate, res, kind, c) for kind, c in plan]]
    sc_path = os.path.join(vlib.scratch(), "sl_scen.ndjson")
    tr_path = os.path.join(vlib.scratch(), "sl_trace.ndjson")
    base = max(scen) if scen else 0
    mine = {}
    with open(sc_path, "w") as f:
        for (kind, c), (steps_list, nd, ng) in zip(plan, gen):
            res.cov["states"] += nd
            res.cov["transitions"] += ng
            if c.get("cap") and len(steps_list) > c["cap"]:
                steps_list = rng.sample(steps_list, c["cap"])
            for steps in steps_list:
                base += 1
                mine[base] = {"tr": base, "cfg": mkcfg(kind, c, rng), "steps": steps, "free": False}
                f.write(json.dumps(mine[base]) + "\n")
        for kind, c, count, length in free_plan:
            for _ in range(count):
                base += 1
                mine[base] = fit_ahead({"tr": base, "cfg": mkcfg(kind, c, rng), "steps": random_free(kind, c, rng, length), "free": True})
                f.write(json.dumps(mine[base]) + "\n")
    rc, out = vlib.sh([vh, "win", "-scen", sc_path, "-out", tr_path, "-par", "16"], 1500)
    if rc != 0:
        raise vlib.Inconclusive("driver failed (session late stage):\n" + out[-3000:])
    inc = [l for l in out.splitlines() if l.startswith("INCONCLUSIVE")]
    if len(inc) > max(3, len(mine) // 50):
        raise vlib.Inconclusive("%d of %d session scenarios inconclusive, e.g. %s" % (len(inc), len(mine), inc[0]))
    kd = vlib.known_devs(res.prop)
    rej, devs, nlines = vlib.validate(SPEC, "TraceSessionLate", tr_path, set(kd))
    still = {r[0] for r in rej}
    cnt = {}
    for tr, _, d in devs:
        if tr not in still and d in kd:
            cnt.setdefault(d, set()).add(tr)
    for d, trs in cnt.items():
        res.known[d] = res.known.get(d, 0) + len(trs)
    seen = set()
    for tr, line, code in rej:
        if tr in seen:
            continue
        seen.add(tr)
        res.violation("session windows: %s at trace line %d of scenario %d" % (code, line, tr), mine.get(tr))
    res.cov["traces_validated_against_impl"] += len(mine) - len(inc)
    res.cov["evaluations"] += len(mine)
    res.cov["trace_events"] += nlines
    res.notes.append("session windows under C02: %d scenarios (model behaviours with ALLOWEDLATENESS > 0 + free-running), monitor TraceSessionLate" % len(mine))
    for kind, c in plan:
        mc = dict(c)
        mc.update(c.get("mc", {}))
        model_check(res, kind, mc)


def proc_stage(res, rng, vh, scen, size=2, maxnow=5, maxev=3, nmodel=120, nfree=12, mc=None):
    """Processing-time tumbling window (the default time characteristic): model check ProcTumbling, replay its
    behaviours in real time with the timer goroutine gated (lagging / coalesced ticks), plus free-running inputs;
    every trace is validated by TraceProc (each row exactly once, in an epoch-aligned interval containing its arrival)."""
    mc = mc or dict(size=size, maxnow=maxnow + 3, maxev=maxev + 1)
    for keep in ["next"]:
        cfg = ("SPECIFICATION Spec\nCONSTANTS Size = %d MaxNow = %d MaxEv = %d Emit = FALSE KeepFrom = \"%s\" MaxManual = 0 TickGuard = TRUE\n"
               "INVARIANTS NoLoss ExactlyOnce NoRepeat OnGrid SlotBehind ExcusedOnlyManual\nVIEW View\nCHECK_DEADLOCK FALSE\n" % (mc["size"], mc["maxnow"], mc["maxev"], keep))
        r = vlib.tlc(SPEC, "ProcTumbling", cfg, workers=8, timeout=900)
        res.add_model("ProcTumbling", r, dict(mc, kind="proctumbling"))
        if not r["ok"]:
            if r["violated"]:
                res.notes.append("MODEL-COUNTEREXAMPLE proctumbling: invariant %s fails in the model; decided by the replay" % r["violated"])
            else:
                raise vlib.Inconclusive("TLC failed on ProcTumbling:\n" + r.get("error", r["out"][-2000:]))
    # TriggerWindow() by the application (one call anywhere): the interval it ends early is reported once, rows are behind the cursor only
    # in the rest of THAT interval, every later interval stays complete and on the grid (TickGuard = the code since repair bfbef07)
    cfg = ("SPECIFICATION Spec\nCONSTANTS Size = %d MaxNow = %d MaxEv = %d Emit = FALSE KeepFrom = \"next\" MaxManual = 1 TickGuard = TRUE\n"
           "INVARIANTS NoLoss ExactlyOnce NoRepeat OnGrid ExcusedOnlyManual\nVIEW View\nCHECK_DEADLOCK FALSE\n" % (mc["size"], mc["maxnow"], mc["maxev"]))
    r = vlib.tlc(SPEC, "ProcTumbling", cfg, workers=8, timeout=900)
    res.add_model("ProcTumbling", r, dict(mc, kind="proctumbling", manual=1))
    if not r["ok"]:
        if r["violated"]:
            res.notes.append("MODEL-COUNTEREXAMPLE proctumbling (manual trigger): invariant %s fails in the model; decided by the replay" % r["violated"])
        else:
            raise vlib.Inconclusive("TLC failed on ProcTumbling (manual trigger):\n" + r.get("error", r["out"][-2000:]))
    cfg = ("SPECIFICATION Spec\nCONSTANTS Size = %d MaxNow = %d MaxEv = %d Emit = TRUE KeepFrom = \"next\" MaxManual = 0 TickGuard = TRUE\nINVARIANTS EmitScenario\nCHECK_DEADLOCK FALSE\n"
           % (size, maxnow, maxev))
    r = vlib.tlc(SPEC, "ProcTumbling", cfg, workers=1, timeout=900)
    if not r["ok"]:
        raise vlib.Inconclusive("ProcTumbling scenario generation failed:\n" + r["out"][-2000:])
    res.cov["states"] += r["distinct"]
    res.cov["transitions"] += r["generated"]
    beh = [json.loads(x[1]) for x in vlib.prints(r["out"], "SCEN")]
    total = len(beh)
    if len(beh) > nmodel:
        beh = rng.sample(beh, nmodel)
        res.cov["exhaustive"] = False
    sc_path = os.path.join(vlib.scratch(), "proc_scen.ndjson")
    tr_path = os.path.join(vlib.scratch(), "proc_trace.ndjson")
    base = max(scen) if scen else 0
    mine = {}
    with open(sc_path, "w") as f:
        for steps in beh:
            base += 1
            sc = {"tr": base, "size_ms": rng.choice([60, 80, 100]), "ticks": size, "groups": rng.choice([1, 2, 3]), "free": False, "steps": steps}
            mine[base] = sc
            f.write(json.dumps(sc) + "\n")
        for _ in range(nfree):
            base += 1
            steps = []
            for i in range(1, rng.choice([20, 40, 80]) + 1):
                steps.append({"a": "add", "id": i})
                g = rng.choice([0, 0, 50, 300, 2000, 9000, 30000, 70000])
                if g:
                    steps.append({"a": "sleep", "gap": g})
            sc = {"tr": base, "size_ms": rng.choice([20, 35, 50, 80]), "ticks": 0, "groups": rng.choice([1, 2, 3]), "free": True, "steps": steps}
            mine[base] = sc
            f.write(json.dumps(sc) + "\n")
        # TriggerWindow() in the middle of an interval (no further row until that interval is over): the intervals after it are
        # still reported complete, each once, none of them before its rows are in
        for _ in range(max(3, nfree // 3)):
            base += 1
            size_ms = rng.choice([60, 80, 120])
            steps, i = [], 0
            for _k in range(rng.choice([1, 2, 4])):
                i += 1
                steps.append({"a": "add", "id": i})
            steps.append({"a": "sleep", "gap": rng.choice([0, 5000, 20000])})
            steps.append({"a": "mtrig"})
            steps.append({"a": "sleep", "gap": size_ms * 1000})
            for _k in range(rng.choice([12, 20, 30])):
                i += 1
                steps.append({"a": "add", "id": i})
                steps.append({"a": "sleep", "gap": rng.choice([2000, 10000, 25000, 40000])})
            sc = {"tr": base, "size_ms": size_ms, "ticks": 0, "groups": rng.choice([1, 2]), "free": True, "steps": steps}
            mine[base] = sc
            f.write(json.dumps(sc) + "\n")
        # a consumer that is busy for several intervals (its sink sleeps on the first delivery): results of the intervals that end meanwhile wait in
        # the window's output queue, empty intervals pass - every result still carries ITS interval when it is finally delivered
        for _ in range(max(3, nfree // 3)):
            base += 1
            size_ms = rng.choice([40, 60, 80])
            steps, i = [], 0
            for _k in range(rng.choice([2, 3])):            # rows in two or three consecutive intervals, then silence
                for _j in range(rng.choice([1, 2, 3])):
                    i += 1
                    steps.append({"a": "add", "id": i})
                steps.append({"a": "sleep", "gap": size_ms * 1000})
            steps.append({"a": "sleep", "gap": 4 * size_ms * 1000})
            i += 1
            steps.append({"a": "add", "id": i})
            sc = {"tr": base, "size_ms": size_ms, "ticks": 0, "groups": rng.choice([1, 2]), "free": True, "steps": steps, "sinkstall_ms": int(size_ms * rng.choice([2.5, 3.5]))}
            mine[base] = sc
            f.write(json.dumps(sc) + "\n")
        # a manual trigger and then one row queue up behind a reader that holds the window lock across an interval boundary
        for _ in range(max(3, nfree // 3)):
            base += 1
            size_ms = rng.choice([40, 60, 80])
            steps = [{"a": "add", "id": 1}, {"a": "lockrace", "id": 2}, {"a": "sleep", "gap": size_ms * 1000}]
            i = 2
            for _k in range(rng.choice([3, 6])):
                i += 1
                steps.append({"a": "add", "id": i})
                steps.append({"a": "sleep", "gap": rng.choice([5000, 20000])})
            sc = {"tr": base, "size_ms": size_ms, "ticks": 0, "groups": 1, "free": True, "steps": steps}
            mine[base] = sc
            f.write(json.dumps(sc) + "\n")
    rc, out = vlib.sh([vh, "proc", "-scen", sc_path, "-out", tr_path, "-par", "24"], 1500)
    if rc != 0:
        raise vlib.Inconclusive("proc driver failed:\n" + out[-3000:])
    inc = [l for l in out.splitlines() if l.startswith("INCONCLUSIVE")]
    if len(inc) > max(3, len(mine) // 20):
        raise vlib.Inconclusive("%d of %d processing-time scenarios inconclusive, e.g. %s" % (len(inc), len(mine), inc[0]))
    m = [l for l in out.splitlines() if l.startswith("RAN")]
    res.notes.append("processing-time tumbling: %d of %d model behaviours replayed in real time + %d free-running; %s" % (len(beh), total, nfree, m[0] if m else ""))
    rej, _, nlines = vlib.validate(SPEC, "TraceProc", tr_path, set())
    seen = set()
    for tr, line, code in rej:
        if tr in seen:
            continue
        seen.add(tr)
        res.violation("processing-time tumbling: %s at trace line %d of scenario %d" % (code, line, tr), mine.get(tr))
    res.cov["traces_validated_against_impl"] += len(mine) - len(inc)
    res.cov["evaluations"] += len(mine)
    res.cov["trace_events"] += nlines


def replay_one(sc, prop=None):
    vh = vlib.build_vh()
    if "size_ms" in sc:          # processing-time scenario
        sp = os.path.join(vlib.scratch(), "one.ndjson")
        tp = os.path.join(vlib.scratch(), "one.trace")
        open(sp, "w").write(json.dumps(dict(sc, tr=1)) + "\n")
        rc, out = vlib.sh([vh, "proc", "-scen", sp, "-out", tp], 120)
        print(out.strip())
        print(open(tp).read())
        return vlib.validate(SPEC, "TraceProc", tp, set())[0]
    sp = os.path.join(vlib.scratch(), "one.ndjson")
    tp = os.path.join(vlib.scratch(), "one.trace")
    sc = dict(sc, tr=1)
    open(sp, "w").write(json.dumps(sc) + "\n")
    rc, out = vlib.sh([vh, "win", "-scen", sp, "-out", tp], 120)
    print(out.strip())
    print(open(tp).read())
    mon = "TraceWin"
    if sc.get("cfg", {}).get("kind") == "session":
        mon = "TraceSessionLate" if prop == "C02" else "TraceSession"
    rej, _, _ = vlib.validate(SPEC, mon, tp, set(vlib.known_devs(prop)) if prop else set())
    return rej


def proc_sliding_stage(res, rng, vh, scen, quick=True):
    """Processing-time SLIDING window (the default time characteristic; outside the letter of C08, same contract with arrival
    times): model check ProcSliding (the repaired Trigger: the cursor advances on every tick; the variant before the repair violates
    Timely and is reported as a note), then free-running real-time inputs - seeded bursts and pauses, plus inputs with an idle
    period of 1.5 s - validated by TraceProcSliding: a row is in every interval that certainly contains its arrival bracket and in no
    interval that cannot contain it, intervals in order and once, and (idle scenarios) a result follows its interval's end closely."""
    for adv in ("TRUE", "FALSE"):
        cfg = ("SPECIFICATION Spec\nCONSTANTS Size = 2 Slide = 1 MaxNow = %d MaxEv = %d Emit = FALSE AdvanceWhenEmpty = %s\n"
               "INVARIANTS Placed NoRepeat NoLoss Timely\nVIEW View\nCHECK_DEADLOCK FALSE\n" % (7 if quick else 9, 3 if quick else 4, adv))
        r = vlib.tlc(SPEC, "ProcSliding", cfg, workers=8, timeout=900)
        if adv == "TRUE":
            res.add_model("ProcSliding", r, dict(size=2, slide=1, kind="procsliding"))
            if not r["ok"]:
                if r["violated"]:
                    res.notes.append("MODEL-COUNTEREXAMPLE procsliding: invariant %s fails in the model; decided by the replay" % r["violated"])
                else:
                    raise vlib.Inconclusive("TLC failed on ProcSliding:\n" + r.get("error", r["out"][-2000:]))
        else:
            res.notes.append("ProcSliding with AdvanceWhenEmpty = FALSE (Trigger before repair 038656f): TLC reports %s" % (r["violated"] or "no violation"))
    sc_path = os.path.join(vlib.scratch(), "psl_scen.ndjson")
    tr_path = os.path.join(vlib.scratch(), "psl_trace.ndjson")
    base = max(scen) if scen else 0
    mine = {}
    with open(sc_path, "w") as f:
        for k in range(16 if quick else 120):
            base += 1
            slide = rng.choice([50, 80, 100])
            n = rng.choice([2, 2, 3])
            steps, i = [], 0
            for _ in range(rng.choice([6, 10, 16])):
                i += 1
                steps.append({"a": "add", "id": i})
                g = rng.choice([0, 2000, 20000, 60000, 120000, 250000])
                if g:
                    steps.append({"a": "sleep", "gap": g})
            timing = k % 4 == 0
            if timing:      # an idle period in the middle: the rows after it are still reported promptly
                steps.insert(len(steps) // 2, {"a": "sleep", "gap": 1500000})
            sc = {"tr": base, "kind": "sliding", "size_ms": slide * n, "slide_ms": slide, "groups": rng.choice([1, 2, 3]), "free": True, "timing": timing, "steps": steps}
            mine[base] = sc
            f.write(json.dumps(sc) + "\n")
    rc, out = vlib.sh([vh, "proc", "-scen", sc_path, "-out", tr_path, "-par", "8"], 1500)
    if rc != 0:
        raise vlib.Inconclusive("proc driver failed (sliding):\n" + out[-3000:])
    inc = [l for l in out.splitlines() if l.startswith("INCONCLUSIVE")]
    if len(inc) > max(2, len(mine) // 10):
        raise vlib.Inconclusive("%d of %d processing-time sliding scenarios inconclusive, e.g. %s" % (len(inc), len(mine), inc[0]))
    rej, _, nlines = vlib.validate(SPEC, "TraceProcSliding", tr_path, set())
    seen = set()
    for tr, line, code in rej:
        if tr in seen:
            continue
        seen.add(tr)
        res.violation("processing-time sliding: %s at trace line %d of scenario %d" % (code, line, tr), mine.get(tr))
    res.cov["traces_validated_against_impl"] += len(mine) - len(inc)
    res.cov["evaluations"] += len(mine)
    res.cov["trace_events"] += nlines
    res.notes.append("processing-time sliding: %d free-running real-time scenarios (%d with an idle period), monitor TraceProcSliding" % (len(mine), sum(1 for m in mine.values() if m["timing"])))


def proc_session_stage(res, rng, vh, scen, quick=True):
    """Processing-time SESSION window (the default time characteristic; outside the letter of C10, same contract with arrival times):
    model check ProcSession, then free-running real-time inputs validated by TraceProcSession: every row in exactly one session of its
    key, window_start / window_end = first arrival / last arrival + timeout, no session before its timeout ran out, rows certainly
    less than the timeout apart share a session; (timing scenarios) gaps above 1.5 x timeout split, results follow promptly."""
    cfg = ('SPECIFICATION Spec\nCONSTANTS Timeout = 2 Keys = {"a", "b"} MaxNow = %d MaxEv = %d Emit = FALSE\n'
           "INVARIANTS ExactlyOnce OwnKey Bounds NoSplitBelowTimeout Timely\nVIEW View\nCHECK_DEADLOCK FALSE\n" % (6 if quick else 8, 4 if quick else 5))
    r = vlib.tlc(SPEC, "ProcSession", cfg, workers=8, timeout=1500)
    res.add_model("ProcSession", r, dict(timeout=2, keys=2, kind="procsession"))
    if not r["ok"]:
        if r["violated"]:
            res.notes.append("MODEL-COUNTEREXAMPLE procsession: invariant %s fails in the model; decided by the replay" % r["violated"])
        else:
            raise vlib.Inconclusive("TLC failed on ProcSession:\n" + r.get("error", r["out"][-2000:]))
    sc_path = os.path.join(vlib.scratch(), "pss_scen.ndjson")
    tr_path = os.path.join(vlib.scratch(), "pss_trace.ndjson")
    base = max(scen) if scen else 0
    mine = {}
    with open(sc_path, "w") as f:
        for k in range(16 if quick else 120):
            base += 1
            T = rng.choice([100, 160, 200])
            steps, i = [], 0
            for _ in range(rng.choice([8, 12, 16])):
                i += 1
                steps.append({"a": "add", "id": i})
                steps.append({"a": "sleep", "gap": rng.choice([2000, 20000, T * 500, T * 900, T * 1700, T * 2500])})
            sc = {"tr": base, "kind": "session", "size_ms": T, "groups": rng.choice([1, 2, 3]), "free": True, "timing": k % 3 == 0, "steps": steps}
            mine[base] = sc
            f.write(json.dumps(sc) + "\n")
    rc, out = vlib.sh([vh, "proc", "-scen", sc_path, "-out", tr_path, "-par", "8"], 1500)
    if rc != 0:
        raise vlib.Inconclusive("proc driver failed (session):\n" + out[-3000:])
    inc = [l for l in out.splitlines() if l.startswith("INCONCLUSIVE")]
    if len(inc) > max(2, len(mine) // 10):
        raise vlib.Inconclusive("%d of %d processing-time session scenarios inconclusive, e.g. %s" % (len(inc), len(mine), inc[0]))
    rej, _, nlines = vlib.validate(SPEC, "TraceProcSession", tr_path, set())
    seen = set()
    for tr, line, code in rej:
        if tr in seen:
            continue
        seen.add(tr)
        res.violation("processing-time session: %s at trace line %d of scenario %d" % (code, line, tr), mine.get(tr))
    res.cov["traces_validated_against_impl"] += len(mine) - len(inc)
    res.cov["evaluations"] += len(mine)
    res.cov["trace_events"] += nlines
    res.notes.append("processing-time session: %d free-running real-time scenarios, monitor TraceProcSession" % len(mine))
